"""T-treeops: regenerates coq/theories/Gen/TreeOps.v -- the SEQUENCE OF POINTER EFFECTS of GP._cross, GP._mutate
(optimizers/gp.py) and of the linking statements of the argument loop of TreeSpace.grow (spaces/tree.py) as data
of type `list stmt` (Model/TreeOpsDescr.v).  Pure `ast`, fail closed.

Understood statements (everything else is a TranslationError):
    x = copy.deepcopy(y)                                   SCopy x y
    x = int(<mod>.generate_uniform_random_number(K, y)[0]) SDraw x K y      (K an int literal)
    a, b = t.find_node(p)                                  SFind a b t p
    x = S.grow(S.min_depth, S.max_depth)                   SGrow x          (S a parameter used for nothing else)
    x = <path>                                             SAssign x path   (path = name(.left|.right|.parent)*)
    <path>.<left|right|parent|flag> = <path> | True|False  SSet path field rhs
    if <name | not c | c and c>: ... else: ...             SIf
    return x | return x, y                                 SReturn
Docstrings, comments, `pass` and logger calls are ignored.  Normalisation: locals are numbered by order of first
occurrence (parameters first), so renaming them is invisible; a draw statement sinks below following heap-only
statements that do not use its result (RNG and heap effects commute), so moving a draw earlier is invisible.
Nothing else is reordered: two heap statements commute only if their objects differ, which syntax cannot tell."""
import ast
from translate.common import TranslationError, parse, find_class, find_func, body_wo_doc, is_logger_call

GP_REL = 'opytimizer/optimizers/gp.py'
TREE_REL = 'opytimizer/spaces/tree.py'
PTR = ('left', 'right', 'parent')
FIELD = {'left': 'FLeft', 'right': 'FRight', 'parent': 'FParent', 'flag': 'FFlag'}
HEAP_ONLY = ('copy', 'find', 'assign', 'set')


class Tr:
    def __init__(self, rel, space_param=None, int_vars=()):
        self.rel = rel
        self.space = space_param
        self.space_uses = 0
        self.int_vars = set(int_vars)     # names known to hold a Python int (the index of `for i in range(..)`): `i == 0` is `not i`

    def err(self, node, msg):
        raise TranslationError(self.rel, node, msg)

    def name(self, node):
        if not isinstance(node, ast.Name):
            self.err(node, 'expected a plain name, got %s' % type(node).__name__)
        if node.id == self.space:
            self.err(node, 'the space parameter is used outside <space>.grow(<space>.min_depth, <space>.max_depth)')
        return node.id

    def path(self, node):
        fields = []
        while isinstance(node, ast.Attribute):
            if node.attr not in PTR:
                self.err(node, 'attribute .%s is not a pointer field' % node.attr)
            fields.append(node.attr)
            node = node.value
        return (self.name(node), tuple(reversed(fields)))

    def cond(self, t):
        if isinstance(t, ast.Name):
            return ('var', self.name(t))
        if isinstance(t, ast.UnaryOp) and isinstance(t.op, ast.Not):
            return ('not', self.cond(t.operand))
        if isinstance(t, ast.BoolOp) and isinstance(t.op, ast.And):
            cs = [self.cond(v) for v in t.values]
            out = cs[-1]
            for c in reversed(cs[:-1]):
                out = ('and', c, out)
            return out
        if isinstance(t, ast.Compare) and len(t.ops) == 1 and isinstance(t.ops[0], (ast.Eq, ast.NotEq)):
            a, b = t.left, t.comparators[0]
            if isinstance(a, ast.Constant):
                a, b = b, a
            if isinstance(a, ast.Name) and a.id in self.int_vars and isinstance(b, ast.Constant) and type(b.value) is int and b.value == 0:
                v = ('var', self.name(a))
                return ('not', v) if isinstance(t.ops[0], ast.Eq) else v
        self.err(t, 'condition is not a name / not / and')

    def is_call(self, v, attr, nargs):
        return (isinstance(v, ast.Call) and not v.keywords and len(v.args) == nargs
                and ((isinstance(v.func, ast.Attribute) and v.func.attr == attr and isinstance(v.func.value, ast.Name))
                     or (isinstance(v.func, ast.Name) and v.func.id == attr)))

    def rhs_stmt(self, dst, v, st):
        """x = <value>"""
        if self.is_call(v, 'deepcopy', 1):
            return ('copy', dst, self.name(v.args[0]))
        if (isinstance(v, ast.Call) and isinstance(v.func, ast.Name) and v.func.id == 'int' and len(v.args) == 1
                and not v.keywords and isinstance(v.args[0], ast.Subscript)):
            sub = v.args[0]
            idx = sub.slice
            if not (isinstance(idx, ast.Constant) and idx.value == 0 and type(idx.value) is int):
                self.err(st, 'draw is not indexed with [0]')
            call = sub.value
            if not self.is_call(call, 'generate_uniform_random_number', 2):
                self.err(st, 'int(...) of something that is not generate_uniform_random_number(low, high)[0]')
            lo, hi = call.args
            if not (isinstance(lo, ast.Constant) and type(lo.value) is int and lo.value >= 0):
                self.err(st, 'lower limit of the draw is not an int literal')
            return ('draw', dst, lo.value, self.name(hi))
        if isinstance(v, ast.Call) and isinstance(v.func, ast.Attribute) and v.func.attr == 'grow':
            s = v.func.value
            ok = (self.space is not None and isinstance(s, ast.Name) and s.id == self.space and len(v.args) == 2
                  and not v.keywords
                  and all(isinstance(a, ast.Attribute) and isinstance(a.value, ast.Name) and a.value.id == self.space
                          for a in v.args)
                  and [a.attr for a in v.args] == ['min_depth', 'max_depth'])
            if not ok:
                self.err(st, 'grow call is not <space>.grow(<space>.min_depth, <space>.max_depth)')
            self.space_uses += 3
            return ('grow', dst)
        if isinstance(v, (ast.Name, ast.Attribute)):
            return ('assign', dst, self.path(v))
        self.err(st, 'unsupported right-hand side %s' % type(v).__name__)

    def block(self, stmts):
        out = []
        for st in stmts:
            if isinstance(st, ast.Assign) and len(st.targets) == 1:
                tg, v = st.targets[0], st.value
                if isinstance(tg, ast.Name):
                    out.append(self.rhs_stmt(self.name(tg), v, st))
                elif isinstance(tg, ast.Tuple) and len(tg.elts) == 2 and isinstance(v, ast.Call) \
                        and isinstance(v.func, ast.Attribute) and v.func.attr == 'find_node' and len(v.args) == 1 \
                        and not v.keywords:
                    out.append(('find', self.name(tg.elts[0]), self.name(tg.elts[1]), self.name(v.func.value),
                                self.name(v.args[0])))
                elif isinstance(tg, ast.Attribute) and tg.attr in FIELD:
                    obj = self.path(tg.value)
                    if isinstance(v, ast.Constant) and type(v.value) is bool:
                        r = ('bool', v.value)
                    elif isinstance(v, (ast.Name, ast.Attribute)):
                        r = ('path', self.path(v))
                    else:
                        self.err(st, 'stored value is neither a path nor True/False')
                    if (tg.attr == 'flag') != (r[0] == 'bool'):
                        self.err(st, 'a flag must receive True/False and a pointer field a path')
                    out.append(('set', obj, tg.attr, r))
                else:
                    self.err(st, 'unsupported assignment target')
            elif isinstance(st, ast.If):
                out.append(('if', self.cond(st.test), self.block(clean(st.body)), self.block(clean(st.orelse))))
            elif isinstance(st, ast.Return):
                v = st.value
                if isinstance(v, ast.Name):
                    out.append(('return', [self.name(v)]))
                elif isinstance(v, ast.Tuple) and v.elts:
                    out.append(('return', [self.name(e) for e in v.elts]))
                else:
                    self.err(st, 'return of something that is not a name or a tuple of names')
            else:
                self.err(st, 'unsupported statement %s' % type(st).__name__)
        return merge_ifs(sink_draws(out))


def local_writes(block):
    """local NAMES (not heap fields) a block may bind"""
    w = set()
    for st in block:
        k = st[0]
        if k in ('copy', 'draw', 'grow', 'assign'):
            w.add(st[1])
        elif k == 'find':
            w |= {st[1], st[2]}
        elif k == 'if':
            w |= local_writes(st[2]) | local_writes(st[3])
    return w


def merge_ifs(block):
    """`if c: A else: B` directly followed by `if c: C else: D` is `if c: A; C else: B; D` when c only reads local names that neither A
    nor B binds (the heap writes of A / B cannot change a local flag): the canonical form is the merged one."""
    out = []
    for st in block:
        if out and st[0] == 'if' and out[-1][0] == 'if' and out[-1][1] == st[1] \
                and not (cond_names(st[1]) & (local_writes(out[-1][2]) | local_writes(out[-1][3]))) \
                and not any(x[0] == 'return' for x in out[-1][2] + out[-1][3]):
            prev = out.pop()
            out.append(('if', st[1], merge_ifs(prev[2] + st[2]), merge_ifs(prev[3] + st[3])))
        else:
            out.append(st)
    return out


def clean(stmts):
    """a nested block without logger calls and `pass`"""
    return [x for x in stmts if not is_logger_call(x) and not isinstance(x, ast.Pass)]


def uses(st):
    """names read / written by a statement (conservative, recursive for if)"""
    k = st[0]
    if k == 'copy':
        return {st[1], st[2]}
    if k == 'draw':
        return {st[1], st[3]}
    if k == 'find':
        return set(st[1:5])
    if k == 'grow':
        return {st[1]}
    if k == 'assign':
        return {st[1], st[2][0]}
    if k == 'set':
        return {st[1][0]} | ({st[3][1][0]} if st[3][0] == 'path' else set())
    return None           # if / return: never moved over


def sink_draws(block):
    """bubble every draw below the following heap-only statements that do not mention its variables"""
    b = list(block)
    changed = True
    while changed:
        changed = False
        for i in range(len(b) - 1):
            x, y = b[i], b[i + 1]
            if x[0] == 'draw' and y[0] in HEAP_ONLY and not (uses(x) & uses(y)):
                b[i], b[i + 1] = y, x
                changed = True
    return b


# ---------------------------------------------------------------------------- numbering and emission

class Numbering:
    def __init__(self, params):
        self.ix = {}
        for p in params:
            self.n(p)

    def n(self, name):
        if name not in self.ix:
            self.ix[name] = len(self.ix)
        return self.ix[name]


def q_path(nb, p):
    return '(%d, [%s])' % (nb.n(p[0]), '; '.join(FIELD[f] for f in p[1]))


def q_cond(nb, c):
    if c[0] == 'var':
        return '(CVar %d)' % nb.n(c[1])
    if c[0] == 'not':
        return '(CNot %s)' % q_cond(nb, c[1])
    return '(CAnd %s %s)' % (q_cond(nb, c[1]), q_cond(nb, c[2]))


def q_block(nb, block, ind):
    pad = ' ' * ind
    rows = []
    for st in block:
        k = st[0]
        if k == 'copy':
            s, d = nb.n(st[2]), nb.n(st[1])
            rows.append('SCopy %d %d' % (d, s))
        elif k == 'draw':
            h, d = nb.n(st[3]), nb.n(st[1])
            rows.append('SDraw %d %d %d' % (d, st[2], h))
        elif k == 'find':
            t, p = nb.n(st[3]), nb.n(st[4])
            rows.append('SFind %d %d %d %d' % (nb.n(st[1]), nb.n(st[2]), t, p))
        elif k == 'grow':
            rows.append('SGrow %d' % nb.n(st[1]))
        elif k == 'assign':
            p = q_path(nb, st[2])
            rows.append('SAssign %d %s' % (nb.n(st[1]), p))
        elif k == 'set':
            obj = q_path(nb, st[1])
            r = ('(RBool %s)' % ('true' if st[3][1] else 'false')) if st[3][0] == 'bool' else '(RPath %s)' % q_path(nb, st[3][1])
            rows.append('SSet %s %s %s' % (obj, FIELD[st[2]], r))
        elif k == 'if':
            c = q_cond(nb, st[1])
            th = q_block(nb, st[2], ind + 4)
            el = q_block(nb, st[3], ind + 4)
            rows.append('SIf %s\n%s  %s\n%s  %s' % (c, pad, th, pad, el))
        elif k == 'return':
            rows.append('SReturn [%s]' % '; '.join(str(nb.n(v)) for v in st[1]))
    return '[' + (';\n' + pad + ' ').join(rows) + ']'


def params_of(fn):
    a = fn.args
    if a.vararg or a.kwarg or a.kwonlyargs or a.posonlyargs or a.defaults or a.kw_defaults:
        raise TranslationError('', fn, 'unexpected parameter list')
    return [x.arg for x in a.args]


def method_descr(repo, rel, cls, meth, n_params, space_like):
    tree, src = parse(repo, rel)
    c = find_class(tree, cls)
    fn = find_func(c, meth) if c is not None else None
    if fn is None:
        raise TranslationError(rel, None, '%s.%s not found' % (cls, meth))
    ps = params_of(fn)
    if len(ps) != n_params:
        raise TranslationError(rel, fn, '%s takes %d parameters' % (meth, len(ps)))
    space = ps[1] if space_like else None
    tr = Tr(rel, space)
    block = tr.block(body_wo_doc(fn))
    names = [n.id for n in ast.walk(fn) if isinstance(n, ast.Name)]
    if ps[0] in names:
        tr.err(fn, '`%s` is used in %s' % (ps[0], meth))
    if space is not None and names.count(space) != tr.space_uses:
        tr.err(fn, 'the space parameter is used outside the grow call')
    if not block or block[-1][0] != 'return':
        tr.err(fn, '%s does not end with a return' % meth)
    nb = Numbering([p for p in ps[1:] if p != space])
    text = q_block(nb, block, 2)
    check_defined(tr, fn, block, set(p for p in ps[1:] if p != space))
    return text, fn.lineno, len(nb.ix)


def check_defined(tr, node, block, defined):
    """every name is defined (parameter or earlier assignment on every path) before it is read"""
    for st in block:
        k = st[0]
        reads, writes = set(), set()
        if k == 'copy':
            reads, writes = {st[2]}, {st[1]}
        elif k == 'draw':
            reads, writes = {st[3]}, {st[1]}
        elif k == 'find':
            reads, writes = {st[3], st[4]}, {st[1], st[2]}
        elif k == 'grow':
            writes = {st[1]}
        elif k == 'assign':
            reads, writes = {st[2][0]}, {st[1]}
        elif k == 'set':
            reads = {st[1][0]} | ({st[3][1][0]} if st[3][0] == 'path' else set())
        elif k == 'return':
            reads = set(st[1])
        elif k == 'if':
            reads = cond_names(st[1])
        if not reads <= defined:
            tr.err(node, 'name(s) %s read before being defined' % sorted(reads - defined))
        if k == 'if':
            a, b = set(defined), set(defined)
            check_defined(tr, node, st[2], a)
            check_defined(tr, node, st[3], b)
            defined |= (a & b)
        defined |= writes


def cond_names(c):
    if c[0] == 'var':
        return {c[1]}
    if c[0] == 'not':
        return cond_names(c[1])
    return cond_names(c[1]) | cond_names(c[2])


def grow_link_descr(repo):
    """the statements that follow `node = self.grow(min_depth + 1, max_depth)` in the argument loop of grow"""
    rel = TREE_REL
    tree, src = parse(repo, rel)
    c = find_class(tree, 'TreeSpace')
    fn = find_func(c, 'grow') if c is not None else None
    if fn is None:
        raise TranslationError(rel, None, 'TreeSpace.grow not found')
    ps = params_of(fn)
    if len(ps) != 3:
        raise TranslationError(rel, fn, 'grow takes %d parameters' % len(ps))
    loops = [n for n in ast.walk(fn) if isinstance(n, (ast.For, ast.While, ast.AsyncFor))]
    if len(loops) != 1 or not isinstance(loops[0], ast.For):
        raise TranslationError(rel, fn, 'grow does not contain exactly one for loop')
    lp = loops[0]
    it = lp.iter
    if not (isinstance(lp.target, ast.Name) and not lp.orelse and isinstance(it, ast.Call)
            and isinstance(it.func, ast.Name) and it.func.id == 'range' and len(it.args) == 1 and not it.keywords):
        raise TranslationError(rel, lp, 'the loop is not `for i in range(<arity>)`')
    body = clean(lp.body)
    tr = Tr(rel, int_vars=[lp.target.id])
    first = body[0] if body else None
    ok = (isinstance(first, ast.Assign) and len(first.targets) == 1 and isinstance(first.targets[0], ast.Name)
          and isinstance(first.value, ast.Call) and not first.value.keywords and len(first.value.args) == 2
          and isinstance(first.value.func, ast.Attribute) and first.value.func.attr == 'grow'
          and isinstance(first.value.func.value, ast.Name) and first.value.func.value.id == ps[0])
    if ok:
        a0, a1 = first.value.args
        ok = (isinstance(a0, ast.BinOp) and isinstance(a0.op, ast.Add) and isinstance(a0.left, ast.Name)
              and a0.left.id == ps[1] and isinstance(a0.right, ast.Constant) and a0.right.value == 1
              and type(a0.right.value) is int and isinstance(a1, ast.Name) and a1.id == ps[2])
    if not ok:
        raise TranslationError(rel, lp, 'the loop body does not start with `node = self.grow(min_depth + 1, max_depth)`')
    node = first.targets[0].id
    block = tr.block(body[1:])
    for st in block:
        if st[0] not in ('set', 'if'):
            tr.err(lp, 'the linking statements contain a %s statement' % st[0])
    nb = Numbering([lp.target.id, node])
    text = q_block(nb, block, 2)
    # the third root must be the function node created before the loop and returned after it
    free = [n for n in nb.ix if n not in (lp.target.id, node)]
    if len(free) != 1:
        tr.err(lp, 'the linking statements mention %r besides the loop variable and the new node' % free)
    fnode = free[0]
    created = [s_ for s_ in ast.walk(fn) if isinstance(s_, ast.Assign) and len(s_.targets) == 1
               and isinstance(s_.targets[0], ast.Name) and s_.targets[0].id == fnode]
    if len(created) != 1 or not (isinstance(created[0].value, ast.Call) and isinstance(created[0].value.func, ast.Name)
                                 and created[0].value.func.id == 'Node'):
        tr.err(lp, '%s is not bound exactly once to a new Node' % fnode)
    return text, lp.lineno, fnode


def generate(repo):
    """-> (text, items, errors)"""
    from translate import t_treepop
    items, errors, defs = [], [], []
    link = {}

    def grow_link():
        r = grow_link_descr(repo)
        link['fnode'] = r[2]
        return r

    def grow_sel():
        if 'fnode' not in link:
            raise TranslationError(TREE_REL, None, 'the linking statements of grow were not translated')
        return t_treepop.grow_descr(repo, link)
    jobs = [('cross_src', 'list stmt', '[]', lambda: method_descr(repo, GP_REL, 'GP', '_cross', 5, False), GP_REL, '_cross'),
            ('mutate_src', 'list stmt', '[]', lambda: method_descr(repo, GP_REL, 'GP', '_mutate', 4, True), GP_REL, '_mutate'),
            ('grow_link_src', 'list stmt', '[]', grow_link, TREE_REL, 'grow (linking)'),
            ('grow_src', 'list gstmt', '[]', grow_sel, TREE_REL, 'grow (selection and creation)'),
            ('reproduction_src', 'list pstmt', '[]', lambda: t_treepop.pop_method(repo, '_reproduction'), GP_REL, '_reproduction'),
            ('mutation_src', 'list pstmt', '[]', lambda: t_treepop.pop_method(repo, '_mutation'), GP_REL, '_mutation'),
            ('crossover_src', 'list pstmt', '[]', lambda: t_treepop.pop_method(repo, '_crossover'), GP_REL, '_crossover'),
            ('prune_src', 'prune_d', '(PruneClampLow 0)', lambda: t_treepop.prune_descr(repo), GP_REL, '_prune_nodes')]
    for name, ty, dummy, job, rel, item in jobs:
        try:
            r = job()
            defs.append('(* %s:%d %s *)\nDefinition %s : %s :=\n  %s.\n' % (rel, r[1], item, name, ty, r[0]))
            items.append({'file': rel, 'line': r[1], 'text': '%s := %s' % (name, ' '.join(r[0].split())[:300])})
        except TranslationError as ex:
            errors.append({'item': item, 'file': ex.file or rel, 'line': ex.line, 'msg': ex.msg})
            # an obviously different value: the equality theorem of Props/C08.v breaks as well
            defs.append('(* %s: translation FAILED: %s *)\nDefinition %s : %s := %s.\n'
                        % (item, ex.msg.replace('*)', '* )').replace('(*', '( *'), name, ty, dummy))
    text = ('(* GENERATED by translate/t_treeops.py from %s and %s -- do not edit *)\n'
            'From Coq Require Import List ZArith.\n'
            'From OV Require Import Model.TreeOpsDescr Model.TreePopDescr Model.TreeGrowDescr.\nImport ListNotations.\n\n'
            % (GP_REL, TREE_REL)) + '\n'.join(defs)
    return text, items, errors
