"""T4 (part 1): the check_limits and _initialize_agents row loops -> descriptors in Gen/ClipLoops.v.

Fail-closed: any statement outside the recognised loop shape raises TranslationError.
"""
import ast
from .common import (inline_const_locals, inline_ref_aliases, TranslationError, parse, find_class, find_func, body_wo_doc, src_of,
                     key_of_float, coq_okey, coq_bool, is_attr, HEADER)


def _enum_zip(loop, file):
    """for j, (A, B) in enumerate(zip(O.lb, O.ub))  or  for j, _ in enumerate(X.position)
    -> (j, A, B, zip_lb(owner, attr), zip_ub(owner, attr)) or (j, None, None, ('position', X))"""
    if not (isinstance(loop, ast.For) and not loop.orelse):
        raise TranslationError(file, loop, 'expected a for loop')
    t = loop.target
    if not (isinstance(t, ast.Tuple) and len(t.elts) == 2 and isinstance(t.elts[0], ast.Name)):
        raise TranslationError(file, loop, 'expected `for j, (...) in enumerate(...)`')
    j = t.elts[0].id
    it = loop.iter
    if not (isinstance(it, ast.Call) and isinstance(it.func, ast.Name) and it.func.id == 'enumerate'
            and len(it.args) == 1 and not it.keywords):
        raise TranslationError(file, loop, 'expected enumerate(...)')
    inner = it.args[0]
    if isinstance(inner, ast.Call) and isinstance(inner.func, ast.Name) and inner.func.id == 'zip':
        if len(inner.args) != 2 or inner.keywords:
            raise TranslationError(file, loop, 'expected zip of two sequences')
        pair = t.elts[1]
        if isinstance(pair, ast.Name):
            # `for j, _ in enumerate(zip(lb, ub))`: the pair itself is bound to one name; usable only if the body never reads it
            if any(isinstance(n, ast.Name) and n.id == pair.id for b in loop.body for n in ast.walk(b)):
                raise TranslationError(file, loop, 'the (lb, ub) pair is bound to one name that the loop body uses')
            pair = ast.Tuple(elts=[ast.Name(id='%s#0' % pair.id, ctx=ast.Store()), ast.Name(id='%s#1' % pair.id, ctx=ast.Store())], ctx=ast.Store())
        if not (isinstance(pair, ast.Tuple) and len(pair.elts) == 2 and all(isinstance(e, ast.Name) for e in pair.elts)):
            raise TranslationError(file, loop, 'expected (lb, ub) tuple target')
        za, zb = inner.args
        for z in (za, zb):
            if not (isinstance(z, ast.Attribute) and isinstance(z.value, ast.Name) and z.attr in ('lb', 'ub')):
                raise TranslationError(file, loop, 'zip arguments must be <obj>.lb / <obj>.ub')
        return j, pair.elts[0].id, pair.elts[1].id, (za.value.id, za.attr), (zb.value.id, zb.attr)
    if isinstance(inner, ast.Attribute) and inner.attr == 'position' and isinstance(inner.value, ast.Name):
        if not isinstance(t.elts[1], ast.Name):
            raise TranslationError(file, loop, 'expected `for j, _ in enumerate(x.position)`')
        return j, None, None, ('position', inner.value.id), None
    raise TranslationError(file, loop, 'unrecognised iteration source')


def _row(node, obj, j):
    """node is  obj.position[j]"""
    return (isinstance(node, ast.Subscript) and is_attr(node.value, obj, 'position')
            and isinstance(node.slice, ast.Name) and node.slice.id == j)


def _bsrc(node, A, B, file):
    if isinstance(node, ast.Name):
        if A == B:
            raise TranslationError(file, node, 'ambiguous loop variable `%s`' % node.id)
        if node.id == A:
            return 'BLoopLb'
        if node.id == B:
            return 'BLoopUb'
        raise TranslationError(file, node, 'bound `%s` is not a loop variable' % node.id)
    if isinstance(node, ast.Constant) and isinstance(node.value, (int, float)) and not isinstance(node.value, bool):
        return 'BConst %s' % coq_okey(key_of_float(node.value))
    if isinstance(node, ast.UnaryOp) and isinstance(node.op, ast.USub) and isinstance(node.operand, ast.Constant):
        return 'BConst %s' % coq_okey(key_of_float(-node.operand.value))
    raise TranslationError(file, node, 'unrecognised bound expression')


def _owner(name, selfname, agentname):
    if name == selfname:
        return 'OSelf'
    if agentname is not None and name == agentname:
        return 'OAgent'
    return None


def _outer_agents_loop(stmts, file, fn, collection=('agents',)):
    """Optionally peel  for agent in self.<collection>:  -> (agentvar or None, inner statements)"""
    if len(stmts) == 1 and isinstance(stmts[0], ast.For):
        it = stmts[0].iter
        if isinstance(it, ast.Attribute) and isinstance(it.value, ast.Name) and it.value.id == 'self' \
                and it.attr in collection and isinstance(stmts[0].target, ast.Name) and not stmts[0].orelse:
            return stmts[0].target.id, stmts[0].body, it.attr
    return None, stmts, None


def check_limits_descr(repo, rel, cls, items):
    tree, src = parse(repo, rel)
    inline_const_locals(inline_ref_aliases(tree))     # numeric literals and pure references bound to a local once are what they name
    c = find_class(tree, cls)
    fn = find_func(c, 'check_limits') if c else None
    if fn is None:
        raise TranslationError(rel, c, '%s.check_limits not found' % cls)
    stmts = body_wo_doc(fn)
    agent, inner, _ = _outer_agents_loop(stmts, rel, fn)
    if len(inner) != 1:
        raise TranslationError(rel, fn, 'check_limits: expected exactly one row loop')
    loop = inner[0]
    j, A, B, zl, zu = _enum_zip(loop, rel)
    if A is None:
        raise TranslationError(rel, loop, 'check_limits must iterate over zip(lb, ub)')
    if len(loop.body) != 1 or not isinstance(loop.body[0], ast.Assign) or len(loop.body[0].targets) != 1:
        raise TranslationError(rel, loop, 'check_limits: loop body must be one assignment')
    asg = loop.body[0]
    obj = agent if agent is not None else 'self'
    tgt = asg.targets[0]
    call = asg.value
    if not (isinstance(call, ast.Call) and isinstance(call.func, ast.Attribute) and call.func.attr == 'clip'
            and isinstance(call.func.value, ast.Name) and call.func.value.id == 'np'):
        raise TranslationError(rel, asg, 'expected np.clip(x, lo, hi)')
    # np.clip(a, a_min, a_max): the bounds may be given by keyword (nothing else: no out=, no dtype=)
    cargs = list(call.args)
    kws = {k.arg: k.value for k in call.keywords}
    if len(cargs) > 3 or len(kws) != len(call.keywords) or set(kws) - {'a', 'a_min', 'a_max'}:
        raise TranslationError(rel, asg, 'expected np.clip(x, lo, hi) (a_min= / a_max= allowed, nothing else)')
    for pos, name in enumerate(('a', 'a_min', 'a_max')):
        if name in kws:
            if pos < len(cargs):
                raise TranslationError(rel, asg, 'np.clip argument %s given twice' % name)
            if pos != len(cargs):
                raise TranslationError(rel, asg, 'np.clip arguments out of order')
            cargs.append(kws[name])
    if len(cargs) != 3:
        raise TranslationError(rel, asg, 'expected np.clip(x, lo, hi)')
    call = ast.Call(func=call.func, args=cargs, keywords=[])
    same_row = _row(tgt, obj, j) and _row(call.args[0], obj, j)
    if not same_row:
        raise TranslationError(rel, asg, 'clip must read and write <agent>.position[%s]' % j)
    ol = _owner(zl[0], 'self', agent)
    ou = _owner(zu[0], 'self', agent)
    if ol is None or ou is None:
        raise TranslationError(rel, loop, 'zip over unknown object')
    lo = _bsrc(call.args[1], A, B, rel)
    hi = _bsrc(call.args[2], A, B, rel)
    items.append({'file': rel, 'line': asg.lineno, 'text': src_of(src, asg)})
    return ('{| cl_over_agents := %s; cl_zip_lb := (%s, %s); cl_zip_ub := (%s, %s); cl_same_row := true; '
            'cl_lo := %s; cl_hi := %s |}') % (coq_bool(agent is not None), ol, coq_bool(zl[1] == 'lb'),
                                             ou, coq_bool(zu[1] == 'lb'), lo, hi)


def uniform_signature(repo, items):
    """Defaults of generate_uniform_random_number and the positional pass-through to np.random.uniform."""
    rel = 'opytimizer/math/random.py'
    tree, src = parse(repo, rel)
    inline_const_locals(inline_ref_aliases(tree))     # numeric literals and pure references bound to a local once are what they name
    fn = find_func(tree, 'generate_uniform_random_number')
    if fn is None:
        raise TranslationError(rel, tree, 'generate_uniform_random_number not found')
    names = [a.arg for a in fn.args.args]
    if names != ['low', 'high', 'size'] or fn.args.vararg or fn.args.kwarg or fn.args.kwonlyargs:
        raise TranslationError(rel, fn, 'unexpected signature %s' % names)
    defaults = [d.value if isinstance(d, ast.Constant) else None for d in fn.args.defaults]
    if len(defaults) != 3 or defaults[0] is None or defaults[1] is None:
        raise TranslationError(rel, fn, 'unexpected defaults')
    body = body_wo_doc(fn)
    ok = (len(body) == 2 and isinstance(body[0], ast.Assign) and isinstance(body[1], ast.Return)
          and isinstance(body[0].targets[0], ast.Name) and isinstance(body[1].value, ast.Name)
          and body[1].value.id == body[0].targets[0].id)
    if ok:
        call = body[0].value
        ok = (isinstance(call, ast.Call) and ast.unparse(call.func) == 'np.random.uniform'
              and [ast.unparse(a) for a in call.args] == ['low', 'high', 'size'] and not call.keywords)
    if not ok:
        raise TranslationError(rel, fn, 'generate_uniform_random_number is not a positional pass-through to np.random.uniform')
    items.append({'file': rel, 'line': fn.lineno, 'text': 'def generate_uniform_random_number(low=%r, high=%r, size=%r)' % tuple(defaults)})
    return {'low': defaults[0], 'high': defaults[1], 'size': defaults[2]}


def init_descr(repo, rel, cls, fname, collection, usig, items):
    tree, src = parse(repo, rel)
    inline_const_locals(inline_ref_aliases(tree))     # numeric literals and pure references bound to a local once are what they name
    c = find_class(tree, cls)
    fn = find_func(c, fname) if c else None
    if fn is None:
        raise TranslationError(rel, c, '%s.%s not found' % (cls, fname))
    stmts = body_wo_doc(fn)
    # delegation to a helper method:  self._helper(self.<collection>)  with  def _helper(self, xs): for x in xs: ...
    if len(stmts) == 1 and isinstance(stmts[0], ast.Expr) and isinstance(stmts[0].value, ast.Call):
        call = stmts[0].value
        if (isinstance(call.func, ast.Attribute) and isinstance(call.func.value, ast.Name) and call.func.value.id == 'self'
                and len(call.args) == 1 and not call.keywords and isinstance(call.args[0], ast.Attribute)
                and isinstance(call.args[0].value, ast.Name) and call.args[0].value.id == 'self' and call.args[0].attr == collection):
            helper = find_func(c, call.func.attr)
            if helper is None:
                raise TranslationError(rel, stmts[0], 'helper %s.%s not found' % (cls, call.func.attr))
            params = [a.arg for a in helper.args.args]
            if len(params) != 2 or params[0] != 'self' or helper.args.defaults or helper.args.vararg or helper.args.kwarg or helper.args.kwonlyargs:
                raise TranslationError(rel, helper, 'helper %s: expected the signature (self, <list>)' % call.func.attr)
            hb = body_wo_doc(helper)
            if not (len(hb) == 1 and isinstance(hb[0], ast.For) and isinstance(hb[0].iter, ast.Name) and hb[0].iter.id == params[1]
                    and isinstance(hb[0].target, ast.Name) and not hb[0].orelse
                    and not any(isinstance(n, ast.Name) and n.id == params[1] for b in hb[0].body for n in ast.walk(b))):
                raise TranslationError(rel, helper, 'helper %s: expected one loop `for x in %s:` that does not use the list otherwise' % (call.func.attr, params[1]))
            loopc = ast.For(target=hb[0].target, iter=call.args[0], body=hb[0].body, orelse=[])
            ast.copy_location(loopc, hb[0])
            stmts = [loopc]
    agent, inner, coll = _outer_agents_loop(stmts, rel, fn, (collection,))
    if agent is None or len(inner) != 1:
        raise TranslationError(rel, fn, '%s: expected `for x in self.%s:` around one row loop' % (fname, collection))
    loop = inner[0]
    j, A, B, zl, zu = _enum_zip(loop, rel)
    zipb = A is not None
    if zipb:
        if not (zl == ('self', 'lb') and zu == ('self', 'ub')):
            raise TranslationError(rel, loop, 'initialisation must zip(self.lb, self.ub)')
    else:
        if zl != ('position', agent):
            raise TranslationError(rel, loop, 'initialisation must enumerate the agent\'s own position')
    set_lb = set_ub = False
    low = high = None
    size_ndim = False
    seen_draw = False
    for s in loop.body:
        if not (isinstance(s, ast.Assign) and len(s.targets) == 1):
            raise TranslationError(rel, s, 'unexpected statement in initialisation loop')
        t = s.targets[0]
        if _row(t, agent, j):
            call = s.value
            if not (isinstance(call, ast.Call) and isinstance(call.func, ast.Attribute)
                    and call.func.attr == 'generate_uniform_random_number'):
                raise TranslationError(rel, s, 'position rows must come from generate_uniform_random_number')
            bound = dict(usig)
            order = ['low', 'high', 'size']
            given = {}
            for i, a in enumerate(call.args):
                given[order[i]] = a
            for kw in call.keywords:
                if kw.arg not in order or kw.arg in given:
                    raise TranslationError(rel, s, 'bad keyword %s' % kw.arg)
                given[kw.arg] = kw.value
            low = _bsrc(given['low'], A, B, rel) if 'low' in given else 'BConst %s' % coq_okey(key_of_float(bound['low']))
            high = _bsrc(given['high'], A, B, rel) if 'high' in given else 'BConst %s' % coq_okey(key_of_float(bound['high']))
            size_ndim = 'size' in given and is_attr(given['size'], agent, 'n_dimensions')
            if seen_draw:
                raise TranslationError(rel, s, 'row drawn twice')
            seen_draw = True
            items.append({'file': rel, 'line': s.lineno, 'text': src_of(src, s)})
        elif isinstance(t, ast.Subscript) and isinstance(t.slice, ast.Name) and t.slice.id == j \
                and isinstance(t.value, ast.Attribute) and isinstance(t.value.value, ast.Name) \
                and t.value.value.id == agent and t.value.attr in ('lb', 'ub'):
            if not isinstance(s.value, ast.Name):
                raise TranslationError(rel, s, 'bound copy must be a loop variable')
            want = A if t.value.attr == 'lb' else B
            if s.value.id != want or A == B:
                raise TranslationError(rel, s, '%s.%s[%s] receives `%s`, expected the zip\'s %s' % (agent, t.value.attr, j, s.value.id, t.value.attr))
            if t.value.attr == 'lb':
                set_lb = True
            else:
                set_ub = True
            items.append({'file': rel, 'line': s.lineno, 'text': src_of(src, s)})
        else:
            raise TranslationError(rel, s, 'unexpected assignment target in initialisation loop')
    if not seen_draw:
        raise TranslationError(rel, loop, 'no uniform draw into position rows')
    return ('{| in_over_agents := true; in_zip_bounds := %s; in_low := %s; in_high := %s; in_size_ndim := %s; '
            'in_set_lb := %s; in_set_ub := %s |}') % (coq_bool(zipb), low, high, coq_bool(size_ndim),
                                                      coq_bool(set_lb), coq_bool(set_ub))


def generate(repo):
    """-> (coq text, items, errors).  One definition per loop; a loop that fails to translate is
    omitted and reported, so that the Props file depending on it no longer builds."""
    items = []
    errors = []
    out = [HEADER, 'From Coq Require Import ZArith List.', 'From OV Require Import Base.FloatKey Model.Clip Model.SpaceInit.',
           'Import ListNotations.', '']

    def emit(name, ty, f):
        try:
            out.append('Definition %s : %s := %s.' % (name, ty, f()))
        except TranslationError as ex:
            errors.append({'item': name, 'file': ex.file, 'line': ex.line, 'msg': ex.msg})
        except (KeyError, IndexError, AttributeError) as ex:
            errors.append({'item': name, 'file': '?', 'line': 0, 'msg': 'translator: %r' % ex})

    emit('agent_check_limits', 'cl_descr', lambda: check_limits_descr(repo, 'opytimizer/core/agent.py', 'Agent', items))
    emit('search_check_limits', 'cl_descr', lambda: check_limits_descr(repo, 'opytimizer/spaces/search.py', 'SearchSpace', items))
    emit('hyper_check_limits', 'cl_descr', lambda: check_limits_descr(repo, 'opytimizer/spaces/hyper.py', 'HyperSpace', items))
    try:
        usig = uniform_signature(repo, items)
    except TranslationError as ex:
        errors.append({'item': 'uniform_signature', 'file': ex.file, 'line': ex.line, 'msg': ex.msg})
        usig = None
    if usig is not None:
        emit('search_init', 'in_descr', lambda: init_descr(repo, 'opytimizer/spaces/search.py', 'SearchSpace', '_initialize_agents', 'agents', usig, items))
        emit('hyper_init', 'in_descr', lambda: init_descr(repo, 'opytimizer/spaces/hyper.py', 'HyperSpace', '_initialize_agents', 'agents', usig, items))
        emit('tree_init', 'in_descr', lambda: init_descr(repo, 'opytimizer/spaces/tree.py', 'TreeSpace', '_initialize_agents', 'agents', usig, items))
        emit('tree_init_terminals', 'in_descr', lambda: init_descr(repo, 'opytimizer/spaces/tree.py', 'TreeSpace', '_initialize_terminals', 'terminals', usig, items))
    return '\n'.join(out) + '\n', items, errors
