"""T2: run/_update/_evaluate of every optimizer -> effect IR (coq/theories/Model/IR.v).

Abstract interpretation of the Python ast with a symbolic environment.  Calls to
`self._helper(...)` are inlined through the class hierarchy.  Fail-closed: anything that
touches an agent, the population, the best agent, a trial or the history in a way that is not
recognised raises TranslationError.  Statements that only touch numeric locals are dropped
after checking that they mention no agent attribute in a writing position and call nothing
outside the whitelist.
"""
import ast
import os
from .common import TranslationError, parse, find_class, find_func, HEADER, coq_str, normalise, logger_args_inert

OPTIMIZERS = [
    ('ABC', 'abc'), ('AIWPSO', 'aiwpso'), ('BA', 'ba'), ('BHA', 'bha'), ('CS', 'cs'), ('FA', 'fa'),
    ('FPA', 'fpa'), ('GP', 'gp'), ('GSA', 'gsa'), ('HC', 'hc'), ('HS', 'hs'), ('IHS', 'ihs'),
    ('PSO', 'pso'), ('RPSO', 'rpso'), ('SA', 'sa'), ('SCA', 'sca'), ('WCA', 'wca')]

# ---------------------------------------------------------------- symbolic values


class SV:
    def __init__(self, kind, **kw):
        self.kind = kind
        self.__dict__.update(kw)

    def __repr__(self):
        return 'SV(%s%s)' % (self.kind, ''.join(' %s=%r' % (k, v) for k, v in self.__dict__.items() if k != 'kind'))


def NUM():
    return SV('num')


SELF, SPACE, FUNC, HOOK, HIST, POP, BEST, SHADOWS, LOCPOS, TREES, BESTTREE = (
    SV(k) for k in ('self', 'space', 'func', 'hook', 'hist', 'pop', 'best', 'shadows', 'locpos', 'trees', 'besttree'))


def AG(ref):
    return SV('agent', ref=ref)


ENTROPY_OK = {('r', 'generate_uniform_random_number'), ('r', 'generate_gaussian_random_number'),
              ('d', 'generate_levy_distribution'), ('d', 'generate_bernoulli_distribution'),
              ('g', 'tournament_selection')}
PURE_MODULE_FUNCS = {('g', 'euclidean_distance'), ('g', 'pairwise')}
NP_INPLACE = {'copyto', 'put', 'place', 'putmask', 'put_along_axis', 'fill_diagonal', 'shuffle'}
PURE_BUILTINS = {'len', 'int', 'round', 'sum', 'range', 'enumerate', 'zip', 'float', 'abs', 'min', 'max', 'list', 'tuple'}
AMBIENT_MODULES = {'random', 'time', 'os', 'secrets', 'sys', 'datetime', 'uuid', 'threading'}
AMBIENT_BUILTINS = {'id', 'hash', 'input', 'open', 'globals', 'vars', 'exec', 'eval', 'setattr', 'getattr', 'delattr', 'set'}


def lower_returns(stmts):
    """[.., if c: A; return x, rest.., return y]  ->  [.., if c: A; __ret = x  else: rest..; __ret = y]
    (every path must end in a return that is the last statement of its block); None when the body is not of that shape."""
    def has_ret(b):
        return any(isinstance(n, ast.Return) for x in b for n in ast.walk(x))

    def conv(block):
        block = list(block)
        for k, st in enumerate(block):
            if not has_ret([st]):
                continue
            if isinstance(st, ast.Return):
                if k != len(block) - 1:
                    return None
                asg = ast.Assign(targets=[ast.Name(id='__ret', ctx=ast.Store())], value=st.value if st.value is not None else ast.Constant(value=None))
                ast.copy_location(asg, st)
                ast.fix_missing_locations(asg)
                return block[:k] + [asg]
            if isinstance(st, ast.If):
                rest = block[k + 1:]
                nb = conv(list(st.body)) if has_ret(st.body) else conv(list(st.body) + rest)
                no = conv(list(st.orelse)) if has_ret(st.orelse) else conv(list(st.orelse) + rest)
                if nb is None or no is None:
                    return None
                new = ast.If(test=st.test, body=nb or [ast.Pass()], orelse=no)
                ast.copy_location(new, st)
                ast.fix_missing_locations(new)
                return block[:k] + [new]
            return None
        return None
    return conv(stmts)


class Tr:
    def __init__(self, repo, clsname, modname):
        self.repo = repo
        self.clsname = clsname
        self.file = 'opytimizer/optimizers/%s.py' % modname
        self.classes = self._mro(clsname, modname)   # [(classdef, file, src)] most derived first
        self.locs = []        # "file:line: text"
        self.hyper_writes = []   # (name, file, line, source text, op)
        self.draws = []          # (file, line, callee)
        self.ambient = []        # (file, line, what)
        self.dump_keys = None
        self.hook_calls = 0
        self.nidx = 0
        self.idxreg = {}
        self.curfile = self.file
        self.cursrc = None
        self.depth = 0
        self.seen_draw_nodes = set()
        self.pending_choose = []
        self.pending_draws = 0
        self.chosen = set()
        # recording plan for the differential state replay (harness/t2state.py): one emission per oracle-consuming atom
        self.plan_emit = []      # dicts {kind, file, pos (statement), ...}
        self.visits = {}         # (file, pos) -> number of times the statement was translated (helpers are inlined)
        self.pending_src = []    # parallel to pending_choose: (reg, source text of the index expression, comprehension-local?)
        self.comp_names = []     # names bound by the comprehensions being evaluated
        self.cond_leaves = []    # Opaque leaves of the test being translated

    # -- class hierarchy
    def _mro(self, clsname, modname):
        out = []
        file = 'opytimizer/optimizers/%s.py' % modname
        while True:
            tree, src = parse(self.repo, file)
            normalise(tree)
            c = find_class(tree, clsname)
            if c is None:
                raise TranslationError(file, None, 'class %s not found' % clsname)
            out.append((c, file, src, tree))
            if len(c.bases) != 1 or not isinstance(c.bases[0], ast.Name):
                raise TranslationError(file, c, 'unexpected bases')
            base = c.bases[0].id
            if base == 'Optimizer':
                t2, s2 = parse(self.repo, 'opytimizer/core/optimizer.py')
                normalise(t2)
                out.append((find_class(t2, 'Optimizer'), 'opytimizer/core/optimizer.py', s2, t2))
                return out
            # find import of base
            found = None
            for n in tree.body:
                if isinstance(n, ast.ImportFrom) and any(a.name == base for a in n.names):
                    found = n.module
            if not found or not found.startswith('opytimizer.optimizers.'):
                raise TranslationError(file, c, 'cannot resolve base class %s' % base)
            clsname = base
            file = found.replace('.', '/') + '.py'

    def method(self, name):
        for c, file, src, tree in self.classes:
            fn = find_func(c, name)
            if fn is not None and not fn.decorator_list:
                return fn, file, src
        return None, None, None

    # -- emission helpers
    def err(self, node, msg):
        raise TranslationError(self.curfile, node, msg)

    def at(self, node, stmt):
        text = ast.get_source_segment(self.cursrc, node) or ''
        text = ' '.join(text.split())[:110]
        self.locs.append('%s:%d: %s' % (self.curfile, node.lineno, text))
        return ('At', len(self.locs) - 1, stmt)

    def newidx(self, name):
        if name not in self.idxreg:
            self.idxreg[name] = self.nidx
            self.nidx += 1
        return self.idxreg[name]

    def note_draw(self, node, what):
        key = (self.curfile, node.lineno, node.col_offset, self.depth)
        if key in self.seen_draw_nodes:
            return
        self.seen_draw_nodes.add(key)
        self.draws.append((self.curfile, node.lineno, what))
        self.pending_draws += 1

    # -- recording plan (additive: nothing here influences the generated program)
    @staticmethod
    def pos_of(node):
        return [node.lineno, node.col_offset, getattr(node, 'end_lineno', None), getattr(node, 'end_col_offset', None)]

    def visit(self, node, file=None):
        k = (file or self.curfile, tuple(self.pos_of(node)))
        self.visits[k] = self.visits.get(k, 0) + 1

    def plan_add(self, kind, stmt_node, file=None, **extra):
        """One oracle-consuming atom was emitted for the statement `stmt_node` (the statement whose translation count
        the emission is compared with)."""
        e = {'kind': kind, 'file': file or self.curfile, 'pos': self.pos_of(stmt_node), 'line': stmt_node.lineno}
        e.update(extra)
        self.plan_emit.append(e)

    def plan_havoc(self, stmt_node, posattr, mode, ref):
        """Havoc of `<agent>.position` by statement `stmt_node`; `posattr` is the Attribute node `<agent>.position`."""
        if not (isinstance(posattr, ast.Attribute) and posattr.attr == 'position'):
            self.plan_add('havoc', stmt_node, target=None, mode=mode, ref=list(ref), why='target is not a plain <agent>.position')
            return
        self.plan_add('havoc', stmt_node, target=ast.unparse(posattr), mode=mode, ref=list(ref))

    def rep_any(self, s, body, idxvar=None):
        self.plan_add('repeatany', s, idxvar=idxvar)
        return self.at(s, ('RepeatAny', seq(body)))

    def final_plan(self):
        """Group the emissions by (kind, file, statement[, leaf]).  A statement translated several times (inlined helper) must
        have produced the same emission every time; otherwise the optimizer is reported as not replayable (conflict)."""
        groups, order = {}, []
        for e in self.plan_emit:
            key = (e['kind'], e['file'], tuple(e['pos']), tuple(e.get('leaf') or ()))
            if key not in groups:
                groups[key] = []
                order.append(key)
            groups[key].append(e)
        entries, conflicts = [], []
        for key in order:
            es = groups[key]
            first = es[0]
            if any(x != first for x in es[1:]):
                conflicts.append('%s:%d: %s translated with different payloads' % (first['file'], first['line'], first['kind']))
            nv = self.visits.get((first['file'], tuple(first['pos'])), 0)
            if nv != len(es):
                conflicts.append('%s:%d: statement translated %d times but %s emitted %d times' % (first['file'], first['line'], nv, first['kind'], len(es)))
            if first['kind'] == 'havoc' and first.get('target') is None:
                conflicts.append('%s:%d: %s' % (first['file'], first['line'], first.get('why')))
            entries.append(first)
        # two different kinds of statement-level instrumentation at one statement are fine (idx before, havoc after, loop around)
        return {'entries': entries, 'conflicts': conflicts, 'files': [f for _, f, _, _ in self.classes]}

    # -- expressions
    def ev(self, node, env):
        """Symbolic value of an expression (no effects emitted here except Draw bookkeeping)."""
        if isinstance(node, ast.Name):
            if node.id in env:
                return env[node.id]
            if node.id in ('np', 'copy', 'r', 'd', 'g', 'c', 'h', 'e', 'l', 'logger', 'True', 'False', 'None'):
                return SV('module', name=node.id)
            if node.id in AMBIENT_MODULES:
                self.ambient.append((self.curfile, node.lineno, 'module ' + node.id))
                return SV('module', name=node.id)
            if node.id in PURE_BUILTINS:
                return SV('builtin', name=node.id)
            self.err(node, 'unknown name `%s`' % node.id)
        if isinstance(node, ast.Constant):
            return NUM()
        if isinstance(node, ast.Attribute):
            base = self.ev(node.value, env)
            a = node.attr
            if base.kind == 'space':
                if a == 'agents':
                    return POP
                if a == 'best_agent':
                    return BEST
                if a == 'trees':
                    return TREES
                if a == 'best_tree':
                    return BESTTREE
                if a in ('n_agents', 'n_variables', 'n_dimensions', 'n_iterations', 'n_trees', 'min_depth', 'max_depth',
                         'lb', 'ub', 'n_terminals'):
                    return NUM()
                if a in ('check_limits', 'grow'):
                    return SV('spacemethod', name=a)
                self.err(node, 'unsupported space attribute `%s`' % a)
            if base.kind == 'best':
                base = AG(('Best',))
            if base.kind == 'agent':
                if a == 'position':
                    return SV('pos', ref=base.ref)
                if a == 'fit':
                    return SV('fit', ref=base.ref)
                if a in ('n_variables', 'n_dimensions', 'lb', 'ub'):
                    return NUM()
                if a == 'check_limits':
                    return SV('agentmethod', name=a, ref=base.ref)
                self.err(node, 'unsupported agent attribute `%s`' % a)
            if base.kind == 'roagent':
                if a in ('position', 'fit', 'n_variables', 'n_dimensions', 'lb', 'ub'):
                    return SV('rodata')
                self.err(node, 'unsupported attribute `%s` of a read-only agent' % a)
            if base.kind == 'self':
                m, _, _ = self.method(a)
                if m is not None:
                    return SV('selfmethod', name=a)
                return SV('hyper', name=a)
            if base.kind == 'func':
                if a == 'pointer':
                    return SV('pointer')
                self.err(node, 'unsupported function attribute `%s`' % a)
            if base.kind == 'hist':
                if a == 'dump':
                    return SV('histdump')
                self.err(node, 'unsupported history attribute')
            if base.kind == 'module':
                return SV('modattr', mod=base.name, name=a)
            if base.kind == 'modattr':
                return SV('modattr', mod=base.mod + '.' + base.name, name=a)
            if base.kind in ('tree', 'besttree'):
                if a == 'position':
                    return SV('treepos', tree=base)
                if a in ('n_nodes',):
                    return NUM()
                self.err(node, 'unsupported tree attribute `%s`' % a)
            if base.kind in ('num', 'rodata', 'pos', 'fit', 'locrow'):
                return NUM()      # e.g. x.shape, arr.T
            if base.kind in ('pop', 'shadows'):
                if a == 'sort':
                    return SV('sortmethod', of=base.kind)
                self.err(node, 'unsupported list method `%s` on the population' % a)
            self.err(node, 'attribute `%s` of %r' % (a, base))
        if isinstance(node, ast.Subscript):
            base = self.ev(node.value, env)
            if base.kind == 'pop':
                return AG(self.slot_ref(node.slice, env, node))
            if base.kind == 'shadows':
                return SV('roagent')
            if base.kind == 'trees':
                return SV('tree', ix=self.slot_ref(node.slice, env, node, tree=True))
            if base.kind == 'locpos':
                ix = node.slice
                if isinstance(ix, ast.Name) and env.get(ix.id) is not None and env[ix.id].kind == 'curidx':
                    return SV('locrow')
                self.err(node, 'local_position indexed by something else than the loop index')
            if base.kind in ('num', 'rodata', 'pos', 'locrow', 'idx', 'curidx', 'fit'):
                self.ev_num(node.slice, env)
                return NUM()
            if base.kind == 'selfcall' and isinstance(node.slice, ast.Constant):
                return base          # helper(...)[0]: the helper is inlined by the caller; its result must be numeric
            self.err(node, 'subscript of %r' % base)
        if isinstance(node, (ast.BinOp, ast.UnaryOp, ast.Compare, ast.BoolOp, ast.IfExp, ast.JoinedStr)):
            for ch in ast.iter_child_nodes(node):
                if isinstance(ch, (ast.operator, ast.unaryop, ast.cmpop, ast.boolop)):
                    continue
                self.ev_num(ch, env)
            return NUM()
        if isinstance(node, (ast.Tuple, ast.List)):
            return SV('tuple', elts=[self.ev(e, env) for e in node.elts])
        if isinstance(node, (ast.ListComp, ast.GeneratorExp)):
            # comprehension over the population reading attributes only
            env2 = dict(env)
            ncomp = len(self.comp_names)
            for gen in node.generators:
                it = self.ev(gen.iter, env2)
                self.bind_ro(gen.target, it, env2, node)
                self.comp_names.extend(n.id for n in ast.walk(gen.target) if isinstance(n, ast.Name))
                for cond in gen.ifs:
                    self.ev_num(cond, env2)
            self.ev_num(node.elt, env2)
            del self.comp_names[ncomp:]
            return NUM()
        if isinstance(node, ast.Call):
            return self.ev_call(node, env)
        if isinstance(node, ast.Lambda):
            return SV('lambda', node=node)
        if isinstance(node, ast.FormattedValue):
            self.ev_num(node.value, env)
            return NUM()
        if isinstance(node, ast.Slice):
            for ch in (node.lower, node.upper, node.step):
                if ch is not None:
                    self.ev_num(ch, env)
            return NUM()
        self.err(node, 'unsupported expression %s' % type(node).__name__)

    def bind_ro(self, target, it, env, node):
        """Loop/comprehension variable over something, read-only."""
        if it.kind in ('pop', 'shadows'):
            if not isinstance(target, ast.Name):
                self.err(node, 'unsupported comprehension target')
            env[target.id] = SV('roagent')
        elif it.kind in ('num', 'rodata', 'builtincall', 'iter'):
            if it.kind == 'iter':
                for a in it.call.args:
                    if self.ev(a, env).kind in ('pop', 'shadows', 'trees'):
                        self.err(node, 'comprehension over enumerate/zip of the population')
            for n in ast.walk(target):
                if isinstance(n, ast.Name):
                    env[n.id] = NUM()
        else:
            self.err(node, 'comprehension over %r' % it)

    def ev_num(self, node, env):
        """Expression used as numeric data: may read agents, must not be an agent/population itself."""
        v = self.ev(node, env)
        if v.kind in ('num', 'rodata', 'pos', 'fit', 'locrow', 'hyper', 'idx', 'curidx', 'tuple', 'module', 'modattr',
                      'builtincall', 'treepos', 'iter', 'tmpfit', 'builtin', 'lambda'):
            if v.kind == 'tuple':
                for e in v.elts:
                    if e.kind in ('agent', 'pop', 'best', 'shadows', 'space', 'hist'):
                        self.err(node, 'agent object inside a data tuple')
            return v
        self.err(node, 'object %r used as numeric data' % v)

    def slot_ref(self, ix, env, node, tree=False):
        if isinstance(ix, ast.UnaryOp) and isinstance(ix.op, ast.USub) and isinstance(ix.operand, ast.Constant) and ix.operand.value == 1:
            return ('Last',)
        if isinstance(ix, ast.Name):
            v = env.get(ix.id)
            if v is not None and v.kind == 'curidx':
                return ('Cur',)
            if v is not None and v.kind == 'idx':
                return ('Slot', v.reg)
            if v is not None and v.kind == 'num':
                # a numeric local used as a population index: allocate a register lazily (any in-range index)
                reg = self.newidx(ix.id)
                env[ix.id] = SV('idx', reg=reg, lazy=True)
                self.pending_choose.append(reg)
                self.pending_src.append((reg, ix.id, ix.id in self.comp_names))
                return ('Slot', reg)
        if isinstance(ix, ast.Subscript) and isinstance(ix.value, ast.Name):
            # s[0], s[1] of a pair of selected indices
            v = env.get(ix.value.id)
            if v is not None and v.kind in ('num', 'idx') and isinstance(ix.slice, ast.Constant):
                name = '%s[%r]' % (ix.value.id, ix.slice.value)
                reg = self.newidx(name)
                if name not in self.chosen:
                    self.chosen.add(name)
                    self.pending_choose.append(reg)
                    self.pending_src.append((reg, ast.unparse(ix), ix.value.id in self.comp_names))
                return ('Slot', reg)
        if isinstance(ix, ast.Constant) and isinstance(ix.value, int):
            reg = self.newidx('const%d' % ix.value)
            self.pending_choose.append(reg)
            self.pending_src.append((reg, repr(ix.value), False))
            return ('Slot', reg)
        self.err(node, 'unsupported population index')

    def ev_call(self, node, env):
        fn = self.ev(node.func, env)
        if fn.kind == 'modattr':
            full = (fn.mod, fn.name)
            if fn.mod == 'copy' and fn.name == 'deepcopy':
                if len(node.args) != 1 or node.keywords:
                    self.err(node, 'deepcopy arity')
                inner = self.ev(node.args[0], env)
                return SV('deepcopy', of=inner)
            if fn.mod == 'copy':
                self.err(node, 'copy.%s is not a deep copy' % fn.name)
            if full in ENTROPY_OK:
                self.note_draw(node, '%s.%s' % full)
                for a in list(node.args) + [k.value for k in node.keywords]:
                    self.ev_num(a, env)
                return NUM()
            if (fn.mod == 'np' or fn.mod.startswith('np.')) and (
                    any(k.arg == 'out' for k in node.keywords) or fn.name in NP_INPLACE):
                # found by the state replay: `p = a.position; np.multiply(p, 0.5, out=p)` was dropped as pure arithmetic
                self.err(node, 'np.%s writes into one of its arguments (out= / in-place function): the array may be an agent position' % fn.name)
            if fn.mod.startswith('np.random') or (fn.mod == 'np' and fn.name == 'random'):
                self.note_draw(node, '%s.%s' % full)
                for a in list(node.args) + [k.value for k in node.keywords]:
                    self.ev_num(a, env)
                return NUM()
            if fn.mod.split('.')[0] in AMBIENT_MODULES:
                self.ambient.append((self.curfile, node.lineno, '%s.%s' % full))
                return NUM()
            if fn.mod == 'np' or fn.mod.startswith('np.') or full in PURE_MODULE_FUNCS:
                if fn.name in ('asarray', 'array') and node.args:
                    pass
                for a in list(node.args) + [k.value for k in node.keywords]:
                    self.ev_num(a, env)
                return NUM()
            if fn.mod == 'h' and fn.name == 'History':
                return HIST
            if fn.mod == 'logger':
                why = logger_args_inert(node)
                if why:
                    self.err(node, 'a logging call is only skipped when building its message can neither raise nor change anything: %s' % why)
                return NUM()
            self.err(node, 'call to %s.%s is outside the whitelist' % full)
        if fn.kind == 'builtin':
            for a in list(node.args) + [k.value for k in node.keywords]:
                v = self.ev(a, env)
                if v.kind in ('pop', 'shadows', 'trees'):
                    if fn.name in ('len', 'enumerate', 'zip'):
                        continue
                    self.err(node, '%s() of the population' % fn.name)
            if fn.name in ('enumerate', 'zip', 'range'):
                return SV('iter', call=node)
            return NUM()
        if fn.kind == 'pointer':
            if len(node.args) != 1 or node.keywords:
                self.err(node, 'objective called with other than one argument')
            arg = self.ev(node.args[0], env)
            if arg.kind != 'pos':
                self.err(node, 'objective evaluated at something that is not an agent position')
            return SV('evalof', ref=arg.ref)
        if fn.kind == 'selfmethod':
            return SV('selfcall', name=fn.name, node=node)
        if fn.kind == 'spacemethod' and fn.name == 'grow':
            for a in node.args:
                self.ev_num(a, env)
            self.note_draw(node, 'space.grow')
            return SV('newtree')
        if fn.kind in ('num', 'rodata'):
            return NUM()
        self.err(node, 'unsupported call of %r' % fn)

    # -- statements
    def block(self, stmts, env, tail=False):
        """`tail`: the block is in tail position of a loop body, where `continue` (as the last statement of a branch) is
        lowered to structured control flow: the statements after an `if` run only on the paths that do not continue."""
        stmts = list(stmts)
        out = []
        for k, s in enumerate(stmts):
            last = k == len(stmts) - 1
            if tail and isinstance(s, ast.Continue):
                if not last:
                    self.err(s, 'statements after continue')
                break
            if tail and isinstance(s, ast.If):
                def has_c(b):
                    return any(isinstance(n, ast.Continue) for x in b for n in ast.walk(x))

                def ends_c(b):
                    return bool(b) and isinstance(b[-1], ast.Continue) and not has_c(b[:-1])
                if has_c(s.body) or has_c(s.orelse):
                    rest = stmts[k + 1:]
                    for b in (s.body, s.orelse):
                        if has_c(b) and not (ends_c(b) or last):
                            self.err(s, 'continue that is not the last statement of a branch of an if directly in the loop body')
                    nb = list(s.body[:-1] if ends_c(s.body) else list(s.body) + rest)
                    no = list(s.orelse[:-1] if ends_c(s.orelse) else list(s.orelse) + rest)
                    new = ast.If(test=s.test, body=nb or [ast.Pass()], orelse=no)
                    ast.copy_location(new, s)
                    ast.fix_missing_locations(new)
                    out.extend(self.if_stmt(new, env, tail=True))
                    return out
                if last:
                    out.extend(self.if_stmt(s, env, tail=True))
                    continue
            out.extend(self.stmt(s, env))
        return out

    def flush(self, node, produced, file=None):
        """Prefix pending ChooseIdx / Draw markers produced while evaluating a statement's expressions."""
        pre = []
        for reg in self.pending_choose:
            pre.append(('ChooseIdx', reg))
        if self.pending_choose:
            ok = [r for r, _, _ in self.pending_src] == list(self.pending_choose)
            self.plan_add('chooseidx', node, file=file, regs=list(self.pending_choose),
                          exprs=[[t, bool(c)] for _, t, c in self.pending_src] if ok else None)
        self.pending_src = []
        self.pending_choose = []
        for _ in range(self.pending_draws):
            pre.append(('Draw',))
        self.pending_draws = 0
        self.seen_draw_nodes = set()
        res = pre + produced
        if not res:
            return []
        return [self.at(node, seq(res))]

    def stmt(self, s, env):
        self.pending_choose = getattr(self, 'pending_choose', [])
        self.pending_draws = getattr(self, 'pending_draws', 0)
        if not isinstance(s, ast.If):
            self.visit(s)
        if isinstance(s, ast.Expr):
            if isinstance(s.value, ast.Constant):
                return []
            if isinstance(s.value, ast.Call):
                return self.flush(s, self.call_stmt(s.value, env, s))
            self.err(s, 'unsupported expression statement')
        if isinstance(s, ast.Pass):
            return []
        if isinstance(s, ast.Assign):
            if len(s.targets) != 1:
                # a = b = expr: numeric only
                v = self.ev_num(s.value, env)
                for t in s.targets:
                    self.assign_num(t, env, s)
                return self.flush(s, [])
            return self.flush(s, self.assign(s.targets[0], s.value, env, s))
        if isinstance(s, ast.AugAssign):
            return self.flush(s, self.augassign(s, env))
        if isinstance(s, ast.If):
            return self.if_stmt(s, env)
        if isinstance(s, ast.For):
            return self.for_stmt(s, env)
        if isinstance(s, ast.While):
            return self.while_stmt(s, env)
        if isinstance(s, ast.Return):
            self.err(s, 'return in an unexpected place')
        if isinstance(s, (ast.Global, ast.Nonlocal)):
            self.ambient.append((self.curfile, s.lineno, 'global/nonlocal'))
            return []
        self.err(s, 'unsupported statement %s' % type(s).__name__)

    def call_stmt(self, call, env, node):
        # growth of a purely numeric local list: `forces.append(<arithmetic>)` -- no effect on agents
        if isinstance(call.func, ast.Attribute) and call.func.attr in ('append', 'extend') and isinstance(call.func.value, ast.Name) \
                and env.get(call.func.value.id) is not None and env[call.func.value.id].kind == 'num' and not call.keywords:
            for a in call.args:
                self.ev_num(a, env)
            return []
        fn = self.ev(call.func, env)
        if fn.kind == 'modattr' and fn.mod == 'logger':
            why = logger_args_inert(call)
            if why:
                self.err(call, 'a logging statement is only skipped when building its message can neither raise nor change anything: %s' % why)
            for a in call.args:
                self.ev_num(a, env)
            return []
        if fn.kind == 'agentmethod' and fn.name == 'check_limits':
            if call.args or call.keywords:
                self.err(node, 'check_limits takes no argument')
            return [('Clip', fn.ref)]
        if fn.kind == 'spacemethod' and fn.name == 'check_limits':
            if call.args or call.keywords:
                self.err(node, 'check_limits takes no argument')
            return [('ClipAll',)]
        if fn.kind == 'sortmethod':
            if fn.of != 'pop':
                self.err(node, 'sorting something else than the population')
            ok = (not call.args and len(call.keywords) == 1 and call.keywords[0].arg == 'key'
                  and isinstance(call.keywords[0].value, ast.Lambda))
            if ok:
                lam = call.keywords[0].value
                ok = (len(lam.args.args) == 1 and isinstance(lam.body, ast.Attribute) and lam.body.attr == 'fit'
                      and isinstance(lam.body.value, ast.Name) and lam.body.value.id == lam.args.args[0].arg)
            if not ok and not call.args and len(call.keywords) == 1 and call.keywords[0].arg == 'key' \
                    and isinstance(call.keywords[0].value, ast.Call):
                # key=operator.attrgetter('fit') / key=attrgetter('fit') with the name imported from `operator` in this file
                kc = call.keywords[0].value
                tree_here, _ = parse(self.repo, self.curfile)
                names = set()
                for n in tree_here.body:
                    if isinstance(n, ast.ImportFrom) and n.module == 'operator':
                        names |= {(a.asname or a.name) for a in n.names if a.name == 'attrgetter'}
                    if isinstance(n, ast.Import):
                        names |= {(a.asname or a.name) + '.attrgetter' for a in n.names if a.name == 'operator'}
                rebound = any(isinstance(n, (ast.FunctionDef, ast.ClassDef)) and n.name in ('attrgetter', 'operator') for n in tree_here.body) or \
                    any(isinstance(n, ast.Assign) and any(isinstance(t, ast.Name) and t.id in ('attrgetter', 'operator') for t in n.targets) for n in ast.walk(tree_here))
                ok = (ast.unparse(kc.func) in names and not rebound and len(kc.args) == 1 and not kc.keywords
                      and isinstance(kc.args[0], ast.Constant) and kc.args[0].value == 'fit')
            if not ok:
                self.err(node, 'population sort must be .sort(key=lambda x: x.fit)')
            return [('SortByFit',)]
        if fn.kind == 'hook':
            args = [self.ev(a, env) for a in call.args]
            if [a.kind for a in args] != ['self', 'space', 'func'] or call.keywords:
                self.err(node, 'hook must be called with (self, space, function)')
            self.hook_calls += 1
            return [('Hook',)]
        if fn.kind == 'histdump':
            if call.args:
                self.err(node, 'history.dump takes keyword arguments')
            keys = []
            for kw in call.keywords:
                v = self.ev(kw.value, env)
                want = {'agents': 'pop', 'best_agent': 'best', 'local': 'locpos', 'best_tree': 'besttree'}.get(kw.arg)
                if want is None or v.kind != want:
                    self.err(node, 'history.dump(%s=%r) is not the live object of that name' % (kw.arg, v))
                keys.append(kw.arg)
            if self.dump_keys is not None and self.dump_keys != keys:
                self.err(node, 'two different dump sites')
            self.dump_keys = keys
            return [('Dump',)]
        if fn.kind == 'selfmethod':
            stmts, ret = self.inline(fn.name, call, env, node)
            return stmts
        if fn.kind == 'modattr':
            self.ev_call(call, env)
            return []
        self.err(node, 'unsupported call statement')

    def inline(self, name, call, env, node):
        """Inline self.<name>(args): returns (IR statements, symbolic return value)."""
        m, file, src = self.method(name)
        if m is None:
            self.err(node, 'unknown method %s' % name)
        if self.depth > 6:
            self.err(node, 'inlining too deep (recursion?)')
        params = [a.arg for a in m.args.args]
        if params[0] != 'self' or m.args.vararg or m.args.kwarg or m.args.kwonlyargs:
            self.err(node, 'unsupported signature of %s' % name)
        env2 = {'self': SELF}
        args = list(call.args)
        if call.keywords:
            self.err(node, 'keyword arguments in a call to self.%s' % name)
        if len(args) > len(params) - 1:
            self.err(node, 'too many arguments for %s' % name)
        # flush index registers needed by the arguments at the call site
        for p, a in zip(params[1:], args):
            env2[p] = self.ev(a, env)
        ndef = len(m.args.defaults)
        for i, p in enumerate(params[1 + len(args):]):
            env2[p] = NUM()
        save = (self.curfile, self.cursrc)
        callerfile = self.curfile
        self.curfile, self.cursrc = file, src
        self.depth += 1
        body = [b for b in m.body]
        ret = NUM()
        out = []
        pre = self.flush(node, [], file=callerfile)       # ChooseIdx for argument indices happen before the callee
        save2 = (self.curfile, self.cursrc)
        out.extend(pre)
        last_ret = None
        stmts = body
        if stmts and isinstance(stmts[-1], ast.Return):
            last_ret = stmts[-1]
            stmts = stmts[:-1]
        # early returns `if c: A; return x` followed by the rest of the body: lowered to if/else on a result variable
        lowered = None
        if any(isinstance(n, ast.Return) for st in stmts for n in ast.walk(st)):
            full = list(body)
            if last_ret is None and full:
                # a procedure with guard-clause returns: falling off the end is `return None`
                imp = ast.Return(value=None)
                ast.copy_location(imp, full[-1])
                ast.fix_missing_locations(imp)
                full = full + [imp]
            lowered = lower_returns(full)
        if lowered is not None:
            for st in lowered:
                out.extend(self.stmt(st, env2))
            ret = env2.get('__ret') or NUM()
            self.depth -= 1
            self.curfile, self.cursrc = save
            return out, ret
        # returns are only supported as the last statement, or as `if c: return a` chains on numeric values
        early = None
        for st in stmts:
            if any(isinstance(n, ast.Return) for n in ast.walk(st)):
                # numeric helper with early returns: must not touch agents
                out.extend(self.numeric_only(st, env2))
                early = st
            else:
                got = self.stmt(st, env2)
                if early is not None and got:
                    # `if c: return` followed by statements with effects: the return GUARDS them; dropping it (as numeric_only does)
                    # would make them unconditional.  Found by the state replay on `if a.fit >= agents[-1].fit: return; agents[-1] = ...`.
                    self.err(st, 'statement with effects after the early return of line %d, which could not be lowered to if/else'
                             % early.lineno)
                out.extend(got)
        if last_ret is not None and last_ret.value is not None:
            ret = self.ev(last_ret.value, env2)
            self.visit(last_ret)
            out.extend(self.flush(last_ret, []))
        self.depth -= 1
        self.curfile, self.cursrc = save
        return out, ret

    def numeric_only(self, st, env):
        """A statement containing an early return: allowed only if it neither writes nor calls anything on agents."""
        for n in ast.walk(st):
            if isinstance(n, (ast.Assign, ast.AugAssign)):
                tg = n.targets if isinstance(n, ast.Assign) else [n.target]
                for t in tg:
                    if not isinstance(t, ast.Name):
                        self.err(n, 'early-return helper writes to a non-local')
            if isinstance(n, ast.Call):
                v = self.ev(n, env)
                if v.kind not in ('num',):
                    self.err(n, 'early-return helper performs an effectful call')
            if isinstance(n, ast.Return) and n.value is not None:
                self.ev_num(n.value, env)
        return []

    def assign_num(self, target, env, node):
        if isinstance(target, ast.Name):
            env[target.id] = NUM()
            return
        if isinstance(target, ast.Subscript):
            base = self.ev(target.value, env)
            if base.kind in ('num',):
                self.ev_num(target.slice, env)
                return
            self.err(node, 'store into %r' % base)
        if isinstance(target, (ast.Tuple, ast.List)):
            for e in target.elts:
                self.assign_num(e, env, node)
            return
        self.err(node, 'unsupported assignment target')

    def assign(self, target, value, env, node):
        # ---- tuple swap   a.position, b.position = b.position, a.position
        if isinstance(target, ast.Tuple) and isinstance(value, ast.Tuple) and len(target.elts) == 2 and len(value.elts) == 2 \
                and not any(isinstance(e, ast.Name) for e in target.elts):
            t0, t1 = (self.ev(e, env) for e in target.elts)
            v0, v1 = (self.ev(e, env) for e in value.elts)
            if t0.kind in ('pos', 'fit') and t1.kind == t0.kind:
                if v0.kind == t0.kind and v1.kind == t0.kind and v0.ref == t1.ref and v1.ref == t0.ref and t0.ref != t1.ref:
                    return [('SwapPos' if t0.kind == 'pos' else 'SwapFit', t0.ref, t1.ref)]
                self.err(node, 'tuple assignment to agent attributes that is not a swap')
            if t0.kind == 'tree' and t1.kind == 'tree':
                # space.trees[a], space.trees[b] = self._cross(...)
                if isinstance(value, ast.Tuple):
                    self.err(node, 'unsupported tree tuple assignment')
        if isinstance(target, ast.Tuple) and not isinstance(value, ast.Tuple):
            tv = [self.ev(e, env) if not isinstance(e, ast.Name) else None for e in target.elts]
            if any(t is not None and t.kind == 'tree' for t in tv):
                v = self.ev(value, env)
                if v.kind == 'selfcall' and v.name == '_cross':
                    for a in v.node.args:
                        av = self.ev(a, env)
                        if av.kind not in ('tree', 'num', 'idx'):
                            self.err(node, 'agent passed to _cross')
                    if not all(t is not None and t.kind == 'tree' for t in tv) or len(tv) != 2:
                        self.err(node, 'unsupported crossover assignment')
                    self.note_draw(v.node, '_cross')
                    self.plan_add('tree', node, step='cross')
                    return [('TreeCross', tv[0].ix, tv[1].ix)]
                self.err(node, 'unsupported assignment to trees')
        if isinstance(target, (ast.Tuple, ast.List)):
            v = self.ev(value, env)
            if v.kind == 'selfcall':
                stmts, ret = self.inline(v.name, v.node, env, node)
                if ret.kind == 'tuple' and len(ret.elts) == len(target.elts):
                    for t, rv in zip(target.elts, ret.elts):
                        if isinstance(t, ast.Name):
                            env[t.id] = rv if rv.kind in ('agent', 'shadows', 'idx') else NUM()
                        else:
                            self.assign_num(t, env, node)
                else:
                    self.assign_num(target, env, node)
                return stmts
            self.ev_num(value, env)
            self.assign_num(target, env, node)
            return []
        # ---- single target
        if isinstance(target, ast.Name):
            v = self.ev(value, env)
            name = target.id
            if v.kind == 'deepcopy':
                o = v.of
                if o.kind == 'agent' or o.kind == 'best':
                    ref = o.ref if o.kind == 'agent' else ('Best',)
                    if name == 'best_agent' and env.get('best_agent') is not None and env['best_agent'].kind == 'best':
                        # BA: `best_agent = copy.deepcopy(agent)` rebinds the *local* name; the space's best agent is untouched
                        env[name] = SV('roagent')
                        return []
                    if o.kind == 'best':
                        self.err(node, 'deep copy of the best agent used as an agent: space.best_agent carries the default Agent bounds '
                                       '[0, 1], not the bounds of its space, so check_limits() of the copy clips to the wrong box')
                    env[name] = AG(('Tr',))
                    return [('NewTrial', ref)]
                if o.kind == 'pop':
                    env[name] = SHADOWS
                    return [('ShadowAll',)]
                if o.kind in ('pos', 'fit', 'num', 'rodata', 'locrow', 'treepos'):
                    env[name] = NUM()
                    return []
                self.err(node, 'deepcopy of %r' % o)
            if v.kind == 'evalof':
                env[name] = SV('tmpfit', ref=v.ref)
                return [('EvalTmp', v.ref)]
            if v.kind == 'selfcall':
                stmts, ret = self.inline(v.name, v.node, env, node)
                if ret.kind in ('agent', 'shadows'):
                    env[name] = ret
                elif ret.kind in ('pos', 'fit', 'pop', 'best', 'tree', 'trees'):
                    self.err(node, 'helper returns an alias of %r' % ret)
                else:
                    env[name] = NUM()
                return stmts
            if v.kind in ('hist',):
                env[name] = HIST
                return []
            if v.kind in ('pos', 'locrow'):
                # a local alias of a position array, e.g. x = agent.position : allowed for reading only
                env[name] = SV('rodata')
                return []
            if v.kind in ('agent', 'best', 'pop', 'shadows', 'space', 'trees', 'tree', 'besttree'):
                self.err(node, 'local alias `%s` of %r' % (name, v))
            if v.kind == 'newtree':
                env[name] = SV('newtree')
                return []
            self.ev_num(value, env)
            env[name] = NUM()
            return []
        if isinstance(target, ast.Attribute):
            tv = self.ev(target, env)
            if tv.kind == 'pos':
                return self.assign_pos(tv.ref, value, env, node, target)
            if tv.kind == 'fit':
                v = self.ev(value, env)
                if v.kind == 'evalof':
                    if v.ref != tv.ref:
                        self.err(node, 'fitness of one agent set from the objective at another agent')
                    return [('Eval', tv.ref)]
                if v.kind == 'deepcopy' and v.of.kind == 'fit':
                    return [('CopyFit', tv.ref, v.of.ref)]
                if v.kind == 'fit':
                    return [('CopyFit', tv.ref, v.ref)]
                if v.kind == 'tmpfit':
                    if v.ref != tv.ref:
                        self.err(node, 'fitness temp of another agent')
                    return [('SetFitTmp', tv.ref)]
                self.err(node, 'fitness assigned from %r' % v)
            if tv.kind == 'hyper':
                self.ev_num(value, env)
                self.hyper_writes.append({'name': tv.name, 'file': self.curfile, 'line': node.lineno,
                                          'expr': ast.get_source_segment(self.cursrc, value), 'op': '='})
                return [('SetHyper', tv.name)]
            if tv.kind == 'besttree':
                v = self.ev(value, env)
                if v.kind == 'deepcopy' and v.of.kind == 'tree':
                    return [('BestTreeCopy',)]
                self.err(node, 'best_tree assigned from %r (not a deep copy of a population tree)' % v)
            self.err(node, 'assignment to attribute %r' % tv)
        if isinstance(target, ast.Subscript):
            base = self.ev(target.value, env)
            if base.kind == 'pop':
                dref = self.slot_ref(target.slice, env, node)
                v = self.ev(value, env)
                if v.kind == 'deepcopy' and v.of.kind in ('agent', 'best'):
                    if v.of.kind == 'best':
                        self.err(node, 'population slot assigned a deep copy of the best agent: space.best_agent carries the default Agent '
                                       'bounds [0, 1], not the bounds of its space, so check_limits() of the copy clips to the wrong box')
                    sref = v.of.ref if v.of.kind == 'agent' else ('Best',)
                    return [('Store', dref, sref)]
                self.err(node, 'population slot assigned from %r (not a deep copy of an agent)' % v)
            if base.kind == 'trees':
                tref = self.slot_ref(target.slice, env, node, tree=True)
                v = self.ev(value, env)
                if v.kind == 'deepcopy' and v.of.kind == 'tree':
                    self.plan_add('tree', node, step='copy')
                    return [('TreeCopy', tref, v.of.ix)]
                if v.kind == 'selfcall' and v.name == '_mutate':
                    for a in v.node.args:
                        av = self.ev(a, env)
                        if av.kind not in ('tree', 'num', 'idx', 'space'):
                            self.err(node, 'agent passed to _mutate')
                    self.note_draw(v.node, '_mutate')
                    self.plan_add('tree', node, step='mutate')
                    return [('TreeSet', tref, 'mutate')]
                if v.kind == 'newtree':
                    self.plan_add('tree', node, step='grow')
                    return [('TreeSet', tref, 'grow')]
                self.err(node, 'tree slot assigned from %r' % v)
            if base.kind == 'pos':
                # agent.position[j] = expr : in-place row write
                self.ev_num(target.slice, env)
                v = self.ev_num(value, env)
                self.plan_havoc(node, target.value, 'InPlace', base.ref)
                return [('Havoc', 'InPlace', base.ref)]
            if base.kind == 'locpos':
                ix = target.slice
                if not (isinstance(ix, ast.Name) and env.get(ix.id) is not None and env[ix.id].kind == 'curidx'):
                    self.err(node, 'local_position written at another index than the loop index')
                v = self.ev(value, env)
                if v.kind == 'deepcopy' and v.of.kind == 'pos' and v.of.ref == ('Cur',):
                    return [('LocFromPos',)]
                self.err(node, 'local_position[i] assigned from %r' % v)
            if base.kind == 'num':
                self.ev_num(target.slice, env)
                v = self.ev(value, env)
                if v.kind == 'selfcall':
                    stmts, ret = self.inline(v.name, v.node, env, node)
                    if ret.kind not in ('num', 'fit', 'rodata', 'hyper', 'tmpfit'):
                        self.err(node, 'helper result %r stored into numeric data' % ret)
                    return stmts
                self.ev_num(value, env)
                return []
            self.err(node, 'store into subscript of %r' % base)
        self.err(node, 'unsupported assignment target')

    def assign_pos(self, ref, value, env, node, target=None):
        v = self.ev(value, env)
        if v.kind == 'deepcopy':
            o = v.of
            if o.kind == 'pos':
                return [('CopyPos', ref, o.ref)]
            if o.kind == 'locrow':
                if ref != ('Best',):
                    self.err(node, 'only the best agent may copy a local position')
                return [('BestPosFromLoc',)]
            if o.kind == 'treepos':
                if ref != ('Cur',) or o.tree.kind != 'tree' or o.tree.ix != ('Cur',):
                    self.err(node, 'position from another tree than the agent\'s own')
                return [('PosFromTree', ref)]
            if o.kind in ('num', 'rodata'):
                self.plan_havoc(node, target, 'Fresh', ref)
                return [('Havoc', 'Fresh', ref)]
            self.err(node, 'position := deepcopy(%r)' % o)
        if v.kind in ('pos', 'locrow', 'rodata', 'treepos'):
            self.err(node, 'position assigned an ALIAS of another array (%r): storage would be shared' % v)
        if v.kind == 'selfcall':
            stmts, ret = self.inline(v.name, v.node, env, node)
            if ret.kind in ('pos', 'locrow', 'rodata', 'treepos', 'agent'):
                self.err(node, 'helper %s returns an alias (%r) that is stored as a position' % (v.name, ret))
            self.plan_havoc(node, target, 'Fresh', ref)
            return stmts + [('Havoc', 'Fresh', ref)]
        if v.kind == 'num':
            # BinOp / np call result: must be a *new* array: a bare Name bound to rodata was rejected above
            if isinstance(value, (ast.BinOp, ast.UnaryOp, ast.Call)):
                if isinstance(value, ast.Call):
                    f = self.ev(value.func, env)
                    if f.kind == 'modattr' and f.mod == 'np' and f.name in ('asarray', 'asanyarray', 'ravel', 'reshape', 'squeeze', 'transpose', 'atleast_2d'):
                        self.err(node, 'np.%s may return a view/alias of its argument' % f.name)
                self.plan_havoc(node, target, 'Fresh', ref)
                return [('Havoc', 'Fresh', ref)]
            if isinstance(value, ast.Name):
                # a numeric local computed earlier by arithmetic
                self.plan_havoc(node, target, 'Fresh', ref)
                return [('Havoc', 'Fresh', ref)]
        self.err(node, 'position assigned from %r' % v)

    def augassign(self, s, env):
        tv = self.ev(s.target, env) if not isinstance(s.target, ast.Name) else None
        if isinstance(s.target, ast.Name):
            cur = env.get(s.target.id)
            if cur is not None and cur.kind not in ('num',):
                self.err(s, 'augmented assignment to %r' % cur)
            v = self.ev(s.value, env)
            if v.kind == 'selfcall':
                stmts, ret = self.inline(v.name, v.node, env, s)
                return stmts
            self.ev_num(s.value, env)
            env[s.target.id] = NUM()
            return []
        if tv.kind == 'pos':
            self.ev_num(s.value, env)
            self.plan_havoc(s, s.target, 'InPlace', tv.ref)
            return [('Havoc', 'InPlace', tv.ref)]
        if tv.kind == 'hyper':
            self.ev_num(s.value, env)
            self.hyper_writes.append({'name': tv.name, 'file': self.curfile, 'line': s.lineno,
                                      'expr': ast.get_source_segment(self.cursrc, s.value),
                                      'op': type(s.op).__name__})
            return [('SetHyper', tv.name)]
        if tv.kind == 'num':
            self.ev_num(s.value, env)
            return []
        if tv.kind == 'fit':
            self.err(s, 'augmented assignment to a fitness')
        self.err(s, 'augmented assignment to %r' % tv)

    # -- conditions
    def cond(self, node, env):
        if isinstance(node, ast.BoolOp):
            parts = [self.cond(v, env) for v in node.values]
            op = 'CAnd' if isinstance(node.op, ast.And) else 'COr'
            c = parts[0]
            for p in parts[1:]:
                c = (op, c, p)
            return c
        if isinstance(node, ast.UnaryOp) and isinstance(node.op, ast.Not):
            return ('CNot', self.cond(node.operand, env))
        if isinstance(node, ast.Compare) and len(node.ops) == 1:
            a = self.ev(node.left, env)
            b = self.ev(node.comparators[0], env)
            op = node.ops[0]

            def side(v):
                if v.kind == 'fit':
                    return ('F', v.ref)
                if v.kind == 'tmpfit':
                    return ('T', v.ref)
                return None
            sa, sb = side(a), side(b)
            if sa and sb:
                def lt(x, y):
                    if x[0] == 'F' and y[0] == 'F':
                        return ('FitLt', x[1], y[1])
                    if x[0] == 'T' and y[0] == 'F':
                        return ('TmpLt', y[1])
                    return None
                c = None
                if isinstance(op, ast.Lt):
                    c = lt(sa, sb)
                elif isinstance(op, ast.Gt):
                    c = lt(sb, sa)
                elif isinstance(op, (ast.GtE, ast.LtE)):
                    # `a >= b` is NOT `not (a < b)` when a fitness is NaN (both comparisons are False): the IR's comparisons are
                    # on non-NaN keys, so only `<`, `>` and `not (.. < ..)` are translated; the non-strict forms are refused
                    if lt(sa, sb) is not None or lt(sb, sa) is not None:
                        self.err(node, 'non-strict comparison of fitnesses (%s): differs from the negated strict comparison for NaN '
                                       'and accepts ties; write the strict test' % ast.unparse(node))
                if c is not None:
                    return c
        self.ev_num(node, env)
        self.cond_leaves.append(node)
        return ('Opaque',)

    def if_stmt(self, s, env, tail=False):
        self.visit(s)
        # hook idiom
        t = s.test
        if isinstance(t, ast.Name) and env.get(t.id) is not None and env[t.id].kind == 'hook':
            if s.orelse:
                self.err(s, 'hook guard with else')
            return self.block(s.body, env)
        self.cond_leaves = []
        c = self.cond(t, env)
        leaves = self.cond_leaves
        pre = self.flush(s, [])
        env1, env2 = dict(env), dict(env)
        b1 = self.block(s.body, env1, tail)
        b2 = self.block(s.orelse, env2, tail)
        # merge environments conservatively: names must agree in kind
        for k in set(env1) | set(env2):
            a, b = env1.get(k), env2.get(k)
            if a is None or b is None:
                env[k] = a or b
            elif a.kind == b.kind:
                env[k] = a
            else:
                env[k] = NUM() if {a.kind, b.kind} <= {'num', 'idx', 'rodata', 'tmpfit'} else a
        if not b1 and not b2 and c == ('Opaque',):
            return pre
        for leaf in leaves:       # one ABool per Opaque leaf, in Python's short-circuit order (norm_if)
            self.plan_add('opaque', s, leaf=self.pos_of(leaf), text=' '.join(ast.unparse(leaf).split())[:80])
        return pre + [self.at(s, ('If', c, seq(b1), seq(b2)))]

    def for_stmt(self, s, env):
        if s.orelse:
            self.err(s, 'for/else')
        it = self.ev(s.iter, env)
        tgt = s.target
        env2 = dict(env)
        kind = None
        if it.kind == 'iter':
            call = it.call
            fname = call.func.id
            if fname == 'range':
                args = call.args
                for a in args:
                    self.ev_num(a, env)
                pre = self.flush(s, [])
                # the main loop?
                if (len(args) == 1 and isinstance(args[0], ast.Attribute) and args[0].attr == 'n_iterations'
                        and self.ev(args[0].value, env).kind == 'space' and self.depth == 0):
                    if not isinstance(tgt, ast.Name):
                        self.err(s, 'main loop target')
                    env2[tgt.id] = NUM()
                    body = self.block(s.body, env2, True)
                    env.update({k: v for k, v in env2.items() if k in env})
                    return pre + [self.at(s, ('Repeat', seq(body)))]
                if not isinstance(tgt, ast.Name):
                    self.err(s, 'range loop target')
                # a loop variable used as a population index stands for any in-range index, chosen once per iteration
                idxvar = None
                if used_as_index(s.body, tgt.id):
                    reg = self.newidx(tgt.id)
                    env2[tgt.id] = SV('idx', reg=reg)
                    body = [('ChooseIdx', reg)] + self.block(s.body, env2, True)
                    idxvar = tgt.id
                else:
                    env2[tgt.id] = NUM()
                    body = self.block(s.body, env2, True)
                if not body:
                    return pre
                return pre + [self.rep_any(s, body, idxvar)]
            if fname == 'enumerate':
                inner = self.ev(call.args[0], env)
                if not (isinstance(tgt, ast.Tuple) and len(tgt.elts) == 2 and isinstance(tgt.elts[0], ast.Name)):
                    self.err(s, 'enumerate target')
                ixname = tgt.elts[0].id
                if inner.kind == 'iter' and inner.call.func.id == 'zip':
                    kinds = [self.ev(a, env) for a in inner.call.args]
                    if all(k.kind in ('num', 'rodata') for k in kinds):
                        for n in ast.walk(tgt):
                            if isinstance(n, ast.Name):
                                env2[n.id] = NUM()
                        body = self.block(s.body, env2, True)
                        pre = self.flush(s, [])
                        return pre + ([self.rep_any(s, body)] if body else [])
                    return self.slot_loop(s, env, kinds, tgt.elts[1], ixname)
                if inner.kind in ('pop', 'shadows'):
                    return self.slot_loop(s, env, [inner], tgt.elts[1], ixname)
                if inner.kind in ('num', 'rodata', 'pos'):
                    for n in ast.walk(tgt):
                        if isinstance(n, ast.Name):
                            env2[n.id] = NUM()
                    body = self.block(s.body, env2, True)
                    pre = self.flush(s, [])
                    return pre + ([self.rep_any(s, body)] if body else [])
                self.err(s, 'enumerate over %r' % inner)
            if fname == 'zip':
                kinds = [self.ev(a, env) for a in call.args]
                if all(k.kind in ('num', 'rodata') for k in kinds):
                    for n in ast.walk(tgt):
                        if isinstance(n, ast.Name):
                            env2[n.id] = NUM()
                    body = self.block(s.body, env2, True)
                    pre = self.flush(s, [])
                    return pre + ([self.rep_any(s, body)] if body else [])
                return self.slot_loop(s, env, kinds, tgt, None)
        if it.kind in ('pop', 'shadows'):
            return self.slot_loop(s, env, [it], tgt, None)
        if it.kind in ('num', 'rodata', 'modattr'):
            # e.g. for s in selected / for s in g.pairwise(selected)
            for n in ast.walk(tgt):
                if isinstance(n, ast.Name):
                    env2[n.id] = NUM()
            self.chosen = set()
            body = self.block(s.body, env2, True)
            pre = self.flush(s, [])
            regs = [v.reg for k, v in env2.items() if v is not None and v.kind == 'idx' and getattr(v, 'lazy', False)
                    and (env.get(k) is None or env[k].kind != 'idx')]
            return pre + ([self.rep_any(s, body)] if body else [])
        self.err(s, 'loop over %r' % it)

    def slot_loop(self, s, env, kinds, tgt, ixname):
        """for agent in agents / for agent, new in zip(agents, new_agents) / for tree, agent in zip(trees, agents)."""
        names = tgt.elts if isinstance(tgt, ast.Tuple) else [tgt]
        if len(names) != len(kinds) or not all(isinstance(n, ast.Name) for n in names):
            self.err(s, 'unsupported loop target over the population')
        env2 = dict(env)
        nested = env.get('__in_slots__')
        for n, k in zip(names, kinds):
            if k.kind == 'pop':
                env2[n.id] = SV('roagent') if nested else AG(('Cur',))
            elif k.kind == 'shadows':
                env2[n.id] = SV('roagent') if nested else AG(('Sh',))
            elif k.kind == 'trees':
                env2[n.id] = SV('tree', ix=('Cur',))
            elif k.kind in ('num', 'rodata'):
                env2[n.id] = NUM()
            else:
                self.err(s, 'zip over %r' % k)
        if ixname:
            env2[ixname] = NUM() if nested else SV('curidx')
        pre = self.flush(s, [])
        if nested:
            # inner loop over the population inside a slot loop: read-only sweep, any number of times
            body = self.block(s.body, env2, True)
            return pre + ([self.rep_any(s, body)] if body else [])
        env2['__in_slots__'] = SV('flag')
        body = self.block(s.body, env2, True)
        # numeric locals assigned in the body stay visible
        for k, v in env2.items():
            if k in env and env[k].kind == 'num':
                env[k] = NUM()
        if not body:
            return pre
        return pre + [self.at(s, ('ForSlots', seq(body)))]

    def while_stmt(self, s, env):
        """Only ABC's onlooker loop:  k = 0; while k < len(agents): for i, agent in enumerate(agents): ... if ..: k += 1; ..."""
        t = s.test
        ok = (isinstance(t, ast.Compare) and len(t.ops) == 1 and isinstance(t.ops[0], ast.Lt)
              and isinstance(t.left, ast.Name) and isinstance(t.comparators[0], ast.Call)
              and isinstance(t.comparators[0].func, ast.Name) and t.comparators[0].func.id == 'len'
              and self.ev(t.comparators[0].args[0], env).kind == 'pop' and not s.orelse
              and len(s.body) == 1 and isinstance(s.body[0], ast.For))
        if not ok:
            self.err(s, 'unsupported while loop (only the onlooker selection loop is recognised)')
        k = t.left.id
        loop = s.body[0]
        # find the unique  if <opaque>: k += 1; rest   inside the for body
        ifs = [b for b in loop.body if isinstance(b, ast.If)]
        if len(ifs) != 1 or ifs[0].orelse:
            self.err(s, 'onlooker loop: expected exactly one selection test')
        sel = ifs[0]
        first = sel.body[0]
        if not (isinstance(first, ast.AugAssign) and isinstance(first.target, ast.Name) and first.target.id == k
                and isinstance(first.op, ast.Add) and isinstance(first.value, ast.Constant) and first.value.value == 1):
            self.err(sel, 'onlooker loop: the selected branch must start with `%s += 1`' % k)
        for n in ast.walk(loop):
            if n is not first and isinstance(n, (ast.Assign, ast.AugAssign)):
                tg = n.targets if isinstance(n, ast.Assign) else [n.target]
                if any(isinstance(x, ast.Name) and x.id == k for x in tg):
                    self.err(n, 'onlooker counter written elsewhere')
        # translate the for loop with the increment removed
        new_if = ast.If(test=sel.test, body=sel.body[1:], orelse=[])
        ast.copy_location(new_if, sel)
        new_loop = ast.For(target=loop.target, iter=loop.iter, body=[new_if if b is sel else b for b in loop.body], orelse=[])
        ast.copy_location(new_loop, loop)
        ast.fix_missing_locations(new_loop)
        self.visit(new_loop)
        inner = self.for_stmt(new_loop, env)
        # inner is [At(ForSlots body)] possibly preceded by flushes
        if not inner or inner[-1][0] != 'At' or inner[-1][2][0] != 'ForSlots':
            self.err(s, 'onlooker loop: body is not a population sweep')
        body = inner[-1][2][1]
        self.plan_add('onlooker', s)
        return inner[:-1] + [self.at(s, ('Onlooker', body))]

    # -- entry
    def translate(self):
        run, file, src = self.method('run')
        if run is None:
            self.err(None, 'run() not found')
        params = [a.arg for a in run.args.args]
        if params != ['self', 'space', 'function', 'store_best_only', 'pre_evaluation_hook']:
            raise TranslationError(file, run, 'unexpected signature of run: %s' % params)
        env = {'self': SELF, 'space': SPACE, 'function': FUNC, 'store_best_only': NUM(), 'pre_evaluation_hook': HOOK}
        self.curfile, self.cursrc = file, src
        body = list(run.body)
        if not (body and isinstance(body[-1], ast.Return) and isinstance(body[-1].value, ast.Name)):
            raise TranslationError(file, run, 'run must end with `return history`')
        last = body[-1]
        body = body[:-1]
        # locals bound to arrays of per-agent data (local_position is the only one dumped)
        out = []
        for st in body:
            if isinstance(st, ast.Assign) and len(st.targets) == 1 and isinstance(st.targets[0], ast.Name) \
                    and st.targets[0].id == 'local_position':
                self.ev_num(st.value, env)
                env['local_position'] = LOCPOS
                self.visit(st)
                out.extend(self.flush(st, []))
                continue
            out.extend(self.stmt(st, env))
        if env.get(last.value.id) is None or env[last.value.id].kind != 'hist':
            raise TranslationError(file, last, 'run does not return the history')
        return norm_if(seq(out))


def norm_if(s):
    """Python's short-circuit `and` / `or` / `not` in a test are control flow: `if c1 or c2: A else: B` evaluates c2 only when c1 is false,
    i.e. it IS `if c1: A else: (if c2: A else: B)`.  Writing it that way keeps the order in which numeric tests consume draws and lets
    the analyses see which fitness comparison guards a write."""
    k = s[0]
    if k == 'At':
        return ('At', s[1], norm_if(s[2]))
    if k == 'Seq':
        return ('Seq', norm_if(s[1]), norm_if(s[2]))
    if k in ('ForSlots', 'RepeatAny', 'Repeat', 'Onlooker'):
        return (k, norm_if(s[1]))
    if k == 'If':
        c, a, b = s[1], norm_if(s[2]), norm_if(s[3])
        if c[0] == 'COr':
            return norm_if(('If', c[1], a, ('If', c[2], a, b)))
        if c[0] == 'CAnd':
            return norm_if(('If', c[1], ('If', c[2], a, b), b))
        if c[0] == 'CNot':
            return norm_if(('If', c[1], b, a))
        return ('If', c, a, b)
    return s


def used_as_index(stmts, name):
    for st in stmts:
        for n in ast.walk(st):
            if isinstance(n, ast.Subscript) and isinstance(n.slice, ast.Name) and n.slice.id == name:
                return True
    return False


def seq(stmts):
    stmts = [s for s in stmts if s is not None]
    if not stmts:
        return ('Skip',)
    if len(stmts) == 1:
        return stmts[0]
    return ('Seq', stmts[0], seq(stmts[1:]))


# ---------------------------------------------------------------- Coq printing

def coq_ref(r):
    if r[0] == 'Slot':
        return '(Slot %d)' % r[1]
    return r[0]


def coq_cond(c):
    k = c[0]
    if k == 'FitLt':
        return '(FitLt %s %s)' % (coq_ref(c[1]), coq_ref(c[2]))
    if k == 'TmpLt':
        return '(TmpLt %s)' % coq_ref(c[1])
    if k == 'Opaque':
        return 'Opaque'
    if k == 'CNot':
        return '(CNot %s)' % coq_cond(c[1])
    return '(%s %s %s)' % (k, coq_cond(c[1]), coq_cond(c[2]))


def coq_stmt(s, ind=1):
    pad = ' ' * ind
    k = s[0]
    if k == 'Skip':
        return 'Skip'
    if k == 'At':
        return '(At %d %s)' % (s[1], coq_stmt(s[2], ind))
    if k == 'Seq':
        return '(Seq %s\n%s%s)' % (coq_stmt(s[1], ind + 1), pad, coq_stmt(s[2], ind))
    if k == 'If':
        return '(If %s\n%s %s\n%s %s)' % (coq_cond(s[1]), pad, coq_stmt(s[2], ind + 2), pad, coq_stmt(s[3], ind + 2))
    if k in ('ForSlots', 'RepeatAny', 'Repeat', 'Onlooker'):
        return '(%s\n%s %s)' % (k, pad, coq_stmt(s[1], ind + 2))
    if k == 'Havoc':
        return '(Havoc %s %s)' % (s[1], coq_ref(s[2]))
    if k in ('Clip', 'Eval', 'EvalTmp', 'SetFitTmp', 'NewTrial', 'PosFromTree'):
        return '(%s %s)' % (k, coq_ref(s[1]))
    if k in ('CopyPos', 'CopyFit', 'SwapPos', 'SwapFit', 'Store'):
        return '(%s %s %s)' % (k, coq_ref(s[1]), coq_ref(s[2]))
    if k == 'ChooseIdx':
        return '(ChooseIdx %d)' % s[1]
    if k == 'SetHyper':
        return '(SetHyper %s)' % coq_str(s[1])
    if k == 'TreeSet':
        return '(TreeSet %s %s)' % (coq_ref(s[1]), coq_str(s[2]))
    if k in ('TreeCopy', 'TreeCross'):
        return '(%s %s %s)' % (k, coq_ref(s[1]), coq_ref(s[2]))
    if k in ('ClipAll', 'ShadowAll', 'SortByFit', 'Hook', 'Dump', 'Draw', 'LocFromPos', 'BestPosFromLoc', 'BestTreeCopy'):
        return k
    raise ValueError(k)


def translate_all(repo):
    """-> (coq text, meta dict per optimizer, errors)"""
    out = [HEADER, 'From Coq Require Import List String.', 'From OV Require Import Model.IR.', 'Import ListNotations.',
           'Open Scope string_scope.', '']
    meta = {}
    errors = []
    names = []
    for cls, mod in OPTIMIZERS:
        try:
            t = Tr(repo, cls, mod)
            prog = t.translate()
            out.append('Definition prog_%s : stmt :=\n %s.\n' % (cls, coq_stmt(prog)))
            out.append('Definition locs_%s : list string := [\n  %s].\n' % (cls, ';\n  '.join(coq_str(l) for l in t.locs)))
            meta[cls] = {'hyper_writes': t.hyper_writes, 'draws': t.draws, 'ambient': t.ambient, 'dump_keys': t.dump_keys,
                         'hook_calls': t.hook_calls, 'locs': t.locs, 'ir': prog, 'plan': t.final_plan()}
            names.append(cls)
        except TranslationError as ex:
            errors.append({'item': cls, 'file': ex.file, 'line': ex.line, 'msg': ex.msg})
    out.append('Definition all_progs : list (string * stmt) := [%s].' % '; '.join('("%s", prog_%s)' % (n, n) for n in names))
    return '\n'.join(out) + '\n', meta, errors


if __name__ == '__main__':
    import sys
    text, meta, errors = translate_all(sys.argv[1] if len(sys.argv) > 1 else '/repo')
    print(text)
    for e in errors:
        print('ERROR', e)
