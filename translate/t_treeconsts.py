"""T-treeconsts: regenerates coq/theories/Gen/TreeArity.v from opytimizer/utils/constants.py (pure `ast`).

Reads the two constants the GP tree model depends on: the arity table N_ARGS_FUNCTION (as a list in the fixed
operator order SUM SUB MUL DIV EXP SQRT LOG ABS SIN COS, the ten names node._evaluate dispatches on) and
TOURNAMENT_SIZE.  Fails closed: anything but a dict of exactly these ten names to non-negative int literals
written as a display or one of the constant-foldable spellings of `_Folder` (dict.fromkeys / dict(...) / ** / |
over literals and single-assignment module-level names), a non-literal TOURNAMENT_SIZE, or any other statement
that mentions one of the two names, is a TranslationError."""
import ast
from translate.common import TranslationError, parse

REL = 'opytimizer/utils/constants.py'
OPS = ['SUM', 'SUB', 'MUL', 'DIV', 'EXP', 'SQRT', 'LOG', 'ABS', 'SIN', 'COS']


def _targets(st):
    """(name, value) of a simple module-level binding `NAME = value` / `NAME: T = value`, else None."""
    if isinstance(st, ast.Assign) and len(st.targets) == 1 and isinstance(st.targets[0], ast.Name):
        return st.targets[0].id, st.value
    if isinstance(st, ast.AnnAssign) and isinstance(st.target, ast.Name) and st.value is not None and st.simple:
        return st.target.id, st.value
    return None


class _Folder:
    """Constant folding of the spellings of a literal `dict` of str -> int, with Python's semantics (a later
    entry overrides an earlier one).  Accepted: dict displays incl. `**part`, `dict.fromkeys(seq, v)`, `dict()`,
    `dict(k=v, **part)`, `dict(mapping_or_pairs, ...)`, `dict(zip(keys, values))`, `part | part`, and names bound
    exactly once at module level (before use) to such a dict / a list or tuple of str literals / an int literal.
    Anything else is a TranslationError."""

    def __init__(self, env, rebound=()):
        self.env = env            # name -> value node (single module-level bindings seen so far)
        self.shadowed = set(env) | set(rebound)     # builtins `dict` / `zip` must not be redefined
        self.depth = 0

    def err(self, node, msg):
        raise TranslationError(REL, node, msg)

    def name(self, node):
        if node.id not in self.env:
            self.err(node, 'name %s is not a single module-level literal binding' % node.id)
        self.depth += 1
        if self.depth > 100:
            self.err(node, 'name resolution too deep')
        return self.env[node.id]

    def int_(self, node):
        if isinstance(node, ast.Name):
            return self.int_(self.name(node))
        if isinstance(node, ast.Constant) and type(node.value) is int and node.value >= 0:
            return node.value
        self.err(node, 'value is not a non-negative int literal')

    def str_(self, node):
        if isinstance(node, ast.Constant) and type(node.value) is str:
            return node.value
        self.err(node, 'key is not a str literal')

    def strs(self, node):
        """list / tuple of str literals (sets have no defined order: rejected)"""
        if isinstance(node, ast.Name):
            return self.strs(self.name(node))
        if isinstance(node, (ast.List, ast.Tuple)):
            return [self.str_(e) for e in node.elts]
        self.err(node, 'not a list/tuple of str literals')

    def seq(self, node):
        if isinstance(node, ast.Name):
            return self.seq(self.name(node))
        if isinstance(node, (ast.List, ast.Tuple)):
            return list(node.elts)
        self.err(node, 'not a list/tuple display')

    def pairs(self, node):
        """first positional argument of dict(...): a mapping or an iterable of (key, value) pairs"""
        if isinstance(node, ast.Call) and isinstance(node.func, ast.Name) and node.func.id == 'zip' \
                and 'zip' not in self.shadowed and len(node.args) == 2 and not node.keywords:
            ks, vs = self.strs(node.args[0]), [self.int_(v) for v in self.seq(node.args[1])]
            if len(ks) != len(vs):
                self.err(node, 'zip of sequences of different lengths')
            return list(zip(ks, vs))
        if isinstance(node, (ast.List, ast.Tuple)):
            out = []
            for e in node.elts:
                if not (isinstance(e, (ast.Tuple, ast.List)) and len(e.elts) == 2):
                    self.err(e, 'not a (key, value) pair')
                out.append((self.str_(e.elts[0]), self.int_(e.elts[1])))
            return out
        return list(self.dict_(node).items())

    def dict_(self, node):
        out = {}
        if isinstance(node, ast.Name):
            return self.dict_(self.name(node))
        if isinstance(node, ast.Dict):
            for k, v in zip(node.keys, node.values):
                if k is None:
                    out.update(self.dict_(v))
                else:
                    out[self.str_(k)] = self.int_(v)
            return out
        if isinstance(node, ast.BinOp) and isinstance(node.op, ast.BitOr):
            out.update(self.dict_(node.left))
            out.update(self.dict_(node.right))
            return out
        if isinstance(node, ast.Call) and 'dict' not in self.shadowed:
            f = node.func
            if isinstance(f, ast.Attribute) and f.attr == 'fromkeys' and isinstance(f.value, ast.Name) \
                    and f.value.id == 'dict':
                if len(node.args) != 2 or node.keywords:
                    self.err(node, 'dict.fromkeys needs exactly (keys, value)')
                v = self.int_(node.args[1])
                return {k: v for k in self.strs(node.args[0])}
            if isinstance(f, ast.Name) and f.id == 'dict':
                if len(node.args) > 1:
                    self.err(node, 'dict() with more than one positional argument')
                if node.args:
                    if isinstance(node.args[0], ast.Starred):
                        self.err(node, 'starred argument')
                    out.update(self.pairs(node.args[0]))
                for kw in node.keywords:
                    if kw.arg is None:
                        out.update(self.dict_(kw.value))
                    else:
                        out[kw.arg] = self.int_(kw.value)
                return out
        self.err(node, 'N_ARGS_FUNCTION is not a foldable literal dict (%s)' % type(node).__name__)


def read(repo):
    tree, src = parse(repo, REL)
    n_args = None
    tsize = None
    lines = {}
    env = {}
    rebound = set()
    WATCH = ('N_ARGS_FUNCTION', 'TOURNAMENT_SIZE')
    for st in tree.body:
        tv = _targets(st)
        if tv is None or tv[0] not in WATCH:
            # any other statement that mentions one of the two names could change it: fail closed
            # (the right-hand side of a simple binding of another name may only read it)
            scope = st if tv is None else tv[1]
            for n in ast.walk(scope):
                if isinstance(n, ast.Name) and n.id in WATCH and (tv is None or not isinstance(n.ctx, ast.Load)):
                    raise TranslationError(REL, st, '%s is used outside its defining assignment' % n.id)
            if tv is None:
                # names (re)bound by anything but a simple assignment are not constants
                for n in ast.walk(st):
                    if isinstance(n, ast.Name) and isinstance(n.ctx, (ast.Store, ast.Del)):
                        rebound.add(n.id)
                        env.pop(n.id, None)
                    elif isinstance(n, (ast.FunctionDef, ast.ClassDef, ast.AsyncFunctionDef)):
                        rebound.add(n.name)
                        env.pop(n.name, None)
                    elif isinstance(n, ast.alias):
                        nm = (n.asname or n.name).split('.')[0]
                        rebound.add(nm)
                        env.pop(nm, None)
            else:
                name, value = tv
                if name in env or name in rebound:
                    rebound.add(name)
                    env.pop(name, None)
                else:
                    env[name] = value
            continue
        name, value = tv
        if name == 'N_ARGS_FUNCTION':
            if n_args is not None:
                raise TranslationError(REL, st, 'N_ARGS_FUNCTION assigned twice')
            n_args = _Folder(env, rebound).dict_(value)
            lines['N_ARGS_FUNCTION'] = st.lineno
        else:
            if tsize is not None:
                raise TranslationError(REL, st, 'TOURNAMENT_SIZE assigned twice')
            try:
                tsize = _Folder(env, rebound).int_(value)
            except TranslationError:
                raise TranslationError(REL, st, 'TOURNAMENT_SIZE is not a non-negative int literal')
            lines['TOURNAMENT_SIZE'] = st.lineno
    if n_args is None:
        raise TranslationError(REL, None, 'N_ARGS_FUNCTION not found')
    if tsize is None:
        raise TranslationError(REL, None, 'TOURNAMENT_SIZE not found')
    if sorted(n_args) != sorted(OPS):
        raise TranslationError(REL, None, 'N_ARGS_FUNCTION keys %r are not the ten operators' % sorted(n_args))
    return n_args, tsize, lines


def generate(repo):
    """-> (text, items, errors) in the shape the other translators use."""
    try:
        n_args, tsize, lines = read(repo)
    except TranslationError as ex:
        text = ('(* GENERATED by translate/t_treeconsts.py -- translation FAILED, no definitions *)\n')
        return text, [], [{'item': 'constants', 'file': ex.file, 'line': ex.line, 'msg': ex.msg}]
    tab = [n_args[o] for o in OPS]
    text = ('(* GENERATED by translate/t_treeconsts.py from %s -- do not edit *)\n'
            'From Coq Require Import List.\nImport ListNotations.\n\n'
            '(* N_ARGS_FUNCTION (line %d), operators in the order %s *)\n'
            'Definition arity_tab : list nat := [%s].\n\n'
            '(* TOURNAMENT_SIZE (line %d) *)\n'
            'Definition tournament_size : nat := %d.\n'
            % (REL, lines['N_ARGS_FUNCTION'], ' '.join(OPS), '; '.join(str(a) for a in tab),
               lines['TOURNAMENT_SIZE'], tsize))
    items = [{'file': REL, 'line': lines['N_ARGS_FUNCTION'], 'text': 'arity_tab := [%s]' % '; '.join(map(str, tab))},
             {'file': REL, 'line': lines['TOURNAMENT_SIZE'], 'text': 'tournament_size := %d' % tsize}]
    return text, items, []
