"""Helpers shared by the translators (pure `ast`; nothing from /repo is imported or executed)."""
import ast
import copy
import os
import struct
import math


class TranslationError(Exception):
    def __init__(self, file, node, msg):
        self.file = file
        self.line = getattr(node, 'lineno', 0) if node is not None else 0
        self.msg = msg
        super().__init__('%s:%s: %s' % (file, self.line, msg))


def parse(repo, rel):
    path = os.path.join(repo, rel)
    src = open(path).read()
    return ast.parse(src, filename=rel), src


def sink_branch_locals(tree):
    """`if c: ...; v = A  else: ...; v = B` directly followed by `<target> = v`, where the local `v` is bound nowhere else and read nowhere
    else in its function, is `if c: ...; <target> = A  else: ...; <target> = B`: in both spellings the branch's expression is evaluated,
    then the target's sub-expressions, then the store.  The tree is rewritten in place (node positions are kept) and returned."""
    for fn in [n for n in ast.walk(tree) if isinstance(n, ast.FunctionDef)]:
        params = {a.arg for a in fn.args.args + fn.args.kwonlyargs}
        loads, stores = {}, {}
        for n in ast.walk(fn):
            if isinstance(n, ast.Name):
                d = loads if isinstance(n.ctx, ast.Load) else stores
                d[n.id] = d.get(n.id, 0) + 1

        def last_binds(block, v):
            return (block and isinstance(block[-1], ast.Assign) and len(block[-1].targets) == 1
                    and isinstance(block[-1].targets[0], ast.Name) and block[-1].targets[0].id == v)

        def visit(block):
            i = 0
            while i < len(block):
                st = block[i]
                for sub in ('body', 'orelse', 'finalbody'):
                    if isinstance(getattr(st, sub, None), list) and not isinstance(st, ast.FunctionDef):
                        visit(getattr(st, sub))
                nx = block[i + 1] if i + 1 < len(block) else None
                if (isinstance(st, ast.If) and st.orelse and isinstance(nx, ast.Assign) and len(nx.targets) == 1
                        and isinstance(nx.value, ast.Name) and not isinstance(nx.targets[0], ast.Name)):
                    v = nx.value.id
                    if (v not in params and loads.get(v, 0) == 1 and stores.get(v, 0) == 2 and last_binds(st.body, v) and last_binds(st.orelse, v)
                            and not any(isinstance(x, ast.Name) and x.id == v for x in ast.walk(nx.targets[0]))):
                        for br in (st.body, st.orelse):
                            old = br[-1]
                            new = ast.Assign(targets=[copy.deepcopy(nx.targets[0])], value=old.value, type_comment=None)
                            ast.copy_location(new, old)
                            ast.fix_missing_locations(new)
                            br[-1] = new
                        del block[i + 1]
                i += 1
        visit(fn.body)
    return tree


def swaps_via_temp(tree):
    """`t = X; X = Y; Y = t` (three consecutive statements; `t` a local bound only there and read only there; X, Y attribute / subscript /
    name targets that do not mention `t`) is the tuple swap `X, Y = Y, X`: the same two values are read, X is stored first, then Y."""
    for fn in [n for n in ast.walk(tree) if isinstance(n, ast.FunctionDef)]:
        loads, stores = {}, {}
        for n in ast.walk(fn):
            if isinstance(n, ast.Name):
                d = loads if isinstance(n.ctx, ast.Load) else stores
                d[n.id] = d.get(n.id, 0) + 1

        def as_load(node):
            new = copy.deepcopy(node)
            for x in ast.walk(new):
                if hasattr(x, 'ctx'):
                    x.ctx = ast.Load()
            return new

        def visit(block):
            i = 0
            while i < len(block):
                st = block[i]
                for sub in ('body', 'orelse', 'finalbody'):
                    if isinstance(getattr(st, sub, None), list) and not isinstance(st, ast.FunctionDef):
                        visit(getattr(st, sub))
                if i + 2 < len(block) and all(isinstance(x, ast.Assign) and len(x.targets) == 1 for x in block[i:i + 3]):
                    a, b, c = block[i:i + 3]
                    t = a.targets[0].id if isinstance(a.targets[0], ast.Name) else None
                    if (t is not None and loads.get(t, 0) == 1 and stores.get(t, 0) == 1 and isinstance(c.value, ast.Name) and c.value.id == t
                            and not isinstance(b.targets[0], ast.Name) and not isinstance(c.targets[0], ast.Name)
                            and ast.dump(as_load(b.targets[0])) == ast.dump(a.value) and ast.dump(as_load(c.targets[0])) == ast.dump(b.value)
                            and not any(isinstance(x, ast.Name) and x.id == t for x in ast.walk(b))):
                        new = ast.Assign(targets=[ast.Tuple(elts=[b.targets[0], c.targets[0]], ctx=ast.Store())],
                                         value=ast.Tuple(elts=[b.value, a.value], ctx=ast.Load()), type_comment=None)
                        ast.copy_location(new, a)
                        ast.fix_missing_locations(new)
                        block[i:i + 3] = [new]
                i += 1
        visit(fn.body)
    return tree


RESIZERS = {'append', 'pop', 'remove', 'insert', 'extend', 'clear', 'sort', 'reverse'}


def inline_len_locals(tree):
    """`n = len(<param>)` bound once at the top level of a function whose body never rebinds the parameter, never deletes from it, never
    assigns a slice of it and never calls a resizing method on it (append/pop/remove/insert/extend/clear): every read of `n` is
    `len(<param>)` -- the length cannot change in between."""
    for fn in [x for x in ast.walk(tree) if isinstance(x, ast.FunctionDef)]:
        params = {a.arg for a in fn.args.args}
        stores = {}
        for x in ast.walk(fn):
            if isinstance(x, ast.Name) and isinstance(x.ctx, (ast.Store, ast.Del)):
                stores[x.id] = stores.get(x.id, 0) + 1
        for st in list(fn.body):
            if not (isinstance(st, ast.Assign) and len(st.targets) == 1 and isinstance(st.targets[0], ast.Name)):
                continue
            v, n = st.value, st.targets[0].id
            if not (isinstance(v, ast.Call) and isinstance(v.func, ast.Name) and v.func.id == 'len' and len(v.args) == 1 and not v.keywords
                    and isinstance(v.args[0], ast.Name) and v.args[0].id in params):
                continue
            p = v.args[0].id
            if stores.get(n, 0) != 1 or stores.get(p, 0) != 0 or n in params:
                continue
            bad = False
            for x in ast.walk(fn):
                if isinstance(x, ast.Call) and isinstance(x.func, ast.Attribute) and isinstance(x.func.value, ast.Name) \
                        and x.func.value.id == p and x.func.attr in RESIZERS - {'sort', 'reverse'}:
                    bad = True
                if isinstance(x, (ast.Delete,)) and any(isinstance(y, ast.Name) and y.id == p for t in x.targets for y in ast.walk(t)):
                    bad = True
                if isinstance(x, ast.Subscript) and isinstance(x.ctx, ast.Store) and isinstance(x.slice, ast.Slice) \
                        and isinstance(x.value, ast.Name) and x.value.id == p:
                    bad = True
                if isinstance(x, ast.AugAssign) and isinstance(x.target, ast.Name) and x.target.id == p:
                    bad = True
            if bad:
                continue

            class Sub(ast.NodeTransformer):
                def visit_Name(self, node):
                    if node.id == n and isinstance(node.ctx, ast.Load):
                        return ast.copy_location(copy.deepcopy(v), node)
                    return node
            fn.body.remove(st)
            for i, b in enumerate(fn.body):
                fn.body[i] = Sub().visit(b)
            ast.fix_missing_locations(fn)
    return tree


def unproduct(tree):
    """`for a, b in itertools.product(X, Y): body` is `for a in X: for b in Y: body` when X and Y are plain names that the body neither
    re-binds nor resizes nor stores into by index (product takes a snapshot of both lists first; without such writes the nested loops
    visit the same pairs in the same order); no break/continue in the body (they would mean something else in the nested form)."""
    for fn in [x for x in ast.walk(tree) if isinstance(x, ast.FunctionDef)]:
        def visit(block):
            for i, st in enumerate(block):
                for sub in ('body', 'orelse', 'finalbody'):
                    if isinstance(getattr(st, sub, None), list) and not isinstance(st, ast.FunctionDef):
                        visit(getattr(st, sub))
                if not (isinstance(st, ast.For) and not st.orelse and isinstance(st.target, ast.Tuple) and len(st.target.elts) == 2
                        and all(isinstance(e, ast.Name) for e in st.target.elts) and isinstance(st.iter, ast.Call) and not st.iter.keywords
                        and len(st.iter.args) == 2 and all(isinstance(a, ast.Name) for a in st.iter.args)):
                    continue
                f = st.iter.func
                if not ((isinstance(f, ast.Attribute) and f.attr == 'product' and isinstance(f.value, ast.Name) and f.value.id == 'itertools')
                        or (isinstance(f, ast.Name) and f.id == 'product')):
                    continue
                xs = {a.id for a in st.iter.args}
                bad = False
                for n in ast.walk(st):
                    if isinstance(n, (ast.Break, ast.Continue)):
                        bad = True
                    if isinstance(n, ast.Name) and n.id in xs and isinstance(n.ctx, (ast.Store, ast.Del)):
                        bad = True
                    if isinstance(n, ast.Subscript) and isinstance(n.ctx, (ast.Store, ast.Del)) and isinstance(n.value, ast.Name) and n.value.id in xs:
                        bad = True
                    if isinstance(n, ast.Call) and isinstance(n.func, ast.Attribute) and isinstance(n.func.value, ast.Name) \
                            and n.func.value.id in xs and n.func.attr in RESIZERS:
                        bad = True
                if bad:
                    continue
                inner = ast.For(target=st.target.elts[1], iter=st.iter.args[1], body=st.body, orelse=[], type_comment=None)
                ast.copy_location(inner, st)
                outer = ast.For(target=st.target.elts[0], iter=st.iter.args[0], body=[inner], orelse=[], type_comment=None)
                ast.copy_location(outer, st)
                ast.fix_missing_locations(outer)
                block[i] = outer
        visit(fn.body)
    return tree


def inline_ref_aliases(tree):
    """`x = E` where E is a pure REFERENCE expression -- `name[name]` or an attribute chain `name.a.b` -- bound once in its function,
    every read of x lies in the statements that follow the binding in the same block (so in the same loop iteration), and none of those
    statements re-binds a name of E or assigns to E itself: x is just another spelling of E there, and is replaced by it."""
    def is_ref(e):
        if isinstance(e, ast.Subscript):
            return isinstance(e.value, ast.Name) and isinstance(e.slice, ast.Name)
        n = 0
        while isinstance(e, ast.Attribute):
            e = e.value
            n += 1
        return n >= 1 and isinstance(e, ast.Name)

    for fn in [x for x in ast.walk(tree) if isinstance(x, ast.FunctionDef)]:
        params = {a.arg for a in fn.args.args}
        stores, loads = {}, {}
        for x in ast.walk(fn):
            if isinstance(x, ast.Name):
                d = stores if isinstance(x.ctx, (ast.Store, ast.Del)) else loads
                d[x.id] = d.get(x.id, 0) + 1

        def visit(block):
            i = 0
            while i < len(block):
                st = block[i]
                for sub in ('body', 'orelse', 'finalbody'):
                    if isinstance(getattr(st, sub, None), list) and not isinstance(st, ast.FunctionDef):
                        visit(getattr(st, sub))
                if (isinstance(st, ast.Assign) and len(st.targets) == 1 and isinstance(st.targets[0], ast.Name) and is_ref(st.value)):
                    x, e = st.targets[0].id, st.value
                    rest = block[i + 1:]
                    names = {n.id for n in ast.walk(e) if isinstance(n, ast.Name)}
                    etxt = ast.dump(e).replace('Load()', 'CTX')
                    n_loads_rest = sum(1 for r in rest for n in ast.walk(r) if isinstance(n, ast.Name) and n.id == x and isinstance(n.ctx, ast.Load))
                    ok = (x not in params and x != 'self' and stores.get(x, 0) == 1 and n_loads_rest == loads.get(x, 0) and n_loads_rest > 0
                          and x not in names)
                    if ok:
                        for r in rest:
                            for n in ast.walk(r):
                                if isinstance(n, ast.Name) and n.id in names and isinstance(n.ctx, (ast.Store, ast.Del)):
                                    ok = False
                                if isinstance(n, (ast.Subscript, ast.Attribute)) and isinstance(n.ctx, (ast.Store, ast.Del)) \
                                        and ast.dump(n).replace('Store()', 'CTX').replace('Del()', 'CTX') == etxt:
                                    ok = False
                    if ok:
                        class Sub(ast.NodeTransformer):
                            def visit_Name(self, node):
                                if node.id == x and isinstance(node.ctx, ast.Load):
                                    return ast.copy_location(copy.deepcopy(e), node)
                                return node
                        for j in range(i + 1, len(block)):
                            block[j] = Sub().visit(block[j])
                        del block[i]
                        ast.fix_missing_locations(fn)
                        continue
                i += 1
        visit(fn.body)
    return tree


def unelif_raising(tree):
    """`if c1: ...; raise  elif c2: ...` is `if c1: ...; raise` followed by `if c2: ...` (the first body never falls through)."""
    def visit(block):
        i = 0
        while i < len(block):
            st = block[i]
            for sub in ('body', 'orelse', 'finalbody'):
                if isinstance(getattr(st, sub, None), list) and not isinstance(st, (ast.FunctionDef, ast.ClassDef)):
                    visit(getattr(st, sub))
            if isinstance(st, ast.If) and st.orelse and st.body and isinstance(st.body[-1], ast.Raise):
                tail = st.orelse
                st.orelse = []
                block[i + 1:i + 1] = tail
            i += 1
    for fn in [x for x in ast.walk(tree) if isinstance(x, ast.FunctionDef)]:
        visit(fn.body)
    return tree


def inline_local_defs(tree):
    """A nested `def f(a, ...): [docstring] return <expr>` (no decorators, defaults, annotations that matter, *args) whose name is read
    exactly once afterwards in the enclosing function, as a plain value (`key=f`, `iter(f, ())`), is the lambda `lambda a, ...: <expr>`
    written at that place: both are closures over the same variables, evaluated when called."""
    for fn in [n for n in ast.walk(tree) if isinstance(n, ast.FunctionDef)]:
        changed = True
        while changed:
            changed = False
            for k, d in enumerate(fn.body):
                if not isinstance(d, ast.FunctionDef) or d.decorator_list:
                    continue
                a = d.args
                if a.vararg or a.kwarg or a.kwonlyargs or a.defaults or a.kw_defaults or getattr(a, 'posonlyargs', []):
                    continue
                body = [s_ for s_ in d.body if not (isinstance(s_, ast.Expr) and isinstance(s_.value, ast.Constant) and isinstance(s_.value.value, str))]
                if len(body) != 1 or not isinstance(body[0], ast.Return) or body[0].value is None:
                    continue
                expr = body[0].value
                if any(isinstance(n, (ast.Yield, ast.YieldFrom, ast.Await, ast.Lambda, ast.FunctionDef)) for n in ast.walk(expr)):
                    continue
                if any(isinstance(n, ast.Name) and n.id == d.name for n in ast.walk(expr)):
                    continue                                  # recursive
                uses = [n for st in fn.body[:k] + fn.body[k + 1:] for n in ast.walk(st) if isinstance(n, ast.Name) and n.id == d.name]
                later = [n for st in fn.body[k + 1:] for n in ast.walk(st) if isinstance(n, ast.Name) and n.id == d.name]
                if len(uses) != 1 or len(later) != 1 or not isinstance(later[0].ctx, ast.Load):
                    continue
                lam = ast.Lambda(args=ast.arguments(posonlyargs=[], args=[ast.arg(arg=x.arg) for x in a.args], vararg=None, kwonlyargs=[],
                                                    kw_defaults=[], kwarg=None, defaults=[]), body=expr)
                target = later[0]

                class Sub(ast.NodeTransformer):
                    def visit_Name(self, node):
                        return ast.copy_location(lam, node) if node is target else node
                for i_ in range(k + 1, len(fn.body)):
                    fn.body[i_] = Sub().visit(fn.body[i_])
                del fn.body[k]
                ast.fix_missing_locations(fn)
                changed = True
                break
    return tree


def zeros_like_of_zeros(tree):
    """`b = np.zeros_like(a)` where `a` was bound in the same block, by the one statement `a = np.zeros(<shape>)` whose shape only reads
    attributes / names / constants, and nothing re-binds `a` in between, allocates what `np.zeros(<shape>)` allocates."""
    def pure(e):
        return all(isinstance(n, (ast.Tuple, ast.Name, ast.Attribute, ast.Constant, ast.Load, ast.expr_context)) for n in ast.walk(e))

    def is_np(call, name):
        return (isinstance(call, ast.Call) and isinstance(call.func, ast.Attribute) and call.func.attr == name
                and isinstance(call.func.value, ast.Name) and call.func.value.id == 'np')
    for fn in [n for n in ast.walk(tree) if isinstance(n, ast.FunctionDef)]:
        made = {}
        for st in fn.body:
            if isinstance(st, ast.Assign) and len(st.targets) == 1 and isinstance(st.targets[0], ast.Name):
                v = st.value
                if is_np(v, 'zeros_like') and len(v.args) == 1 and not v.keywords and isinstance(v.args[0], ast.Name) and v.args[0].id in made:
                    st.value = ast.copy_location(ast.Call(func=v.func.__class__(value=v.func.value, attr='zeros', ctx=ast.Load()),
                                                          args=[copy.deepcopy(made[v.args[0].id])], keywords=[]), v)
                    ast.fix_missing_locations(st)
                    v = st.value
                if is_np(v, 'zeros') and len(v.args) == 1 and not v.keywords and pure(v.args[0]):
                    made[st.targets[0].id] = v.args[0]
                    continue
            for n in ast.walk(st):                     # anything else that may re-bind a tracked name, or a name its shape reads
                if isinstance(n, ast.Name) and isinstance(n.ctx, (ast.Store, ast.Del)):
                    made.pop(n.id, None)
                    for k_ in [k_ for k_, e in made.items() if any(isinstance(m, ast.Name) and m.id == n.id for m in ast.walk(e))]:
                        made.pop(k_)
    return tree


def inline_const_locals(tree):
    """A local bound exactly once in its function, at the top level of the function body, to a numeric literal (`lower, upper = 0, 1`,
    `std = 0.1`), never a parameter, and only read afterwards, is that literal wherever it is read."""
    def lit(e):
        if isinstance(e, ast.UnaryOp) and isinstance(e.op, (ast.USub, ast.UAdd)):
            e = e.operand
        return isinstance(e, ast.Constant) and isinstance(e.value, (int, float)) and not isinstance(e.value, bool)
    for fn in [x for x in ast.walk(tree) if isinstance(x, ast.FunctionDef)]:
        params = {a.arg for a in fn.args.args} | {'self'}
        stores = {}
        for x in ast.walk(fn):
            if isinstance(x, ast.Name) and isinstance(x.ctx, (ast.Store, ast.Del)):
                stores[x.id] = stores.get(x.id, 0) + 1
        i = 0
        while i < len(fn.body):
            st = fn.body[i]
            pairs = None
            if isinstance(st, ast.Assign) and len(st.targets) == 1:
                t, v = st.targets[0], st.value
                if isinstance(t, ast.Name) and lit(v):
                    pairs = [(t.id, v)]
                elif isinstance(t, ast.Tuple) and isinstance(v, ast.Tuple) and len(t.elts) == len(v.elts) \
                        and all(isinstance(a, ast.Name) for a in t.elts) and all(lit(b) for b in v.elts):
                    pairs = [(a.id, b) for a, b in zip(t.elts, v.elts)]
            if pairs and all(n not in params and stores.get(n, 0) == 1 for n, _ in pairs) \
                    and not any(isinstance(x, ast.Name) and x.id in dict(pairs) for b in fn.body[:i] for x in ast.walk(b)):
                env = dict(pairs)

                class Sub(ast.NodeTransformer):
                    def visit_Name(self, node):
                        if node.id in env and isinstance(node.ctx, ast.Load):
                            return ast.copy_location(copy.deepcopy(env[node.id]), node)
                        return node
                for j in range(i + 1, len(fn.body)):
                    fn.body[j] = Sub().visit(fn.body[j])
                del fn.body[i]
                ast.fix_missing_locations(fn)
                continue
            i += 1
    return tree


def merge_tail_returns(tree):
    """`if c: A; return X` followed (to the end of the function) by `B; return X` with the same expression X -- and no `else` -- is
    `if c: A else: B` followed by `return X`: the early exit and the fall-through return the same thing."""
    for fn in [n for n in ast.walk(tree) if isinstance(n, ast.FunctionDef)]:
        body = fn.body
        if len(body) < 3 or not isinstance(body[-1], ast.Return) or body[-1].value is None:
            continue
        last = ast.dump(body[-1].value)
        for k in range(len(body) - 2, -1, -1):
            st = body[k]
            if isinstance(st, ast.If) and not st.orelse and len(st.body) >= 2 and isinstance(st.body[-1], ast.Return) \
                    and st.body[-1].value is not None and ast.dump(st.body[-1].value) == last:
                rest = body[k + 1:-1]
                if not rest or any(isinstance(n, ast.Return) for r in rest + st.body[:-1] for n in ast.walk(r)):
                    break
                st.body = st.body[:-1]
                st.orelse = rest
                fn.body = body[:k + 1] + [body[-1]]
                ast.fix_missing_locations(fn)
                break
    return tree


def normalise(tree):
    """The behaviour-preserving rewrites shared by the translators that read optimizer code (T2, its state-replay instrumentation, the
    onlooker translator, t_treepop): each maps a spelling onto the one the translators know; none changes what the code does."""
    sink_branch_locals(tree)
    swaps_via_temp(tree)
    inline_len_locals(tree)
    unproduct(tree)
    inline_ref_aliases(tree)
    inline_local_defs(tree)
    zeros_like_of_zeros(tree)
    merge_tail_returns(tree)
    return tree


def find_class(tree, name):
    for n in tree.body:
        if isinstance(n, ast.ClassDef) and n.name == name:
            return n
    return None


def find_func(scope, name):
    for n in scope.body:
        if isinstance(n, ast.FunctionDef) and n.name == name:
            return n
    return None


def body_wo_doc(fn):
    """Function body without docstring and without logger.* calls / pass."""
    out = []
    for i, s in enumerate(fn.body):
        if i == 0 and isinstance(s, ast.Expr) and isinstance(s.value, ast.Constant) and isinstance(s.value.value, str):
            continue
        if is_logger_call(s) or isinstance(s, ast.Pass):
            continue
        out.append(s)
    return out


INERT_NODES = (ast.Constant, ast.Name, ast.Attribute, ast.Subscript, ast.Slice, ast.JoinedStr, ast.FormattedValue, ast.BinOp, ast.UnaryOp,
               ast.Compare, ast.BoolOp, ast.IfExp, ast.Tuple, ast.List, ast.Dict, ast.ListComp, ast.GeneratorExp, ast.comprehension,
               ast.expr_context, ast.operator, ast.unaryop, ast.cmpop, ast.boolop)


def logger_args_inert(call):
    """The translators skip logging statements: that is only sound when producing the message cannot change anything or raise --
    no call of any kind (`list(it)` consumes an iterator, a property call may have effects), no format specification (`{x:.4f}` raises for
    an array or None), comprehensions only over attributes of `self`.  -> None, or the reason the message is not inert."""
    for a in list(call.args) + [k.value for k in call.keywords]:
        skip = set()
        for x in ast.walk(a):
            # `getattr(<inert>, '<name>', <inert default>)` is an attribute read with a fallback: as inert as the attribute read itself
            if (isinstance(x, ast.Call) and isinstance(x.func, ast.Name) and x.func.id == 'getattr' and len(x.args) == 3 and not x.keywords
                    and isinstance(x.args[1], ast.Constant) and isinstance(x.args[1].value, str)):
                skip.add(id(x))
                skip.add(id(x.func))
        for x in ast.walk(a):
            if id(x) in skip:
                continue
            if not isinstance(x, INERT_NODES):
                return 'its message contains a %s (`%s`)' % (type(x).__name__, ast.unparse(x)[:50])
            if isinstance(x, ast.FormattedValue) and x.format_spec is not None:
                return 'its message formats `%s` with a format specification' % ast.unparse(x.value)[:40]
            if isinstance(x, ast.comprehension):
                r = x.iter
                while isinstance(r, ast.Attribute):
                    r = r.value
                if not (isinstance(r, ast.Name) and r.id == 'self' and isinstance(x.iter, ast.Attribute)) or x.ifs or x.is_async:
                    return 'its message iterates over `%s`' % ast.unparse(x.iter)[:40]
    return None


def is_logger_call(s, file='opytimizer'):
    ok = (isinstance(s, ast.Expr) and isinstance(s.value, ast.Call)
          and isinstance(s.value.func, ast.Attribute)
          and isinstance(s.value.func.value, ast.Name) and s.value.func.value.id == 'logger')
    if ok:
        why = logger_args_inert(s.value)
        if why:
            raise TranslationError(file, s, 'a logging statement is only skipped when building its message can neither raise nor change '
                                            'anything: %s' % why)
    return ok


def src_of(src, node):
    return ast.get_source_segment(src, node) or ''


def key_of_float(x):
    x = float(x)
    if math.isnan(x):
        return None
    b = struct.unpack('<q', struct.pack('<d', x))[0]
    if b >= 0:
        return b
    return -(b & 0x7fffffffffffffff) - 1


def coq_okey(k):
    return 'None' if k is None else '(Some (%d)%%Z)' % k


def coq_str(s):
    return '"' + s.replace('"', '""') + '"'


def coq_bool(b):
    return 'true' if b else 'false'


def is_attr(node, obj, attr):
    return (isinstance(node, ast.Attribute) and node.attr == attr
            and isinstance(node.value, ast.Name) and node.value.id == obj)


HEADER = '(* GENERATED by /verif/translate -- do not edit; regenerated from /repo on every check *)\n'
