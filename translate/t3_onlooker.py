"""T3 (onlooker): ABC._send_onlooker's selection loop -> coq/theories/Gen/Onlooker.v (fail-closed).

Checks the loop shape
    total = sum(agent.fit for agent in agents); k = 0
    while k < len(agents):
        for i, agent in enumerate(agents):
            r1 = r.generate_uniform_random_number(0, 1)
            probs = <expr over agent.fit, total, c.EPSILON>
            if r1 < probs:
                k += 1
                ...
and regenerates <expr> as a function over Q together with the draw range and EPSILON (exact decimal rationals)."""
import ast
from fractions import Fraction
from .common import TranslationError, parse, find_class, find_func, HEADER, body_wo_doc, normalise

FILE = 'opytimizer/optimizers/abc.py'
CONST = 'opytimizer/utils/constants.py'


def q(fr):
    fr = Fraction(fr)
    return '(%d # %d)' % (fr.numerator, fr.denominator)


def dec(node):
    if isinstance(node, ast.Constant) and isinstance(node.value, (int, float)) and not isinstance(node.value, bool):
        return Fraction(repr(node.value)) if isinstance(node.value, float) else Fraction(node.value)
    if isinstance(node, ast.UnaryOp) and isinstance(node.op, ast.USub):
        return -dec(node.operand)
    raise ValueError


def expr(node, file):
    if isinstance(node, ast.BinOp) and type(node.op) in (ast.Add, ast.Sub, ast.Mult, ast.Div):
        op = {ast.Add: '+', ast.Sub: '-', ast.Mult: '*', ast.Div: '/'}[type(node.op)]
        return '(%s %s %s)' % (expr(node.left, file), op, expr(node.right, file))
    if isinstance(node, ast.Attribute) and isinstance(node.value, ast.Name):
        if node.value.id == 'agent' and node.attr == 'fit':
            return 'fit'
        if node.value.id == 'c' and node.attr == 'EPSILON':
            return 'eps'
    if isinstance(node, ast.Name) and node.id == 'total':
        return 'total'
    try:
        return q(dec(node))
    except ValueError:
        raise TranslationError(file, node, 'unsupported term in the selection probability: %s' % ast.unparse(node))


def generate(repo):
    tree, src = parse(repo, FILE)
    normalise(tree)
    cls = find_class(tree, 'ABC')
    fn = find_func(cls, '_send_onlooker') if cls else None
    if fn is None:
        raise TranslationError(FILE, None, 'ABC._send_onlooker not found')
    body = body_wo_doc(fn)
    if len(body) != 3:
        raise TranslationError(FILE, fn, '_send_onlooker: expected total=...; k=0; while ...')
    s0, s1, s2 = body
    if ast.unparse(s0) != 'total = sum((agent.fit for agent in agents))':
        raise TranslationError(FILE, s0, 'total is not sum(agent.fit for agent in agents): %s' % ast.unparse(s0))
    if ast.unparse(s1) != 'k = 0':
        raise TranslationError(FILE, s1, 'counter is not initialised with k = 0')
    if not isinstance(s2, ast.While) or ast.unparse(s2.test) != 'k < len(agents)' or s2.orelse or len(s2.body) != 1:
        raise TranslationError(FILE, s2, 'not `while k < len(agents): <one for loop>`')
    f = s2.body[0]
    if not isinstance(f, ast.For) or ast.unparse(f.iter) != 'enumerate(agents)' or ast.unparse(f.target) != '(i, agent)' or f.orelse:
        raise TranslationError(FILE, f, 'not `for i, agent in enumerate(agents)`')
    fb = [s for s in f.body]
    if len(fb) != 3:
        raise TranslationError(FILE, f, 'loop body is not r1 = ...; probs = ...; if r1 < probs: ...')
    d, p, i = fb
    if not (isinstance(d, ast.Assign) and ast.unparse(d.targets[0]) == 'r1' and isinstance(d.value, ast.Call)
            and ast.unparse(d.value.func) == 'r.generate_uniform_random_number' and len(d.value.args) == 2 and not d.value.keywords):
        raise TranslationError(FILE, d, 'r1 is not r.generate_uniform_random_number(lo, hi)')
    lo, hi = dec(d.value.args[0]), dec(d.value.args[1])
    if not (isinstance(p, ast.Assign) and ast.unparse(p.targets[0]) == 'probs'):
        raise TranslationError(FILE, p, 'second statement is not probs = ...')
    pe = expr(p.value, FILE)
    if not (isinstance(i, ast.If) and ast.unparse(i.test) == 'r1 < probs' and not i.orelse and i.body
            and ast.unparse(i.body[0]) == 'k += 1'):
        raise TranslationError(FILE, i, 'selection is not `if r1 < probs: k += 1; ...`')
    for st in i.body[1:]:
        for n in ast.walk(st):
            if isinstance(n, (ast.Assign, ast.AugAssign)):
                for t in (n.targets if isinstance(n, ast.Assign) else [n.target]):
                    if isinstance(t, ast.Name) and t.id in ('k', 'total'):
                        raise TranslationError(FILE, n, '`%s` is written again inside the selection branch' % t.id)
    # EPSILON
    ctree, _ = parse(repo, CONST)
    eps = None
    for n in ctree.body:
        if isinstance(n, ast.Assign) and ast.unparse(n.targets[0]) == 'EPSILON':
            eps = dec(n.value)
    if eps is None:
        raise TranslationError(CONST, None, 'EPSILON not found')
    text = '\n'.join([HEADER, 'From Coq Require Import QArith.', 'Open Scope Q_scope.', '',
                      '(* %s:%d: %s *)' % (FILE, p.lineno, ' '.join(ast.unparse(p).split())),
                      'Definition onl_prob (fit total eps : Q) : Q := %s.' % pe,
                      'Definition onl_lo : Q := %s.   (* r1 = uniform(lo, hi) *)' % q(lo),
                      'Definition onl_hi : Q := %s.' % q(hi),
                      'Definition onl_eps : Q := %s.  (* utils/constants.py EPSILON *)' % q(eps), ''])
    return text, {'file': FILE, 'line': p.lineno, 'text': ast.unparse(p), 'lo': str(lo), 'hi': str(hi), 'eps': str(eps)}
