"""T3 (benchmark functions, C17): fail-closed `ast` translator of opytimizer/math/benchmark.py.

For every active (top-level, not commented-out) function f it produces two terms of the deep-embedded
real-expression language of coq/theories/Base/RExprBench.v:

  code_f  from the Python body: temporaries inlined, `x.shape[0]` -> n, element-wise NumPy arithmetic on the
          argument array -> an expression in the current element, `np.sum/np.prod` -> Sum/Prod over the array,
          the slices `x[:-1]` / `x[1:]` (Brown) -> x_i / x_{i+1} under a sum over adjacent pairs, calls to other
          benchmark functions (`sphere(x)`) inlined;
  doc_f   from the `y = ...` line of the docstring, by a small recursive-descent parser of the docstring maths
          (`^`, implicit products `3x^4`, `x_i`, `x_{i+1}`, `pi/PI/e/n`, free symbols such as Rastrigin's `A`
          bound from the constants assigned in the body).

Anything not understood raises TranslationError (never guessed, never skipped).  Nothing from /repo is imported
or executed.  Both terms use the same conventions (Python operator precedence, `-c` of a literal is the literal
`-c`, a literal non-negative integer exponent is an integer power, every other exponent a real power).

The trees are also returned as JSON-able nested lists for the harness (float evaluation of code_f / doc_f)."""
import ast
import os
import re
from fractions import Fraction

from translate.common import TranslationError, HEADER

REL = 'opytimizer/math/benchmark.py'

UNARY_FUN = {'sqrt': 'sqrt', 'exp': 'exp', 'sin': 'sin', 'cos': 'cos', 'fabs': 'abs', 'abs': 'abs', 'absolute': 'abs'}
COQ_CON = {'Z': 'BZ', 'Q': 'BQ', 'pi': 'BPi', 'e': 'BE', 'n': 'BN', 'x': 'BX', 'xn': 'BXn', 'neg': 'BNeg', 'add': 'BAdd',
           'sub': 'BSub', 'mul': 'BMul', 'div': 'BDiv', 'pown': 'BPowN', 'powr': 'BPowR', 'sqrt': 'BSqrt', 'exp': 'BExp',
           'sin': 'BSin', 'cos': 'BCos', 'abs': 'BAbs', 'sum': 'BSum', 'prod': 'BProd', 'sumpairs': 'BSumPairs'}
AGG = ('sum', 'prod', 'sumpairs')


# ------------------------------------------------------------------ shared constructors

def mk_num(text, file, node):
    """Decimal literal (source text) -> exact rational tree."""
    try:
        q = Fraction(text.replace('_', ''))
    except (ValueError, ZeroDivisionError):
        raise TranslationError(file, node, 'unsupported numeric literal %r' % text)
    if q.denominator == 1:
        return ['Z', int(q.numerator)]
    return ['Q', int(q.numerator), int(q.denominator)]


def mk_neg(t):
    if t[0] == 'Z':
        return ['Z', -t[1]]
    if t[0] == 'Q':
        return ['Q', -t[1], t[2]]
    return ['neg', t]


def mk_pow(a, b):
    if b[0] == 'Z' and b[1] >= 0:
        return ['pown', a, b[1]]
    return ['powr', a, b]


def contains(t, tag, under_agg=True):
    if not isinstance(t, list):
        return False
    if t[0] == tag:
        return True
    if not under_agg and t[0] in AGG:
        return False
    return any(contains(c, tag, under_agg) for c in t[1:])


def subst_x(t, new):
    """Replace the free element variable x by `new` (not under a nested aggregate, which rebinds it)."""
    if not isinstance(t, list):
        return t
    if t[0] == 'x':
        return list(new)
    if t[0] in AGG:
        return t
    return [t[0]] + [subst_x(c, new) for c in t[1:]]


def to_coq(t):
    h = t[0]
    if h == 'Z':
        return '(BZ (%d))' % t[1]
    if h == 'Q':
        return '(BQ (%d) %d)' % (t[1], t[2])
    if h in ('pi', 'e', 'n', 'x', 'xn'):
        return COQ_CON[h]
    if h == 'pown':
        return "(BPowN %s %d%%nat)" % (to_coq(t[1]), t[2])
    return '(%s %s)' % (COQ_CON[h], ' '.join(to_coq(c) for c in t[1:]))


def to_text(t):
    """Human-readable rendering (for samples / reports)."""
    h = t[0]
    if h == 'Z':
        return str(t[1])
    if h == 'Q':
        return '%d/%d' % (t[1], t[2])
    if h in ('pi', 'e', 'n'):
        return h
    if h == 'x':
        return 'x_i'
    if h == 'xn':
        return 'x_{i+1}'
    if h == 'neg':
        return '-(%s)' % to_text(t[1])
    if h in ('add', 'sub', 'mul', 'div'):
        return '(%s %s %s)' % (to_text(t[1]), {'add': '+', 'sub': '-', 'mul': '*', 'div': '/'}[h], to_text(t[2]))
    if h == 'pown':
        return '%s^%d' % (to_text(t[1]), t[2])
    if h == 'powr':
        return '%s^^(%s)' % (to_text(t[1]), to_text(t[2]))
    return '%s(%s)' % (h, to_text(t[1]))


# ------------------------------------------------------------------ code side

class CodeTr:
    def __init__(self, file, src, funcs):
        self.file = file
        self.src = src
        self.funcs = funcs          # name -> ast.FunctionDef
        self.memo = {}              # name -> (tree, consts)
        self.stack = []

    def err(self, node, msg):
        raise TranslationError(self.file, node, msg)

    def function(self, name, node=None):
        if name in self.memo:
            return self.memo[name]
        if name in self.stack:
            self.err(node, 'recursive benchmark function %s' % name)
        fn = self.funcs[name]
        self.stack.append(name)
        a = fn.args
        if (len(a.args) != 1 or a.vararg or a.kwarg or a.kwonlyargs or a.defaults or getattr(a, 'posonlyargs', None)
                or fn.decorator_list):
            self.err(fn, 'benchmark function must take exactly one positional argument')
        arg = a.args[0].arg
        env = {arg: ('v', ['x'])}
        consts = {}
        ret = None
        body = list(fn.body)
        if body and isinstance(body[0], ast.Expr) and isinstance(body[0].value, ast.Constant) and isinstance(body[0].value.value, str):
            body = body[1:]
        for i, s in enumerate(body):
            if ret is not None:
                self.err(s, 'statement after return')
            if isinstance(s, ast.Assign):
                if len(s.targets) != 1 or not isinstance(s.targets[0], ast.Name):
                    self.err(s, 'only simple assignments `name = expr` are supported')
                tgt = s.targets[0].id
                if tgt == arg:
                    self.err(s, 'the argument array is reassigned')
                val = self.expr(s.value, env, arg)
                env[tgt] = val
                if val[0] == 's' and val[1][0] in ('Z', 'Q'):
                    consts[tgt] = val[1]
                else:
                    consts.pop(tgt, None)
            elif isinstance(s, ast.AugAssign):
                if not isinstance(s.target, ast.Name) or s.target.id == arg or s.target.id not in env:
                    self.err(s, 'unsupported augmented assignment')
                fake = ast.BinOp(left=ast.Name(id=s.target.id, ctx=ast.Load()), op=s.op, right=s.value)
                ast.copy_location(fake, s)
                ast.copy_location(fake.left, s)
                env[s.target.id] = self.expr(fake, env, arg)
                consts.pop(s.target.id, None)
            elif isinstance(s, ast.Return):
                if s.value is None:
                    self.err(s, 'return without a value')
                k, t = self.expr(s.value, env, arg)
                if k != 's':
                    self.err(s, 'the function returns an array, not a number')
                ret = t
            elif isinstance(s, ast.Pass):
                continue
            else:
                self.err(s, 'unsupported statement %s' % type(s).__name__)
        if ret is None:
            self.err(fn, 'no return statement')
        if contains(ret, 'x', under_agg=False) or contains(ret, 'xn', under_agg=False):
            self.err(fn, 'internal: element variable escapes its aggregate')
        self.stack.pop()
        self.memo[name] = (ret, consts)
        return self.memo[name]

    # kinds: 's' number, 'v' array of the shape of x, 'p' array over adjacent pairs (length n-1)
    def join(self, node, ka, kb):
        ks = {ka, kb}
        if ks == {'s'}:
            return 's'
        if 'v' in ks and 'p' in ks:
            self.err(node, 'operands of different lengths (full array against a shifted slice)')
        return 'v' if 'v' in ks else 'p'

    def expr(self, e, env, arg):
        if isinstance(e, ast.Constant):
            if isinstance(e.value, bool) or not isinstance(e.value, (int, float)):
                self.err(e, 'unsupported constant %r' % (e.value,))
            text = ast.get_source_segment(self.src, e) or repr(e.value)
            return ('s', mk_num(text, self.file, e))
        if isinstance(e, ast.Name):
            if e.id in env:
                return env[e.id]
            self.err(e, 'unknown name %s' % e.id)
        if isinstance(e, ast.Attribute):
            if isinstance(e.value, ast.Name) and e.value.id in ('np', 'numpy', 'math') and e.value.id not in env:
                if e.attr == 'pi':
                    return ('s', ['pi'])
                if e.attr == 'e':
                    return ('s', ['e'])
            if e.attr == 'size' and isinstance(e.value, ast.Name) and e.value.id == arg:
                return ('s', ['n'])
            self.err(e, 'unsupported attribute %s' % ast.unparse(e))
        if isinstance(e, ast.Subscript):
            # x.shape[0]
            if (isinstance(e.value, ast.Attribute) and e.value.attr == 'shape' and isinstance(e.value.value, ast.Name)
                    and e.value.value.id == arg and isinstance(e.slice, ast.Constant) and e.slice.value == 0
                    and not isinstance(e.slice.value, bool)):
                return ('s', ['n'])
            if isinstance(e.slice, ast.Slice):
                k, t = self.expr(e.value, env, arg)
                if k != 'v':
                    self.err(e, 'slice of something that is not a full-length array')
                sl = e.slice
                if sl.step is not None:
                    self.err(e, 'slice with a step')
                lo = self.int_const(sl.lower)
                hi = self.int_const(sl.upper)
                if lo is None and hi == -1:
                    return ('p', t)                       # x[:-1]  -> x_i over pairs
                if lo == 1 and hi is None:
                    return ('p', subst_x(t, ['xn']))      # x[1:]   -> x_{i+1} over pairs
                self.err(e, 'unsupported slice (only [:-1] and [1:])')
            self.err(e, 'unsupported subscript %s' % ast.unparse(e))
        if isinstance(e, ast.UnaryOp):
            k, t = self.expr(e.operand, env, arg)
            if isinstance(e.op, ast.USub):
                return (k, mk_neg(t))
            if isinstance(e.op, ast.UAdd):
                return (k, t)
            self.err(e, 'unsupported unary operator')
        if isinstance(e, ast.BinOp):
            ka, a = self.expr(e.left, env, arg)
            kb, b = self.expr(e.right, env, arg)
            k = self.join(e, ka, kb)
            if isinstance(e.op, ast.Add):
                return (k, ['add', a, b])
            if isinstance(e.op, ast.Sub):
                return (k, ['sub', a, b])
            if isinstance(e.op, ast.Mult):
                return (k, ['mul', a, b])
            if isinstance(e.op, ast.Div):
                return (k, ['div', a, b])
            if isinstance(e.op, ast.Pow):
                return (k, mk_pow(a, b))
            self.err(e, 'unsupported binary operator %s' % type(e.op).__name__)
        if isinstance(e, ast.Call):
            if e.keywords:
                self.err(e, 'keyword arguments are not supported')
            f = e.func
            # np.f(...)
            if isinstance(f, ast.Attribute) and isinstance(f.value, ast.Name) and f.value.id in ('np', 'numpy') and f.value.id not in env:
                return self.np_call(e, f.attr, e.args, env, arg)
            # y.sum() / y.prod()
            if isinstance(f, ast.Attribute) and f.attr in ('sum', 'prod') and not e.args:
                k, t = self.expr(f.value, env, arg)
                return self.aggregate(e, f.attr, k, t)
            if isinstance(f, ast.Name) and f.id == 'len' and len(e.args) == 1 and isinstance(e.args[0], ast.Name) \
                    and e.args[0].id == arg and 'len' not in env:
                return ('s', ['n'])
            if isinstance(f, ast.Name) and f.id in ('abs',) and len(e.args) == 1 and f.id not in env:
                k, t = self.expr(e.args[0], env, arg)
                return (k, ['abs', t])
            # another benchmark function applied to the whole argument array
            if isinstance(f, ast.Name) and f.id in self.funcs and f.id not in env:
                if len(e.args) != 1 or not (isinstance(e.args[0], ast.Name) and env.get(e.args[0].id) == ('v', ['x'])):
                    self.err(e, 'call of %s on something other than the argument array' % f.id)
                t, _ = self.function(f.id, e)
                return ('s', t)
            self.err(e, 'unsupported call %s' % ast.unparse(f))
        self.err(e, 'unsupported expression %s' % type(e).__name__)

    def int_const(self, n):
        if n is None:
            return None
        if isinstance(n, ast.Constant) and isinstance(n.value, int) and not isinstance(n.value, bool):
            return n.value
        if isinstance(n, ast.UnaryOp) and isinstance(n.op, ast.USub) and isinstance(n.operand, ast.Constant) \
                and isinstance(n.operand.value, int) and not isinstance(n.operand.value, bool):
            return -n.operand.value
        self.err(n, 'non-literal slice bound')

    def aggregate(self, node, which, k, t):
        if k == 'v':
            return ('s', [which, t])
        if k == 'p':
            if which == 'sum':
                return ('s', ['sumpairs', t])
            self.err(node, 'product over a shifted slice is not supported')
        self.err(node, 'np.%s of a number' % which)

    def np_call(self, node, name, args, env, arg):
        if name in UNARY_FUN and len(args) == 1:
            k, t = self.expr(args[0], env, arg)
            return (k, [UNARY_FUN[name], t])
        if name in ('sum', 'prod') and len(args) == 1:
            k, t = self.expr(args[0], env, arg)
            return self.aggregate(node, name, k, t)
        if name == 'square' and len(args) == 1:
            k, t = self.expr(args[0], env, arg)
            return (k, ['pown', t, 2])
        if name == 'power' and len(args) == 2:
            ka, a = self.expr(args[0], env, arg)
            kb, b = self.expr(args[1], env, arg)
            return (self.join(node, ka, kb), mk_pow(a, b))
        if name == 'mean' and len(args) == 1:
            k, t = self.expr(args[0], env, arg)
            if k != 'v':
                self.err(node, 'np.mean of something that is not a full-length array')
            return ('s', ['div', ['sum', t], ['n']])
        self.err(node, 'unsupported NumPy function np.%s/%d' % (name, len(args)))


# ------------------------------------------------------------------ docstring side

TOK = re.compile(r'''\s*(?:
    (?P<xn>x_\{\s*i\s*\+\s*1\s*\}) |
    (?P<xi>x_i\b|x_\{\s*i\s*\}) |
    (?P<num>\d+(?:\.\d+)?(?:[eE][-+]?\d+)?) |
    (?P<id>[A-Za-z][A-Za-z0-9]*) |
    (?P<op>\*\*|[-+*/^()])
)''', re.X)


class DocParser:
    def __init__(self, file, line, text, consts):
        self.file = file
        self.line = line
        self.text = text
        self.consts = consts
        self.toks = []       # (kind, value, adjacent_to_previous)
        pos = 0
        while pos < len(text):
            if text[pos:].strip() == '':
                break
            m = TOK.match(text, pos)
            if not m:
                self.err('cannot read the formula at %r' % text[pos:pos + 20])
            kind = m.lastgroup
            adjacent = m.start(kind) == pos and pos > 0
            self.toks.append((kind, m.group(kind), adjacent))
            pos = m.end()
        self.i = 0
        self.depth = 0       # > 0 inside sum/prod

    def err(self, msg):
        raise TranslationError(self.file, _Line(self.line), 'docstring formula %r: %s' % (self.text, msg))

    def peek(self):
        return self.toks[self.i] if self.i < len(self.toks) else (None, None, False)

    def take(self):
        t = self.peek()
        self.i += 1
        return t

    def expect(self, v):
        k, val, _ = self.take()
        if val != v:
            self.err('expected %r, found %r' % (v, val))

    def parse(self):
        t = self.expr()
        if self.i != len(self.toks):
            self.err('trailing input %r' % (self.peek()[1],))
        return t

    def expr(self):
        a = self.term()
        while self.peek()[1] in ('+', '-') and self.peek()[0] == 'op':
            op = self.take()[1]
            b = self.term()
            a = ['add' if op == '+' else 'sub', a, b]
        return a

    def term(self):
        a = self.factor()
        while self.peek()[0] == 'op' and self.peek()[1] in ('*', '/'):
            op = self.take()[1]
            b = self.factor()
            a = ['mul' if op == '*' else 'div', a, b]
        return a

    def factor(self):
        k, v, _ = self.peek()
        if k == 'op' and v == '-':
            self.take()
            return mk_neg(self.factor())
        if k == 'op' and v == '+':
            self.take()
            return self.factor()
        return self.power()

    def power(self):
        a = self.primary()
        k, v, _ = self.peek()
        if k == 'op' and v in ('^', '**'):
            self.take()
            b = self.factor()
            return mk_pow(a, b)
        return a

    def primary(self):
        k, v, _ = self.take()
        if k is None:
            self.err('unexpected end of formula')
        if k == 'num':
            num = mk_num(v, self.file, _Line(self.line))
            k2, v2, adj = self.peek()
            if adj and (k2 in ('id', 'xi', 'xn') or (k2 == 'op' and v2 == '(')):
                return ['mul', num, self.power()]        # implicit product: 3x^4 = 3 * x^4
            return num
        if k == 'xi':
            if self.depth == 0:
                self.err('x_i outside sum/prod')
            return ['x']
        if k == 'xn':
            if self.depth == 0:
                self.err('x_{i+1} outside sum/prod')
            return ['xn']
        if k == 'op' and v == '(':
            a = self.expr()
            self.expect(')')
            return a
        if k == 'id':
            k2, v2, _ = self.peek()
            if k2 == 'op' and v2 == '(':
                self.take()
                if v in ('sum', 'prod'):
                    self.depth += 1
                    a = self.expr()
                    self.depth -= 1
                    self.expect(')')
                    if contains(a, 'xn', under_agg=False):
                        if v != 'sum':
                            self.err('product over adjacent pairs is not supported')
                        return ['sumpairs', a]
                    return [v, a]
                if v in UNARY_FUN:
                    a = self.expr()
                    self.expect(')')
                    return [UNARY_FUN[v], a]
                self.err('unknown function %s(...)' % v)
            if v == 'x':
                if self.depth == 0:
                    self.err('x outside sum/prod')
                return ['x']
            if v == 'n':
                return ['n']
            if v in ('pi', 'PI', 'Pi'):
                return ['pi']
            if v == 'e':
                return ['e']
            if v in self.consts:
                return list(self.consts[v])
            self.err('free symbol %s is not a constant of the function body' % v)
        self.err('unexpected %r' % v)


class _Line:
    def __init__(self, lineno):
        self.lineno = lineno


def doc_info(file, fn):
    """Formula text + line, documented box and documented minimum text from the docstring."""
    if not (fn.body and isinstance(fn.body[0], ast.Expr) and isinstance(fn.body[0].value, ast.Constant)
            and isinstance(fn.body[0].value.value, str)):
        raise TranslationError(file, fn, 'function %s has no docstring' % fn.name)
    docnode = fn.body[0].value
    lines = docnode.value.split('\n')
    first = docnode.lineno
    formula = None
    for j, l in enumerate(lines):
        m = re.match(r'^\s*(?:y|f\s*\(\s*x\s*\))\s*=\s*(.*\S)\s*$', l)
        if m:
            if formula is not None:
                raise TranslationError(file, _Line(first + j), 'two formula lines in the docstring of %s' % fn.name)
            text = m.group(1)
            k = j + 1
            while k < len(lines) and lines[k].strip():       # continuation lines
                text += ' ' + lines[k].strip()
                k += 1
            formula = (text, first + j)
    if formula is None:
        raise TranslationError(file, docnode, 'no `y = ...` formula line in the docstring of %s' % fn.name)
    whole = ' '.join(x.strip() for x in lines)
    mb = re.search(r'within \[\s*(-?[0-9.]+)\s*,\s*(-?[0-9.]+)\s*\] bounds', whole)
    if not mb:
        raise TranslationError(file, docnode, 'no documented box `within [a, b] bounds` in the docstring of %s' % fn.name)
    mm = re.search(r'has minimum at (.*?)\.\s', whole + ' ')
    if not mm:
        raise TranslationError(file, docnode, 'no documented minimum in the docstring of %s' % fn.name)
    return formula[0], formula[1], [mb.group(1), mb.group(2)], mm.group(1).strip()


# ------------------------------------------------------------------ driver

def generate(repo):
    """Returns (coq_text, items, errors, trees)."""
    path = os.path.join(repo, REL)
    items, errors, trees = [], [], {}
    try:
        src = open(path).read()
        mod = ast.parse(src, filename=REL)
    except (OSError, SyntaxError) as ex:
        errors.append({'item': 'benchmark.py', 'file': REL, 'line': getattr(ex, 'lineno', 0) or 0, 'msg': 'cannot parse: %s' % ex})
        return HEADER, items, errors, trees
    funcs = {}
    for s in mod.body:
        if isinstance(s, ast.FunctionDef):
            if s.name in funcs:
                errors.append({'item': s.name, 'file': REL, 'line': s.lineno, 'msg': 'defined twice'})
            funcs[s.name] = s
        elif isinstance(s, (ast.Import, ast.ImportFrom)):
            names = [(a.name, a.asname) for a in s.names]
            if not (isinstance(s, ast.Import) and names == [('numpy', 'np')]):
                errors.append({'item': 'imports', 'file': REL, 'line': s.lineno, 'msg': 'unexpected import %s' % ast.unparse(s)})
        elif isinstance(s, ast.Expr) and isinstance(s.value, ast.Constant) and isinstance(s.value.value, str):
            continue
        else:
            errors.append({'item': 'module', 'file': REL, 'line': s.lineno,
                           'msg': 'unexpected module-level statement %s' % type(s).__name__})
    tr = CodeTr(REL, src, funcs)
    out = [HEADER, '(* source: %s *)' % REL, 'From Coq Require Import ZArith List String.',
           'From OV Require Import Base.RExprBench.', 'Import ListNotations.', 'Open Scope Z_scope.', '']
    done = []
    for name in sorted(funcs):
        fn = funcs[name]
        try:
            tr.stack = []
            code, consts = tr.function(name)
            text, dline, box, dmin = doc_info(REL, fn)
            doc = DocParser(REL, dline, text, consts).parse()
        except TranslationError as ex:
            errors.append({'item': name, 'file': ex.file, 'line': ex.line, 'msg': ex.msg})
            continue
        ccode, cdoc = to_coq(code), to_coq(doc)
        out.append('(* %s:%d  def %s *)' % (REL, fn.lineno, name))
        out.append('Definition code_%s : bexpr :=\n  %s.' % (name, ccode))
        out.append('(* %s:%d  y = %s *)' % (REL, dline, text.replace('*)', '* )').replace('(*', '( *')))
        out.append('Definition doc_%s : bexpr :=\n  %s.\n' % (name, cdoc))
        items.append({'name': name, 'file': REL, 'line': fn.lineno, 'doc_line': dline, 'doc_formula': text,
                      'code': to_text(code), 'doc': to_text(doc), 'identical': code == doc,
                      'text': 'code_%s := %s' % (name, ccode)})
        trees[name] = {'code': code, 'doc': doc, 'box': box, 'doc_min': dmin, 'line': fn.lineno, 'doc_line': dline,
                       'doc_formula': text, 'n_min': 2 if contains(code, 'sumpairs') or contains(doc, 'sumpairs') else 1}
        done.append(name)
    out.append('Definition bench_functions : list string := [%s]%%string.' % '; '.join('"%s"' % n for n in done))
    out.append('Definition bench_table : list (string * (bexpr * bexpr)) := [%s]%%string.' %
               '; '.join('("%s", (code_%s, doc_%s))' % (n, n, n) for n in done))
    return '\n'.join(out) + '\n', items, errors, trees


if __name__ == '__main__':
    import sys
    import json
    text, items, errors, trees = generate(sys.argv[1] if len(sys.argv) > 1 else '/repo')
    print(text)
    for it in items:
        print('%-18s identical=%s' % (it['name'], it['identical']), file=sys.stderr)
    print(json.dumps(errors, indent=1), file=sys.stderr)
