"""Shape check of Opytimizer.start (opytimizer/opytimizer.py), fail-closed.

start() must be exactly:  start = time.time();  h = self.optimizer.run(self.space, self.function, store_best_only,
pre_evaluation_hook);  end = time.time();  t = end - start;  h.dump(time=t);  return h   (logging calls ignored).
-> descriptor used by C03 (hook and flag passed through unchanged), C04 (exactly one `time` entry, = end - start with
`end` read after and `start` read before the run) and C05 (the clock only flows into the `time` entry)."""
import ast
from .common import TranslationError, parse, find_class, find_func

FILE = 'opytimizer/opytimizer.py'


def _is_time_call(n):
    return (isinstance(n, ast.Call) and isinstance(n.func, ast.Attribute) and n.func.attr == 'time'
            and isinstance(n.func.value, ast.Name) and n.func.value.id == 'time' and not n.args and not n.keywords)


def _is_logger(st):
    from translate.common import is_logger_call
    return is_logger_call(st, FILE)


def check(repo):
    tree, src = parse(repo, FILE)
    cls = find_class(tree, 'Opytimizer')
    if cls is None:
        raise TranslationError(FILE, None, 'class Opytimizer not found')
    fn = find_func(cls, 'start')
    if fn is None:
        raise TranslationError(FILE, cls, 'Opytimizer.start not found')
    params = [a.arg for a in fn.args.args]
    if params != ['self', 'store_best_only', 'pre_evaluation_hook']:
        raise TranslationError(FILE, fn, 'unexpected parameters of start: %r' % params)
    defaults = [ast.dump(d) for d in fn.args.defaults]
    if defaults != [ast.dump(ast.Constant(False)), ast.dump(ast.Constant(None))]:
        raise TranslationError(FILE, fn, 'unexpected defaults of start')
    body = [s for s in fn.body if not _is_logger(s)
            and not (isinstance(s, ast.Expr) and isinstance(s.value, ast.Constant) and isinstance(s.value.value, str))]
    kinds = []
    names = {}
    for st in body:
        if isinstance(st, ast.Assign) and len(st.targets) == 1 and isinstance(st.targets[0], ast.Name):
            name = st.targets[0].id
            v = st.value
            if _is_time_call(v):
                kinds.append('clock')
                names[name] = ('clock', len([k for k in kinds if k == 'clock']))
                continue
            if (isinstance(v, ast.Call) and isinstance(v.func, ast.Attribute) and v.func.attr == 'run'
                    and ast.unparse(v.func.value) == 'self.optimizer'):
                args = [ast.unparse(a) for a in v.args]
                if args != ['self.space', 'self.function', 'store_best_only', 'pre_evaluation_hook'] or v.keywords:
                    raise TranslationError(FILE, st, 'run() is not called with (self.space, self.function, store_best_only, pre_evaluation_hook): %r' % args)
                kinds.append('run')
                names[name] = ('history', 0)
                continue
            if isinstance(v, ast.BinOp) and isinstance(v.op, ast.Sub) and _is_time_call(v.left) and isinstance(v.right, ast.Name) \
                    and names.get(v.right.id) == ('clock', 1) and 'run' in kinds:
                kinds.append('clock')            # the second clock read, inlined: t = time.time() - start
                kinds.append('elapsed')
                names[name] = ('elapsed', 0)
                continue
            if isinstance(v, ast.BinOp) and isinstance(v.op, ast.Sub) and isinstance(v.left, ast.Name) and isinstance(v.right, ast.Name):
                l, r = names.get(v.left.id), names.get(v.right.id)
                if l == ('clock', 2) and r == ('clock', 1):
                    kinds.append('elapsed')
                    names[name] = ('elapsed', 0)
                    continue
            raise TranslationError(FILE, st, 'unrecognised assignment in start(): %s' % ast.unparse(st))
        if isinstance(st, ast.Expr) and isinstance(st.value, ast.Call) and isinstance(st.value.func, ast.Attribute) \
                and st.value.func.attr == 'dump' and isinstance(st.value.func.value, ast.Name) \
                and names.get(st.value.func.value.id) == ('history', 0):
            kw = st.value.keywords
            if st.value.args or len(kw) != 1 or kw[0].arg != 'time' or not isinstance(kw[0].value, ast.Name) \
                    or names.get(kw[0].value.id) != ('elapsed', 0):
                raise TranslationError(FILE, st, 'start() must dump exactly time=<end - start>')
            kinds.append('dump_time')
            continue
        if isinstance(st, ast.Return) and isinstance(st.value, ast.Name) and names.get(st.value.id) == ('history', 0):
            kinds.append('return')
            continue
        raise TranslationError(FILE, st, 'unrecognised statement in start(): %s' % ast.unparse(st)[:80])
    if kinds != ['clock', 'run', 'clock', 'elapsed', 'dump_time', 'return']:
        raise TranslationError(FILE, fn, 'start() has not the shape clock; run; clock; elapsed; dump(time); return: %r' % kinds)
    return {'file': FILE, 'line': fn.lineno, 'shape': kinds,
            'text': 'start = time.time(); h = self.optimizer.run(self.space, self.function, store_best_only, pre_evaluation_hook); '
                    'end = time.time(); h.dump(time=end - start); return h'}
