"""T3 (C10, C13): arithmetic bodies whose *value* matters -> terms of Base/RExprC10.v.

  generate_nodeops(repo) -> Gen/NodeOps.v : the operator dispatch of core/node.py `_evaluate`
      (if/elif chain in source order, which child is x / y, terminal test), `N_ARGS_FUNCTION`
      and `EPSILON` (exact rational of the decimal literal) of utils/constants.py.
  generate_span(repo)    -> Gen/Span.v    : math/hypercomplex.py `norm` (reduced axis) and `span`
      (the affine map; EVar 0 = lb_j, 1 = ub_j, 2 = norm(array)_j, 3 = shape[0], 4 = shape[1]).

Pure `ast`; nothing from /repo is imported or executed.  Fail-closed: any statement or expression
outside the recognised subset raises TranslationError (-> broken obligation in props/C10.py, C13.py).
"""
import ast
from fractions import Fraction
from .common import TranslationError, parse, find_class, find_func, src_of, coq_str, coq_bool, HEADER

NUMPY_UNARY = {'exp': 'EExp', 'sqrt': 'ESqrt', 'log': 'ELn', 'abs': 'EAbs', 'absolute': 'EAbs', 'fabs': 'EAbs',
               'sin': 'ESin', 'cos': 'ECos', 'negative': 'ENeg'}
NUMPY_BINARY = {'add': 'EAdd', 'subtract': 'ESub', 'multiply': 'EMul', 'divide': 'EDiv', 'true_divide': 'EDiv'}
BINOPS = {ast.Add: 'EAdd', ast.Sub: 'ESub', ast.Mult: 'EMul', ast.Div: 'EDiv'}


def module_aliases(tree):
    """import a.b.c as x / import numpy as np  ->  {alias: dotted module}"""
    out = {}
    for n in tree.body:
        if isinstance(n, ast.Import):
            for a in n.names:
                out[a.asname or a.name.split('.')[0]] = a.name if a.asname else a.name.split('.')[0]
    return out


def coq_cst(fr):
    return '(ECst (%d)%%Z %d%%positive)' % (fr.numerator, fr.denominator)


def literal_fraction(file, node, src):
    """Exact rational of a numeric literal as written (1e-10 -> 1/10^10, not the binary64 neighbour)."""
    v = node.value
    if isinstance(v, bool) or not isinstance(v, (int, float)):
        raise TranslationError(file, node, 'non-numeric constant %r' % (v,))
    if isinstance(v, int):
        return Fraction(v)
    text = (src_of(src, node) or repr(v)).replace('_', '')
    try:
        fr = Fraction(text)
    except ValueError:
        raise TranslationError(file, node, 'unparsable float literal %r' % text)
    if float(fr) != v:
        raise TranslationError(file, node, 'literal %r does not round to the parsed constant' % text)
    return fr


class Constants:
    """utils/constants.py: module-level NAME = <literal> assignments."""

    def __init__(self, repo):
        self.rel = 'opytimizer/utils/constants.py'
        self.tree, self.src = parse(repo, self.rel)
        self.assign = {}
        for n in self.tree.body:
            if isinstance(n, ast.Assign):
                for t in n.targets:
                    if isinstance(t, ast.Name):
                        if t.id in self.assign:
                            raise TranslationError(self.rel, n, '%s assigned twice' % t.id)
                        self.assign[t.id] = n
            elif isinstance(n, (ast.AugAssign, ast.AnnAssign)):
                raise TranslationError(self.rel, n, 'unexpected module-level statement')

    def number(self, name):
        n = self.assign.get(name)
        if n is None:
            raise TranslationError(self.rel, self.tree, 'constant %s not found' % name)
        v = n.value
        if isinstance(v, ast.UnaryOp) and isinstance(v.op, ast.USub) and isinstance(v.operand, ast.Constant):
            return -literal_fraction(self.rel, v.operand, self.src), n
        if not isinstance(v, ast.Constant):
            raise TranslationError(self.rel, n, '%s is not a numeric literal' % name)
        return literal_fraction(self.rel, v, self.src), n

    def n_args(self):
        """N_ARGS_FUNCTION, in insertion order, by restricted evaluation of its module-level assignment
        (literals folded through dict displays with ** unpacking, dict.fromkeys, dict(...), dict union, simple
        dict comprehensions over a literal sequence, and names of other such module-level constants)."""
        n = self.assign.get('N_ARGS_FUNCTION')
        if n is None:
            raise TranslationError(self.rel, self.tree, 'N_ARGS_FUNCTION assignment not found')
        v = self.fold(n.value, ('N_ARGS_FUNCTION',))
        if type(v) is not dict:
            raise TranslationError(self.rel, n, 'N_ARGS_FUNCTION is not a plain dict')
        out = []
        for k, a in v.items():
            if not (type(k) is str and type(a) is int and a >= 0):
                raise TranslationError(self.rel, n, 'N_ARGS_FUNCTION entries must be "NAME": <non-negative int>')
            out.append((k, a))
        return out, n

    def fold(self, e, busy=()):
        """Value of a constant expression; anything outside the recognised family raises TranslationError."""
        rel = self.rel

        def scalar(x):
            return type(x) in (str, int, float, bool) or x is None

        if isinstance(e, ast.Constant):
            if not scalar(e.value):
                raise TranslationError(rel, e, 'unsupported constant %r' % (e.value,))
            return e.value
        if isinstance(e, ast.UnaryOp) and isinstance(e.op, ast.USub) and isinstance(e.operand, ast.Constant) \
                and type(e.operand.value) in (int, float):
            return -e.operand.value
        if isinstance(e, (ast.List, ast.Tuple)):
            vals = []
            for x in e.elts:
                if isinstance(x, ast.Starred):
                    sv = self.fold(x.value, busy)
                    if type(sv) not in (list, tuple):
                        raise TranslationError(rel, x, 'unpacking of a non-sequence')
                    vals += list(sv)
                else:
                    vals.append(self.fold(x, busy))
            return vals if isinstance(e, ast.List) else tuple(vals)
        if isinstance(e, ast.Dict):
            d = {}
            literal_keys = []
            for k, x in zip(e.keys, e.values):
                if k is None:                       # ** unpacking: later entries override, first position is kept
                    sv = self.fold(x, busy)
                    if type(sv) is not dict:
                        raise TranslationError(rel, x, '** unpacking of a non-dict')
                    d.update(sv)
                else:
                    kk = self.fold(k, busy)
                    if not scalar(kk):
                        raise TranslationError(rel, k, 'unhashable / non-scalar key')
                    if kk in literal_keys:
                        raise TranslationError(rel, k, 'duplicate key %r' % (kk,))
                    literal_keys.append(kk)
                    d[kk] = self.fold(x, busy)
            return d
        if isinstance(e, ast.Name):
            if e.id in busy:
                raise TranslationError(rel, e, 'constant %s refers to itself' % e.id)
            a = self.assign.get(e.id)
            if a is None:
                raise TranslationError(rel, e, 'unknown name `%s` in a constant table' % e.id)
            return self.fold(a.value, busy + (e.id,))
        if isinstance(e, ast.BinOp) and isinstance(e.op, ast.BitOr):
            a, b = self.fold(e.left, busy), self.fold(e.right, busy)
            if type(a) is dict and type(b) is dict:
                return {**a, **b}
            raise TranslationError(rel, e, '`|` on non-dicts')
        if isinstance(e, ast.BinOp) and isinstance(e.op, ast.Add):
            a, b = self.fold(e.left, busy), self.fold(e.right, busy)
            if type(a) is type(b) and type(a) in (list, tuple):
                return a + b
            raise TranslationError(rel, e, '`+` on non-sequences in a constant table')
        if isinstance(e, ast.Call):
            f = e.func
            if isinstance(f, ast.Attribute) and f.attr == 'fromkeys' and isinstance(f.value, ast.Name) and f.value.id == 'dict' \
                    and 'dict' not in self.assign and not e.keywords and len(e.args) in (1, 2):
                ks = self.fold(e.args[0], busy)
                val = self.fold(e.args[1], busy) if len(e.args) == 2 else None
                if type(ks) not in (list, tuple) or not all(scalar(k) for k in ks) or not scalar(val):
                    raise TranslationError(rel, e, 'dict.fromkeys needs a literal sequence of scalar keys and a scalar value')
                return dict.fromkeys(ks, val)
            if isinstance(f, ast.Name) and f.id == 'dict' and 'dict' not in self.assign and len(e.args) <= 1:
                d = {}
                if e.args:
                    src = self.fold(e.args[0], busy)
                    if type(src) is dict:
                        d.update(src)
                    elif type(src) in (list, tuple) and all(type(p) in (list, tuple) and len(p) == 2 and scalar(p[0]) for p in src):
                        d.update((p[0], p[1]) for p in src)
                    else:
                        raise TranslationError(rel, e, 'dict(...) of something that is not a dict or a sequence of pairs')
                for kw in e.keywords:
                    if kw.arg is None:
                        sv = self.fold(kw.value, busy)
                        if type(sv) is not dict or not all(type(k) is str for k in sv):
                            raise TranslationError(rel, e, 'dict(**x) of a non-dict')
                        d.update(sv)
                    else:
                        d[kw.arg] = self.fold(kw.value, busy)
                return d
            raise TranslationError(rel, e, 'unrecognised call `%s` in a constant table' % ast.unparse(e)[:60])
        if isinstance(e, ast.DictComp) and len(e.generators) == 1:
            g = e.generators[0]
            if isinstance(g.target, ast.Name) and not g.ifs and not g.is_async and g.target.id not in self.assign:
                seq = self.fold(g.iter, busy)
                if type(seq) in (list, tuple) and all(scalar(x) for x in seq):
                    def item(x, val):
                        if isinstance(x, ast.Name) and x.id == g.target.id:
                            return val
                        if isinstance(x, ast.Constant):
                            return self.fold(x, busy)
                        raise TranslationError(rel, x, 'unsupported expression in a dict comprehension')
                    d = {}
                    for val in seq:
                        d[item(e.key, val)] = item(e.value, val)
                    return d
            raise TranslationError(rel, e, 'unsupported dict comprehension')
        raise TranslationError(rel, e, 'unsupported expression %s in a constant table' % type(e).__name__)


class ExprTr:
    """Python expression -> rexpr term (a string).  `env`: local name -> term; `hooks`: extra node handlers."""

    def __init__(self, file, src, aliases, consts, env, hook=None):
        self.file, self.src, self.aliases, self.consts, self.env, self.hook = file, src, aliases, consts, env, hook
        self.used_constants = {}

    def np_func(self, f):
        """np.<name> -> name"""
        if isinstance(f, ast.Attribute) and isinstance(f.value, ast.Name) and self.aliases.get(f.value.id) == 'numpy':
            return f.attr
        return None

    def tr(self, n):
        if self.hook is not None:
            r = self.hook(self, n)
            if r is not None:
                return r
        if isinstance(n, ast.Name):
            if n.id in self.env:
                return self.env[n.id]
            raise TranslationError(self.file, n, 'unknown name `%s`' % n.id)
        if isinstance(n, ast.Constant):
            return coq_cst(literal_fraction(self.file, n, self.src))
        if isinstance(n, ast.Attribute):
            if isinstance(n.value, ast.Name) and self.aliases.get(n.value.id) == 'opytimizer.utils.constants':
                fr, at = self.consts.number(n.attr)
                self.used_constants[n.attr] = (fr, at)
                return coq_cst(fr)
            raise TranslationError(self.file, n, 'unrecognised attribute `%s`' % ast.unparse(n))
        if isinstance(n, ast.BinOp):
            if type(n.op) in BINOPS:
                return '(%s %s %s)' % (BINOPS[type(n.op)], self.tr(n.left), self.tr(n.right))
            if isinstance(n.op, ast.Pow):
                if isinstance(n.right, ast.Constant) and isinstance(n.right.value, int) and not isinstance(n.right.value, bool) \
                        and 0 <= n.right.value <= 16:
                    return '(EPow %s %d)' % (self.tr(n.left), n.right.value)
                raise TranslationError(self.file, n, '** with a non-literal or large exponent')
            raise TranslationError(self.file, n, 'unsupported operator %s' % type(n.op).__name__)
        if isinstance(n, ast.UnaryOp):
            if isinstance(n.op, ast.USub):
                return '(ENeg %s)' % self.tr(n.operand)
            if isinstance(n.op, ast.UAdd):
                return self.tr(n.operand)
            raise TranslationError(self.file, n, 'unsupported unary operator')
        if isinstance(n, ast.Call):
            name = self.np_func(n.func)
            if name is None or n.keywords:
                raise TranslationError(self.file, n, 'unrecognised call `%s`' % ast.unparse(n)[:60])
            if name in NUMPY_UNARY and len(n.args) == 1:
                return '(%s %s)' % (NUMPY_UNARY[name], self.tr(n.args[0]))
            if name in NUMPY_BINARY and len(n.args) == 2:
                return '(%s %s %s)' % (NUMPY_BINARY[name], self.tr(n.args[0]), self.tr(n.args[1]))
            if name == 'square' and len(n.args) == 1:
                return '(EPow %s 2)' % self.tr(n.args[0])
            raise TranslationError(self.file, n, 'unrecognised NumPy call np.%s/%d' % (name, len(n.args)))
        raise TranslationError(self.file, n, 'unsupported expression %s' % type(n).__name__)


def fn_body(fn):
    out = []
    for i, s in enumerate(fn.body):
        if i == 0 and isinstance(s, ast.Expr) and isinstance(s.value, ast.Constant) and isinstance(s.value.value, str):
            continue
        if isinstance(s, ast.Pass):
            continue
        out.append(s)
    return out


def is_attr_of(n, obj, attr):
    return isinstance(n, ast.Attribute) and n.attr == attr and isinstance(n.value, ast.Name) and n.value.id == obj


# ------------------------------------------------------------------------------------------ C10

def stores_in(fn, local_ok, np_names=('np',)):
    """Every construct of `fn` that could write outside its own locals (purity audit, independent of the
    structural translation): attribute/subscript stores, augmented assignment, del, global, calls other than
    the recursion and np.<ufunc> without keywords."""
    out = []
    for n in ast.walk(fn):
        if isinstance(n, (ast.Attribute, ast.Subscript)) and isinstance(n.ctx, (ast.Store, ast.Del)):
            out.append('%d: store to %s' % (n.lineno, ast.unparse(n)))
        elif isinstance(n, ast.Name) and isinstance(n.ctx, (ast.Store, ast.Del)) and n.id not in local_ok:
            out.append('%d: assignment to %s' % (n.lineno, n.id))
        elif isinstance(n, (ast.AugAssign, ast.Delete, ast.Global, ast.Nonlocal, ast.With, ast.Try, ast.While, ast.For,
                            ast.Lambda, ast.Yield, ast.YieldFrom, ast.Await, ast.NamedExpr)):
            out.append('%d: %s' % (n.lineno, type(n).__name__))
        elif isinstance(n, ast.Call):
            f = n.func
            if isinstance(f, ast.Name) and f.id == fn.name:
                continue
            if isinstance(f, ast.Attribute) and isinstance(f.value, ast.Name) and f.value.id in np_names and not n.keywords \
                    and (f.attr in NUMPY_UNARY or f.attr in NUMPY_BINARY or f.attr == 'square'):
                continue
            out.append('%d: call %s' % (n.lineno, ast.unparse(f)))
    return out


def always_returns(stmts):
    if not stmts:
        return False
    last = stmts[-1]
    if isinstance(last, (ast.Return, ast.Raise)):
        return True
    return isinstance(last, ast.If) and always_returns(last.body) and always_returns(last.orelse)


def lower_returns(stmts, rel='opytimizer/core/node.py'):
    """Early returns -> if/else: in  `if c: A` + rest  where A always returns, rest is the else branch (and
    symmetrically when only the else branch always returns).  A pure restructuring of control flow: the set of
    paths, the order of evaluation on each path and what each path returns are unchanged.  Statements that follow a
    block that always returns are unreachable and rejected."""
    out = []
    for i, s in enumerate(stmts):
        rest = stmts[i + 1:]
        if isinstance(s, ast.If):
            body, orelse = list(s.body), list(s.orelse)
            if rest and always_returns(body) and always_returns(orelse):
                raise TranslationError(rel, rest[0], 'unreachable statements after an if/else that always returns')
            if rest and always_returns(body):
                new = ast.If(test=s.test, body=lower_returns(body, rel), orelse=lower_returns(orelse + rest, rel))
                out.append(ast.copy_location(new, s))
                return out
            if rest and orelse and always_returns(orelse):
                new = ast.If(test=s.test, body=lower_returns(body + rest, rel), orelse=lower_returns(orelse, rel))
                out.append(ast.copy_location(new, s))
                return out
            new = ast.If(test=s.test, body=lower_returns(body, rel), orelse=lower_returns(orelse, rel))
            out.append(ast.copy_location(new, s))
        else:
            if isinstance(s, (ast.Return, ast.Raise)) and rest:
                raise TranslationError(rel, rest[0], 'unreachable statements after a return')
            out.append(s)
    return out


def nodeops(repo):
    """-> dict with the pieces of Gen/NodeOps.v; raises TranslationError."""
    rel = 'opytimizer/core/node.py'
    tree, src = parse(repo, rel)
    aliases = module_aliases(tree)
    consts = Constants(repo)
    items = []
    fn = find_func(tree, '_evaluate')
    if fn is None:
        raise TranslationError(rel, tree, '_evaluate not found')
    a = fn.args
    if len(a.args) != 1 or a.vararg or a.kwarg or a.kwonlyargs or a.defaults or fn.decorator_list:
        raise TranslationError(rel, fn, '_evaluate must take exactly one positional parameter')
    node = a.args[0].arg
    body = lower_returns(fn_body(fn), rel)
    # if node: ... else: return None
    def none_test(t):
        # `if node:` (Node defines neither __bool__ nor __len__, checked below) or `if node is not None:`
        if isinstance(t, ast.Name) and t.id == node:
            return True
        return (isinstance(t, ast.Compare) and isinstance(t.left, ast.Name) and t.left.id == node and len(t.ops) == 1
                and isinstance(t.ops[0], ast.IsNot) and isinstance(t.comparators[0], ast.Constant) and t.comparators[0].value is None)

    def is_none_test(t):
        # `if not node:` / `if node is None:`
        if isinstance(t, ast.UnaryOp) and isinstance(t.op, ast.Not):
            return none_test(t.operand)
        return (isinstance(t, ast.Compare) and isinstance(t.left, ast.Name) and t.left.id == node and len(t.ops) == 1
                and isinstance(t.ops[0], ast.Is) and isinstance(t.comparators[0], ast.Constant) and t.comparators[0].value is None)

    if not (len(body) == 1 and isinstance(body[0], ast.If) and (none_test(body[0].test) or is_none_test(body[0].test))):
        raise TranslationError(rel, fn, 'expected `if %s:` / `if not %s: return None` as the only top-level decision' % (node, node))
    top = body[0]
    top_body, top_orelse = (top.body, top.orelse) if none_test(top.test) else (top.orelse, top.body)
    if not (len(top_orelse) == 1 and isinstance(top_orelse[0], ast.Return)
            and (top_orelse[0].value is None or (isinstance(top_orelse[0].value, ast.Constant) and top_orelse[0].value.value is None))):
        raise TranslationError(rel, top, 'the branch for a missing node must be `return None`')
    if not top_body:
        raise TranslationError(rel, top, 'no code for an existing node')
    stmts = list(top_body)

    def child_assign(s):
        """x = _evaluate(node.left) -> ('x', 0); node.right -> 1"""
        if not (isinstance(s, ast.Assign) and len(s.targets) == 1 and isinstance(s.targets[0], ast.Name)):
            return None
        c = s.value
        if not (isinstance(c, ast.Call) and isinstance(c.func, ast.Name) and c.func.id == fn.name and len(c.args) == 1 and not c.keywords):
            return None
        if is_attr_of(c.args[0], node, 'left'):
            return s.targets[0].id, 0
        if is_attr_of(c.args[0], node, 'right'):
            return s.targets[0].id, 1
        raise TranslationError(rel, s, 'recursive call on something other than %s.left / %s.right' % (node, node))

    def terminal_if(s):
        if not (isinstance(s, ast.If) and isinstance(s.test, ast.Compare) and len(s.test.ops) == 1 and isinstance(s.test.ops[0], ast.Eq)
                and is_attr_of(s.test.left, node, 'type') and isinstance(s.test.comparators[0], ast.Constant)
                and s.test.comparators[0].value == 'TERMINAL'):
            return None
        if not (len(s.body) == 1 and isinstance(s.body[0], ast.Return) and is_attr_of(s.body[0].value, node, 'value')):
            raise TranslationError(rel, s, 'a terminal must `return %s.value`' % node)
        return s

    env = {}
    children_first = None
    tif = None
    rest = None
    i = 0
    while i < len(stmts):
        s = stmts[i]
        ca = child_assign(s)
        if ca is not None:
            if tif is not None and children_first is None:
                children_first = False
            if ca[0] in env or ca[0] == node:
                raise TranslationError(rel, s, 'child result `%s` assigned twice' % ca[0])
            if ('(EVar %d)' % ca[1]) in env.values():
                raise TranslationError(rel, s, 'the same child is evaluated twice')
            env[ca[0]] = '(EVar %d)' % ca[1]
            items.append({'file': rel, 'line': s.lineno, 'text': src_of(src, s)})
            i += 1
            continue
        t = terminal_if(s)
        if t is not None:
            if tif is not None:
                raise TranslationError(rel, s, 'two terminal tests')
            tif = t
            if children_first is None:
                children_first = len(env) == 2
                if not children_first and len(env) != 0:
                    raise TranslationError(rel, s, 'terminal test between the two recursive calls')
            if t.orelse:
                if i != len(stmts) - 1:
                    raise TranslationError(rel, stmts[i + 1], 'statements after an if/else that returns')
                if len(env) != 2:
                    raise TranslationError(rel, t, 'dispatch before both children are evaluated')
                rest = list(t.orelse)
                break
            i += 1
            continue
        if tif is None or len(env) != 2:
            raise TranslationError(rel, s, 'unexpected statement before the terminal test / child evaluation')
        rest = stmts[i:]
        break
    if tif is None or rest is None or len(env) != 2:
        raise TranslationError(rel, top, 'expected two recursive calls, a terminal test and an operator dispatch')
    items.append({'file': rel, 'line': tif.lineno, 'text': src_of(src, tif.test)})
    # the if / elif chain on node.name
    if len(rest) != 1 or not isinstance(rest[0], ast.If):
        raise TranslationError(rel, rest[0] if rest else top, 'operator dispatch must be one if/elif chain')
    tr = ExprTr(rel, src, aliases, consts, env)
    chain = []
    cur = rest[0]
    while True:
        t = cur.test
        if not (isinstance(t, ast.Compare) and len(t.ops) == 1 and isinstance(t.ops[0], ast.Eq) and is_attr_of(t.left, node, 'name')
                and isinstance(t.comparators[0], ast.Constant) and isinstance(t.comparators[0].value, str)):
            raise TranslationError(rel, cur, 'dispatch test must be `%s.name == "<NAME>"`' % node)
        if not (len(cur.body) == 1 and isinstance(cur.body[0], ast.Return) and cur.body[0].value is not None):
            raise TranslationError(rel, cur, 'each dispatch branch must be a single `return <expr>`')
        term = tr.tr(cur.body[0].value)
        chain.append((t.comparators[0].value, term, cur.body[0].lineno, src_of(src, cur.body[0])))
        if not cur.orelse:
            break
        if len(cur.orelse) == 1 and isinstance(cur.orelse[0], ast.If):
            cur = cur.orelse[0]
            continue
        raise TranslationError(rel, cur.orelse[0], 'unexpected final else branch in the dispatch')
    for name, term, line, text in chain:
        items.append({'file': rel, 'line': line, 'text': 'node.name == %r: %s  =>  %s' % (name, text, term)})
    stores = stores_in(fn, set(env), tuple(k for k, v in aliases.items() if v == 'numpy'))
    # Node.position must be `return _evaluate(self)`; Node must stay truthy (no __bool__/__len__)
    cls = find_class(tree, 'Node')
    if cls is None:
        raise TranslationError(rel, tree, 'class Node not found')
    for m in cls.body:
        if isinstance(m, ast.FunctionDef) and m.name in ('__bool__', '__len__'):
            raise TranslationError(rel, m, 'Node defines %s: `if node:` is no longer a None test' % m.name)
    pos = None
    for m in cls.body:
        if isinstance(m, ast.FunctionDef) and m.name == 'position' and any(
                isinstance(d, ast.Name) and d.id == 'property' for d in m.decorator_list):
            pos = m
    if pos is None:
        raise TranslationError(rel, cls, 'Node.position property not found')
    pb = fn_body(pos)
    selfname = pos.args.args[0].arg if pos.args.args else None
    if not (len(pb) == 1 and isinstance(pb[0], ast.Return) and isinstance(pb[0].value, ast.Call)
            and isinstance(pb[0].value.func, ast.Name) and pb[0].value.func.id == fn.name and len(pb[0].value.args) == 1
            and isinstance(pb[0].value.args[0], ast.Name) and pb[0].value.args[0].id == selfname and not pb[0].value.keywords):
        raise TranslationError(rel, pos, 'Node.position must be `return _evaluate(self)`')
    items.append({'file': rel, 'line': pb[0].lineno, 'text': src_of(src, pb[0])})
    nargs, at = consts.n_args()
    items.append({'file': consts.rel, 'line': at.lineno, 'text': 'N_ARGS_FUNCTION = %r' % dict(nargs)})
    eps, at = consts.number('EPSILON')
    items.append({'file': consts.rel, 'line': at.lineno, 'text': src_of(consts.src, at)})
    for cname in tr.used_constants:
        if cname != 'EPSILON':
            raise TranslationError(rel, fn, 'operator table uses constant %s (only EPSILON is expected)' % cname)
    return {'eps': eps, 'n_args': nargs, 'chain': chain, 'children_first': children_first, 'stores': stores, 'items': items}


def generate_nodeops(repo):
    """-> (coq text or None, items, errors)"""
    try:
        d = nodeops(repo)
    except TranslationError as ex:
        return None, [], [{'item': 'node._evaluate', 'file': ex.file, 'line': ex.line, 'msg': ex.msg}]
    except (KeyError, IndexError, AttributeError, SyntaxError, OSError) as ex:
        return None, [], [{'item': 'node._evaluate', 'file': '?', 'line': 0, 'msg': 'translator: %r' % ex}]
    out = [HEADER, 'From Coq Require Import Reals ZArith List String.', 'From OV Require Import Base.RExprC10.',
           'Import ListNotations.', 'Open Scope string_scope.', '',
           '(* utils/constants.py EPSILON, exact rational of the decimal literal *)',
           'Definition eps_num : Z := (%d)%%Z.' % d['eps'].numerator,
           'Definition eps_den : positive := %d%%positive.' % d['eps'].denominator,
           '(* utils/constants.py N_ARGS_FUNCTION in source order: operator index -> (name, number of arguments) *)',
           'Definition n_args : list (string * nat) := [%s].' % '; '.join('(%s, %d%%nat)' % (coq_str(n), k) for n, k in d['n_args']),
           '(* core/node.py _evaluate: the if/elif chain on node.name in source order;',
           '   EVar 0 = value of _evaluate(node.left), EVar 1 = value of _evaluate(node.right) *)',
           'Definition chain : list (string * rexpr) := [']
    out.append(';\n'.join('  (%s, %s)' % (coq_str(n), t) for n, t, _, _ in d['chain']))
    out += ['].',
            '(* both recursive calls precede the TERMINAL test *)',
            'Definition ev_children_first : bool := %s.' % coq_bool(d['children_first']),
            '(* purity audit of _evaluate: stores / calls that could write outside its locals *)',
            'Definition ev_stores : list string := [%s].' % '; '.join(coq_str(s) for s in d['stores'])]
    return '\n'.join(out) + '\n', d['items'], []


# ------------------------------------------------------------------------------------------ C13

V_LB, V_UB, V_NORM, V_SHAPE0, V_SHAPE1 = 0, 1, 2, 3, 4


def straight_line(rel, fn, src, tr, allow_coerce=True):
    """Straight-line body of local assignments ending in a return: symbolic execution into tr.env;
    returns the ast node of the returned expression after binding."""
    body = fn_body(fn)
    if not body or not isinstance(body[-1], ast.Return) or body[-1].value is None:
        raise TranslationError(rel, fn, '%s must end in `return <expr>`' % fn.name)
    for s in body[:-1]:
        if not (isinstance(s, ast.Assign) and len(s.targets) == 1 and isinstance(s.targets[0], ast.Name)):
            raise TranslationError(rel, s, 'only local assignments are expected in %s' % fn.name)
        tr.env[s.targets[0].id] = tr.tr(s.value)
    return body[-1].value


def norm_descr(rel, tree, src, aliases):
    fn = find_func(tree, 'norm')
    if fn is None:
        raise TranslationError(rel, tree, 'norm not found')
    a = fn.args
    if len(a.args) != 1 or a.vararg or a.kwarg or a.kwonlyargs or a.defaults:
        raise TranslationError(rel, fn, 'norm must take exactly one parameter')
    param = a.args[0].arg
    found = {}

    def hook(tr, n):
        # np.linalg.norm(<param>, axis=K) with the default (Euclidean) order
        if isinstance(n, ast.Call) and isinstance(n.func, ast.Attribute) and n.func.attr == 'norm' \
                and isinstance(n.func.value, ast.Attribute) and n.func.value.attr == 'linalg' \
                and isinstance(n.func.value.value, ast.Name) and aliases.get(n.func.value.value.id) == 'numpy':
            if len(n.args) != 1 or not (isinstance(n.args[0], ast.Name) and n.args[0].id == param):
                raise TranslationError(rel, n, 'np.linalg.norm must be applied to the parameter `%s` (one positional argument)' % param)
            axis = None
            for kw in n.keywords:
                if kw.arg == 'axis' and isinstance(kw.value, ast.Constant) and isinstance(kw.value.value, int) \
                        and not isinstance(kw.value.value, bool) and kw.value.value in (0, 1):
                    axis = kw.value.value
                elif kw.arg == 'ord' and isinstance(kw.value, ast.Constant) and kw.value.value in (None, 2):
                    pass
                else:
                    raise TranslationError(rel, n, 'unsupported keyword %s=%s of np.linalg.norm' % (kw.arg, ast.unparse(kw.value)))
            if axis is None:
                raise TranslationError(rel, n, 'np.linalg.norm without axis=0|1 (Frobenius norm of the whole array)')
            found['axis'] = axis
            found['line'] = n.lineno
            found['text'] = src_of(src, n)
            return '@NORM'
        # np.sqrt(np.sum(<param> ** 2, axis=K))
        if isinstance(n, ast.Call) and tr.np_func(n.func) == 'sqrt' and len(n.args) == 1 and not n.keywords:
            s = n.args[0]
            if isinstance(s, ast.Call) and tr.np_func(s.func) == 'sum' and len(s.args) == 1 and len(s.keywords) == 1 \
                    and s.keywords[0].arg == 'axis' and isinstance(s.keywords[0].value, ast.Constant) \
                    and s.keywords[0].value.value in (0, 1) and not isinstance(s.keywords[0].value.value, bool):
                sq = s.args[0]
                is_sq = (isinstance(sq, ast.BinOp) and isinstance(sq.op, ast.Pow) and isinstance(sq.left, ast.Name) and sq.left.id == param
                         and isinstance(sq.right, ast.Constant) and sq.right.value == 2) or \
                        (isinstance(sq, ast.BinOp) and isinstance(sq.op, ast.Mult) and all(
                            isinstance(z, ast.Name) and z.id == param for z in (sq.left, sq.right)))
                if is_sq:
                    found['axis'] = s.keywords[0].value.value
                    found['line'] = n.lineno
                    found['text'] = src_of(src, n)
                    return '@NORM'
        return None

    tr = ExprTr(rel, src, aliases, None, {}, hook)
    ret = straight_line(rel, fn, src, tr)
    if tr.tr(ret) != '@NORM':
        raise TranslationError(rel, ret, 'norm must return np.linalg.norm(%s, axis=K)' % param)
    return found


def span_parts(repo):
    rel = 'opytimizer/math/hypercomplex.py'
    tree, src = parse(repo, rel)
    aliases = module_aliases(tree)
    items = []
    nd = norm_descr(rel, tree, src, aliases)
    items.append({'file': rel, 'line': nd['line'], 'text': nd['text']})
    fn = find_func(tree, 'span')
    if fn is None:
        raise TranslationError(rel, tree, 'span not found')
    a = fn.args
    if len(a.args) != 3 or a.vararg or a.kwarg or a.kwonlyargs or a.defaults:
        raise TranslationError(rel, fn, 'span must take exactly (array, lb, ub)')
    p_arr, p_lb, p_ub = (x.arg for x in a.args)
    env = {p_lb: '(EVar %d)' % V_LB, p_ub: '(EVar %d)' % V_UB}

    def hook(tr, n):
        # np.array(v) / np.asarray(v): coercion of a list of bounds, the identity on values
        if isinstance(n, ast.Call) and tr.np_func(n.func) in ('array', 'asarray') and len(n.args) == 1 and not n.keywords:
            return tr.tr(n.args[0])
        # norm(array)
        if isinstance(n, ast.Call) and isinstance(n.func, ast.Name) and n.func.id == 'norm':
            if len(n.args) == 1 and not n.keywords and isinstance(n.args[0], ast.Name) and n.args[0].id == p_arr \
                    and p_arr not in tr.env:
                return '(EVar %d)' % V_NORM
            raise TranslationError(rel, n, 'norm must be applied to the parameter `%s`' % p_arr)
        # array.shape[k]
        if isinstance(n, ast.Subscript) and is_attr_of(n.value, p_arr, 'shape') and p_arr not in tr.env:
            k = n.slice
            if isinstance(k, ast.Constant) and k.value in (0, 1) and not isinstance(k.value, bool):
                return '(EVar %d)' % (V_SHAPE0 + k.value)
            if isinstance(k, ast.UnaryOp) and isinstance(k.op, ast.USub) and isinstance(k.operand, ast.Constant) and k.operand.value in (1, 2):
                return '(EVar %d)' % (V_SHAPE0 + 2 - k.operand.value)
            raise TranslationError(rel, n, 'unsupported shape index')
        if isinstance(n, ast.Name) and n.id == p_arr:
            raise TranslationError(rel, n, 'the array is used other than through norm(%s) / %s.shape[k]' % (p_arr, p_arr))
        return None

    tr = ExprTr(rel, src, aliases, None, env, hook)
    ret = straight_line(rel, fn, src, tr)
    term = tr.tr(ret)
    body = fn_body(fn)
    for s in body:
        if isinstance(s, ast.Assign) and not (isinstance(s.value, ast.Call) and tr.np_func(s.value.func) in ('array', 'asarray')):
            items.append({'file': rel, 'line': s.lineno, 'text': src_of(src, s) + '  =>  ' + tr.env[s.targets[0].id]})
    items.append({'file': rel, 'line': body[-1].lineno, 'text': src_of(src, body[-1]) + '  =>  ' + term})
    return {'axis': nd['axis'], 'span': term, 'items': items}


def generate_span(repo):
    try:
        d = span_parts(repo)
    except TranslationError as ex:
        return None, [], [{'item': 'hypercomplex.norm/span', 'file': ex.file, 'line': ex.line, 'msg': ex.msg}]
    except (KeyError, IndexError, AttributeError, SyntaxError, OSError) as ex:
        return None, [], [{'item': 'hypercomplex.norm/span', 'file': '?', 'line': 0, 'msg': 'translator: %r' % ex}]
    out = [HEADER, 'From Coq Require Import Reals ZArith List.', 'From OV Require Import Base.RExprC10.', '',
           '(* math/hypercomplex.py norm: the axis reduced by the Euclidean norm (1 = over the dimensions of each variable) *)',
           'Definition norm_axis : nat := %d%%nat.' % d['axis'],
           '(* math/hypercomplex.py span, per variable j:',
           '   EVar 0 = lb[j], EVar 1 = ub[j], EVar 2 = norm(array)[j], EVar 3 = array.shape[0], EVar 4 = array.shape[1] *)',
           'Definition span_expr : rexpr := %s.' % d['span']]
    return '\n'.join(out) + '\n', d['items'], []


if __name__ == '__main__':
    import sys
    repo = sys.argv[1] if len(sys.argv) > 1 else '/repo'
    for g in (generate_nodeops, generate_span):
        text, items, errors = g(repo)
        print(text)
        for it in items:
            print('  ', it)
        print(errors)
