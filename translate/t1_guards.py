"""T1: property setters, `_build` / `_rebuild` -> Gen/Guards.v (C14).

For every `@x.setter` of every class in the anchored files this translator extracts, fail-closed:
  * the ordered clause list `if COND: raise e.KIND('MSG')` (COND in the condition language of
    Model/Guards.v), the optional state precondition (`if self.type != 'TERMINAL': self._value = None
    else: ...`) and checks that the store `self._x = x` is the LAST statement and the only store;
  * independently of COND, the *documented domain* parsed from MSG itself (an unparsable message aborts the
    translation of that guard);
  * for `_build(self, hyperparams)` / `_rebuild(self)`: the `(key tested, key read, attribute assigned)` items
    in source order, each resolved to the guard of the assigned attribute (own or inherited);
  * a whole-file check that `self._x = ...` is written nowhere but inside the setter of `x`.
Nothing from /repo is imported or executed.  `generate(repo)` returns (coq_text, info, errors)."""
import ast
import copy
import glob
import os
import re
from fractions import Fraction

from .common import TranslationError, body_wo_doc, coq_str, HEADER, unelif_raising

FIXED_FILES = ['opytimizer/core/agent.py', 'opytimizer/core/space.py', 'opytimizer/core/node.py',
               'opytimizer/core/function.py', 'opytimizer/core/optimizer.py', 'opytimizer/functions/weighted.py',
               'opytimizer/opytimizer.py', 'opytimizer/utils/history.py']
GLOBS = ['opytimizer/spaces/*.py', 'opytimizer/optimizers/*.py']

KINDS = {'TypeError': 'ETYPE', 'ValueError': 'EVALUE', 'SizeError': 'ESIZE', 'ArgumentError': 'EARG',
         'BuildError': 'EBUILD'}
TYPES = {'int': 'TInt', 'float': 'TFloat', 'bool': 'TBool', 'str': 'TStr', 'list': 'TList', 'tuple': 'TTuple',
         'dict': 'TDict', 'ndarray': 'TNdarray', 'Node': 'TNode', 'Agent': 'TAgent', 'Function': 'TFunction',
         'Space': 'TSpace', 'Optimizer': 'TOptimizer'}
WORDS = {'integer': 'TInt', 'float': 'TFloat', 'boolean': 'TBool', 'string': 'TStr', 'list': 'TList',
         'tuple': 'TTuple', 'dictionary': 'TDict', 'numpy array': 'TNdarray', 'N-dimensional numpy array': 'TNdarray',
         'Node': 'TNode', 'Agent': 'TAgent', 'Function': 'TFunction', 'Space': 'TSpace', 'Optimizer': 'TOptimizer'}
CMPS = {ast.Lt: 'Lt', ast.LtE: 'Le', ast.Gt: 'Gt', ast.GtE: 'Ge', ast.Eq: 'Eq', ast.NotEq: 'Ne'}
SYMS = {'<': 'Lt', '<=': 'Le', '>': 'Gt', '>=': 'Ge'}


def files_of(repo):
    out = list(FIXED_FILES)
    for g in GLOBS:
        for p in sorted(glob.glob(os.path.join(repo, g))):
            if not p.endswith('__init__.py'):
                out.append(os.path.relpath(p, repo))
    return out


# ---------------------------------------------------------------- documented domain from the message

NUM = r'(-?\d+(?:\.\d+)?)'


def _frac(txt):
    f = Fraction(txt)
    return [f.numerator, f.denominator]


def parse_message(msg, attr, file, node):
    m = re.match(r'^`(\w+)` should (.*)$', msg)
    if not m:
        raise TranslationError(file, node, 'message %r is not of the form "`x` should ..."' % msg)
    if m.group(1) != attr:
        raise TranslationError(file, node, 'message %r names `%s` inside the setter of `%s`' % (msg, m.group(1), attr))
    rest = m.group(2).strip()
    mm = re.match(r'^be (>=|<=|>|<) ' + NUM + '$', rest)
    if mm:
        return ['cmp', SYMS[mm.group(1)], _frac(mm.group(2))]
    mm = re.match(r'^be (>=|<=|>|<) `(\w+)`$', rest)
    if mm:
        return ['cmpself', SYMS[mm.group(1)], mm.group(2)]
    mm = re.match(r'^be between ' + NUM + ' and ' + NUM + '$', rest)
    if mm:
        return ['between', _frac(mm.group(1)), _frac(mm.group(2))]
    mm = re.match(r'^be the same size as `(\w+)`$', rest)
    if mm:
        return ['sizeeq', mm.group(1)]
    mm = re.match(r'^only have (\d+) arguments?$', rest)
    if mm:
        return ['arity', int(mm.group(1))]
    mm = re.match(r'^be built before using Opytimizer$', rest)
    if mm:
        return ['built']
    mm = re.match(r'^be ((?:`\w+`)(?: or `\w+`)*)$', rest)
    if mm:
        return ['oneof', re.findall(r'`(\w+)`', mm.group(1))]
    mm = re.match(r'^be (an? .+)$', rest)
    if mm:
        alts = [a.strip() for a in mm.group(1).split(' or ')]
        tys = []
        for a in alts:
            a = re.sub(r'^(an?|the) ', '', a)
            if a == 'callable':
                if len(alts) != 1:
                    raise TranslationError(file, node, 'cannot read the documented domain of %r' % msg)
                return ['callable']
            if a not in WORDS:
                raise TranslationError(file, node, 'unknown type word %r in message %r' % (a, msg))
            tys.append(WORDS[a])
        return ['type', tys]
    raise TranslationError(file, node, 'cannot read the documented domain of %r' % msg)


# ---------------------------------------------------------------- conditions

def _is_self_attr(n):
    return isinstance(n, ast.Attribute) and isinstance(n.value, ast.Name) and n.value.id == 'self'


def tr_type(n, file):
    if isinstance(n, ast.Tuple):
        out = []
        for e in n.elts:
            out += tr_type(e, file)
        return out
    name = None
    if isinstance(n, ast.Name):
        name = n.id
    elif isinstance(n, ast.Attribute) and isinstance(n.value, ast.Name) and n.value.id in ('np', 'numpy'):
        name = n.attr
    if name not in TYPES:
        raise TranslationError(file, n, 'isinstance against an unknown type `%s`' % ast.unparse(n))
    return [TYPES[name]]


def tr_term(n, param, file):
    if isinstance(n, ast.Name) and n.id == param:
        return ['val']
    if isinstance(n, ast.Constant) and isinstance(n.value, (int, float)) and not isinstance(n.value, bool):
        if n.value != n.value or n.value in (float('inf'), float('-inf')):
            raise TranslationError(file, n, 'non-finite constant')
        f = Fraction(n.value)
        return ['const', f.numerator, f.denominator]
    if isinstance(n, ast.UnaryOp) and isinstance(n.op, ast.USub):
        t = tr_term(n.operand, param, file)
        if t[0] == 'const':
            return ['const', -t[1], t[2]]
    if _is_self_attr(n):
        if n.attr.startswith('_'):
            raise TranslationError(file, n, 'companion read bypasses the property: self.%s' % n.attr)
        return ['self', n.attr]
    # v.shape[0]
    if (isinstance(n, ast.Subscript) and isinstance(n.value, ast.Attribute) and n.value.attr == 'shape'
            and isinstance(n.value.value, ast.Name) and n.value.value.id == param
            and isinstance(n.slice, ast.Constant) and n.slice.value == 0):
        return ['shape0']
    if isinstance(n, ast.Call) and isinstance(n.func, ast.Name) and n.func.id == 'len' and len(n.args) == 1 and not n.keywords:
        a = n.args[0]
        if isinstance(a, ast.Name) and a.id == param:
            return ['len']
        # len(signature(v).parameters)
        if (isinstance(a, ast.Attribute) and a.attr == 'parameters' and isinstance(a.value, ast.Call)
                and isinstance(a.value.func, ast.Name) and a.value.func.id == 'signature'
                and len(a.value.args) == 1 and isinstance(a.value.args[0], ast.Name) and a.value.args[0].id == param):
            return ['nparams']
    raise TranslationError(file, n, 'unsupported term `%s`' % ast.unparse(n))


def tr_cond(n, param, file):
    if isinstance(n, ast.UnaryOp) and isinstance(n.op, ast.Not):
        return ['not', tr_cond(n.operand, param, file)]
    if isinstance(n, ast.BoolOp):
        tag = 'and' if isinstance(n.op, ast.And) else 'or'
        parts = [tr_cond(v, param, file) for v in n.values]
        out = parts[-1]
        for p in reversed(parts[:-1]):
            out = [tag, p, out]
        return out
    if isinstance(n, ast.Name) and n.id == param:
        return ['truthy']
    if isinstance(n, ast.Attribute) and n.attr == 'built' and isinstance(n.value, ast.Name) and n.value.id == param:
        return ['built']
    if isinstance(n, ast.Call) and isinstance(n.func, ast.Name) and not n.keywords:
        if n.func.id == 'isinstance' and len(n.args) == 2 and isinstance(n.args[0], ast.Name) and n.args[0].id == param:
            return ['isinst', tr_type(n.args[1], file)]
        if n.func.id == 'callable' and len(n.args) == 1 and isinstance(n.args[0], ast.Name) and n.args[0].id == param:
            return ['callable']
    if isinstance(n, ast.Compare) and len(n.ops) == 1:
        op = n.ops[0]
        a, b = n.left, n.comparators[0]
        if isinstance(op, (ast.In, ast.NotIn)):
            if (isinstance(a, ast.Name) and a.id == param and isinstance(b, (ast.List, ast.Tuple))
                    and all(isinstance(e, ast.Constant) and isinstance(e.value, str) for e in b.elts)):
                c = ['instr', [e.value for e in b.elts]]
                return ['not', c] if isinstance(op, ast.NotIn) else c
            raise TranslationError(file, n, 'unsupported membership test `%s`' % ast.unparse(n))
        if type(op) in CMPS:
            return ['cmp', CMPS[type(op)], tr_term(a, param, file), tr_term(b, param, file)]
    if isinstance(n, ast.Compare) and len(n.ops) == 2 and all(type(o) in CMPS for o in n.ops):
        # a OP b OP c  ==  (a OP b) and (b OP c)
        a, b, c = n.left, n.comparators[0], n.comparators[1]
        return ['and', ['cmp', CMPS[type(n.ops[0])], tr_term(a, param, file), tr_term(b, param, file)],
                ['cmp', CMPS[type(n.ops[1])], tr_term(b, param, file), tr_term(c, param, file)]]
    raise TranslationError(file, n, 'unsupported condition `%s`' % ast.unparse(n))


def tr_raise(st, file):
    """raise e.Kind('msg') -> (kind, msg)"""
    if not (isinstance(st, ast.Raise) and st.exc is not None and st.cause is None):
        raise TranslationError(file, st, 'expected `raise e.<Error>(message)`')
    ex = st.exc
    if not (isinstance(ex, ast.Call) and isinstance(ex.func, ast.Attribute) and isinstance(ex.func.value, ast.Name)
            and ex.func.value.id == 'e' and ex.func.attr in KINDS and len(ex.args) == 1 and not ex.keywords):
        raise TranslationError(file, st, 'raises something else than the library\'s typed errors: `%s`' % ast.unparse(st))
    a = ex.args[0]
    if not (isinstance(a, ast.Constant) and isinstance(a.value, str)):
        raise TranslationError(file, st, 'error message is not a string literal')
    return KINDS[ex.func.attr], a.value


def tr_clause(st, param, attr, file, outer=None):
    if not (isinstance(st, ast.If) and not st.orelse and len(st.body) == 1):
        raise TranslationError(file, st, 'expected `if COND: raise ...` (one statement, no else)')
    c = tr_cond(st.test, param, file)
    if outer is not None:
        c = ['and', outer, c]
    inner = st.body[0]
    if isinstance(inner, ast.If):
        return tr_clause(inner, param, attr, file, outer=c)
    kind, msg = tr_raise(inner, file)
    return {'cond': c, 'kind': kind, 'msg': msg, 'dom': parse_message(msg, attr, file, inner), 'line': st.lineno}


def is_store(st, attr, value_pred):
    return (isinstance(st, ast.Assign) and len(st.targets) == 1 and _is_self_attr(st.targets[0])
            and st.targets[0].attr == '_' + attr and value_pred(st.value))


def messages_in(fn):
    """every `raise <...>('literal')` below fn, for the oracle when the model translation fails"""
    out = []
    for n in ast.walk(fn):
        if isinstance(n, ast.Raise) and isinstance(n.exc, ast.Call) and n.exc.args \
                and isinstance(n.exc.args[0], ast.Constant) and isinstance(n.exc.args[0].value, str):
            out.append((n.exc.args[0].value, n))
    out.sort(key=lambda p: (p[1].lineno, p[1].col_offset))
    return out


# ---------------------------------------------------------------- harmless spellings: temporaries and helper calls
#
# Before the clause translation the setter body is NORMALISED to the plain shape (a list of `if`s and the store):
#   * `t = EXPR` with EXPR a term or a condition of the language, assigned once, never the parameter: every later
#     use of `t` is replaced by EXPR.  EXPR is evaluated where it is assigned, so unless it cannot raise
#     (isinstance/callable tests, constants, the value itself) the NEXT statement must be a clause that evaluates
#     `t` before anything that could raise or decide -- then hoisting does not change which exception wins.
#   * an expression statement `helper(args)` / `self.helper(args)` / `Cls.helper(args)` where `helper` is a function
#     of the same module (or a method / staticmethod of the same class) whose body is itself a guard sequence is
#     replaced by that body with the formals substituted; actuals must be constants, the setter's value or a public
#     `self.attr` (read early: equivalent under the standing assumption `state_ok` that companions exist);
#     messages built from constants (f-string, %, +, .format) are folded to literals.
# Everything else still raises TranslationError.
RESERVED = {'self', 'e', 'np', 'numpy', 'isinstance', 'callable', 'len', 'signature', 'int', 'float', 'bool', 'str',
            'list', 'tuple', 'dict', 'True', 'False', 'None'} | set(TYPES)
MAX_INLINE_DEPTH = 3


def const_str(n):
    """the string a constant-only string expression denotes, or None"""
    def atom(x):
        if isinstance(x, ast.Constant) and isinstance(x.value, (str, int, float)) and not isinstance(x.value, bool):
            return x.value
        return None
    if isinstance(n, ast.Constant) and isinstance(n.value, str):
        return n.value
    if isinstance(n, ast.JoinedStr):
        parts = []
        for v in n.values:
            if isinstance(v, ast.Constant) and isinstance(v.value, str):
                parts.append(v.value)
            elif isinstance(v, ast.FormattedValue) and v.conversion == -1 and v.format_spec is None and atom(v.value) is not None:
                parts.append(str(atom(v.value)))
            else:
                return None
        return ''.join(parts)
    if isinstance(n, ast.BinOp) and isinstance(n.op, ast.Add):
        a, b = const_str(n.left), const_str(n.right)
        return a + b if a is not None and b is not None else None
    if isinstance(n, ast.BinOp) and isinstance(n.op, ast.Mod):
        a = const_str(n.left)
        args = n.right.elts if isinstance(n.right, ast.Tuple) else [n.right]
        vals = [atom(x) for x in args]
        if a is None or any(v is None for v in vals):
            return None
        try:
            return a % tuple(vals)
        except (TypeError, ValueError):
            return None
    if (isinstance(n, ast.Call) and isinstance(n.func, ast.Attribute) and n.func.attr == 'format' and not n.keywords
            and const_str(n.func.value) is not None and all(atom(x) is not None for x in n.args)):
        try:
            return const_str(n.func.value).format(*[atom(x) for x in n.args])
        except (IndexError, KeyError, ValueError):
            return None
    return None


class _Subst(ast.NodeTransformer):
    def __init__(self, env):
        self.env = env

    def visit_Name(self, n):
        if isinstance(n.ctx, ast.Load) and n.id in self.env:
            return ast.copy_location(copy.deepcopy(self.env[n.id]), n)
        return n


class _FoldStr(ast.NodeTransformer):
    def generic_visit(self, n):
        n = super().generic_visit(n)
        if isinstance(n, (ast.JoinedStr, ast.BinOp, ast.Call)):
            s = const_str(n)
            if s is not None:
                return ast.copy_location(ast.Constant(value=s), n)
        return n


def _subst(env, node):
    node = copy.deepcopy(node)
    if env:
        node = _Subst(env).visit(node)
    return ast.fix_missing_locations(_FoldStr().visit(node))


def _total_tree(t):
    k = t[0]
    if k in ('val', 'const', 'isinst', 'callable'):
        return True
    if k == 'not':
        return _total_tree(t[1])
    if k in ('and', 'or'):
        return _total_tree(t[1]) and _total_tree(t[2])
    return False


def _first_atom(test):
    while True:
        if isinstance(test, ast.UnaryOp) and isinstance(test.op, ast.Not):
            test = test.operand
        elif isinstance(test, ast.BoolOp):
            test = test.values[0]
        else:
            return test


def _uses_first(nxt, name, param):
    """`nxt` is a clause whose condition evaluates `name` before anything that could raise or decide"""
    if not isinstance(nxt, ast.If):
        return False
    a = _first_atom(nxt.test)
    if isinstance(a, ast.Name) and a.id == name:
        return True
    if isinstance(a, ast.Compare):
        for o in [a.left] + list(a.comparators):
            if isinstance(o, ast.Name) and o.id == name:
                return True
            if isinstance(o, ast.Constant) or (isinstance(o, ast.Name) and o.id == param):
                continue
            if isinstance(o, ast.UnaryOp) and isinstance(o.op, ast.USub) and isinstance(o.operand, ast.Constant):
                continue
            return False
    return False


def _stores_name(stmts, name):
    for st in stmts:
        for n in ast.walk(st):
            if isinstance(n, ast.Name) and n.id == name and isinstance(n.ctx, (ast.Store, ast.Del)):
                return True
    return False


def find_helper(call, hctx):
    """-> (FunctionDef, drop_self) for a call of a same-module function / same-class method, else None"""
    f = call.func
    if isinstance(f, ast.Name) and f.id in hctx['module']:
        return hctx['module'][f.id], False
    if isinstance(f, ast.Attribute) and isinstance(f.value, ast.Name) and f.attr in hctx['klass']:
        fn = hctx['klass'][f.attr]
        decos = [d.id if isinstance(d, ast.Name) else ast.unparse(d) for d in fn.decorator_list]
        if decos == ['staticmethod'] and f.value.id in ('self', hctx['cls']):
            return fn, False
        if not decos and f.value.id == 'self':
            return fn, True
    return None


def inline_call(call, param, file, hctx, depth):
    fn, drop_self = find_helper(call, hctx)
    if depth >= MAX_INLINE_DEPTH:
        raise TranslationError(file, call, 'helper calls nested deeper than %d' % MAX_INLINE_DEPTH)
    a = fn.args
    if a.vararg or a.kwarg or a.kwonlyargs or a.posonlyargs:
        raise TranslationError(file, fn, 'helper `%s` has a signature T1 does not inline' % fn.name)
    formals = [x.arg for x in a.args]
    if drop_self:
        if not formals or formals[0] != 'self':
            raise TranslationError(file, fn, 'method helper `%s` without self' % fn.name)
        formals = formals[1:]
    env = {}
    defaults = dict(zip(formals[len(formals) - len(a.defaults):], a.defaults)) if a.defaults else {}
    if len(call.args) > len(formals) or any(isinstance(x, ast.Starred) for x in call.args):
        raise TranslationError(file, call, 'call of `%s` does not match its signature' % fn.name)
    for f, x in zip(formals, call.args):
        env[f] = x
    for kw in call.keywords:
        if kw.arg is None or kw.arg not in formals or kw.arg in env:
            raise TranslationError(file, call, 'call of `%s` does not match its signature' % fn.name)
        env[kw.arg] = kw.value
    for f in formals:
        if f not in env:
            if f not in defaults:
                raise TranslationError(file, call, 'call of `%s` misses argument `%s`' % (fn.name, f))
            env[f] = defaults[f]
    for f, x in env.items():
        ok = (isinstance(x, ast.Constant) or (isinstance(x, ast.Name) and x.id == param)
              or (_is_self_attr(x) and not x.attr.startswith('_'))
              or (isinstance(x, ast.UnaryOp) and isinstance(x.op, ast.USub) and isinstance(x.operand, ast.Constant)))
        if not ok:
            raise TranslationError(file, call, 'argument `%s` of helper `%s` is not a constant, the value or a public self attribute'
                                   % (ast.unparse(x), fn.name))
    body = body_wo_doc(fn)
    if _stores_name(body, 'self') or any(_stores_name(body, f) for f in formals):
        raise TranslationError(file, fn, 'helper `%s` rebinds one of its parameters' % fn.name)
    body = [_subst(env, st) for st in body]
    out = normalize_body(body, param, file, hctx, depth + 1)
    for st in out:
        if not isinstance(st, ast.If):
            raise TranslationError(file, st, 'helper `%s` is not a pure guard sequence (`%s`)' % (fn.name, ast.unparse(st)[:60]))
    return out


def normalize_body(stmts, param, file, hctx, depth=0):
    out, env = [], {}
    for i, raw in enumerate(stmts):
        st = _subst(env, raw)
        if (isinstance(st, ast.Assign) and len(st.targets) == 1 and isinstance(st.targets[0], ast.Name)):
            name = st.targets[0].id
            if name == param or name in RESERVED or name in env or name in hctx['module'] or _stores_name(stmts[i + 1:], name):
                raise TranslationError(file, st, 'local `%s` is rebound, shadows a name T1 relies on, or is the value itself' % name)
            try:
                tree = tr_term(st.value, param, file)
            except TranslationError:
                try:
                    tree = tr_cond(st.value, param, file)
                except TranslationError:
                    raise TranslationError(file, st, 'local `%s` is not a term or condition of the guard language: `%s`'
                                           % (name, ast.unparse(st.value)))
            if not _total_tree(tree) and not (i + 1 < len(stmts) and _uses_first(stmts[i + 1], name, param)):
                raise TranslationError(file, st, 'local `%s` may raise where it is assigned, earlier than its first use '
                                                 '(the next statement must be the clause that tests it first)' % name)
            env[name] = st.value
            continue
        if isinstance(st, ast.Expr) and isinstance(st.value, ast.Call) and find_helper(st.value, hctx) is not None:
            out += inline_call(st.value, param, file, hctx, depth)
            continue
        if isinstance(st, ast.If) and st.orelse:
            # `if C: A.. else: raise X`  ==  `if not C: raise X` ; A..      (and `if C: raise X else: B..` == clause ; B..)
            # only as the LAST statement of its block, so that splicing the surviving branch keeps the control flow
            if i != len(stmts) - 1:
                raise TranslationError(file, st, 'if/else followed by further statements')
            if len(st.orelse) == 1 and isinstance(st.orelse[0], ast.Raise):
                test, rz, rest = _negate(st.test), st.orelse[0], st.body
            elif len(st.body) == 1 and isinstance(st.body[0], ast.Raise):
                test, rz, rest = st.test, st.body[0], st.orelse
            else:
                raise TranslationError(file, st, 'if/else in which neither branch is a single `raise`')
            out.append(ast.fix_missing_locations(ast.copy_location(ast.If(test=test, body=[rz], orelse=[]), st)))
            out += normalize_body(rest, param, file, hctx, depth)
            continue
        out.append(st)
    return out


def _negate(test):
    if isinstance(test, ast.UnaryOp) and isinstance(test.op, ast.Not):
        return test.operand
    return ast.copy_location(ast.UnaryOp(op=ast.Not(), operand=test), test)


def tr_setter(cls, fn, file, hctx=None):
    attr = fn.name
    args = [a.arg for a in fn.args.args]
    if len(args) != 2 or args[0] != 'self' or fn.args.vararg or fn.args.kwarg or fn.args.kwonlyargs:
        raise TranslationError(file, fn, 'setter signature is not (self, value)')
    param = args[1]
    body = body_wo_doc(fn)
    pre = None
    if (len(body) == 1 and isinstance(body[0], ast.If) and body[0].orelse
            and isinstance(body[0].test, ast.Compare) and len(body[0].test.ops) == 1
            and isinstance(body[0].test.ops[0], ast.NotEq) and _is_self_attr(body[0].test.left)
            and isinstance(body[0].test.comparators[0], ast.Constant) and isinstance(body[0].test.comparators[0].value, str)
            and len(body[0].body) == 1
            and is_store(body[0].body[0], attr, lambda v: isinstance(v, ast.Constant) and v.value is None)):
        pre = [body[0].test.left.attr, body[0].test.comparators[0].value]
        body = body[0].orelse
    if not body:
        raise TranslationError(file, fn, 'empty setter')
    body = normalize_body(body, param, file, hctx or {'module': {}, 'klass': {}, 'cls': cls})
    if not body:
        raise TranslationError(file, fn, 'empty setter')
    last = body[-1]
    if not is_store(last, attr, lambda v: isinstance(v, ast.Name) and v.id == param):
        raise TranslationError(file, last, 'the last statement is not the store `self._%s = %s` (atomicity)' % (attr, param))
    clauses = [tr_clause(st, param, attr, file) for st in body[:-1]]
    return {'cls': cls, 'attr': attr, 'file': file, 'line': fn.lineno, 'param': param, 'pre': pre, 'clauses': clauses}


# ---------------------------------------------------------------- _build / _rebuild

def _setattr_to_assign(st):
    """`setattr(self, 'name', V)` as a statement is the assignment `self.name = V` (goes through the property)"""
    if (isinstance(st, ast.Expr) and isinstance(st.value, ast.Call) and isinstance(st.value.func, ast.Name)
            and st.value.func.id == 'setattr' and len(st.value.args) == 3 and not st.value.keywords
            and isinstance(st.value.args[0], ast.Name) and st.value.args[0].id == 'self'
            and isinstance(st.value.args[1], ast.Constant) and isinstance(st.value.args[1].value, str)
            and st.value.args[1].value.isidentifier()):
        tgt = ast.Attribute(value=ast.Name(id='self', ctx=ast.Load()), attr=st.value.args[1].value, ctx=ast.Store())
        return ast.fix_missing_locations(ast.copy_location(ast.Assign(targets=[tgt], value=st.value.args[2]), st))
    return st


def normalize_build(stmts, file, fname):
    """`for k in ('a', 'b'): BODY` over a literal of string constants is unrolled in the literal's order (k replaced by the
    constant); `setattr(self, 'a', V)` becomes `self.a = V`; `if A and B: S` becomes `if A: if B: S`."""
    out = []
    for st in stmts:
        if isinstance(st, ast.For):
            lit = st.iter
            if not (isinstance(lit, (ast.Tuple, ast.List)) and lit.elts and isinstance(st.target, ast.Name) and not st.orelse
                    and all(isinstance(x, ast.Constant) and isinstance(x.value, str) for x in lit.elts)):
                raise TranslationError(file, st, 'only `for name in (<string constants>)` loops are unrolled in %s' % fname)
            var = st.target.id
            for n in ast.walk(ast.Module(body=st.body, type_ignores=[])):
                if isinstance(n, (ast.Break, ast.Continue, ast.Return, ast.For, ast.While)) or \
                        (isinstance(n, ast.Name) and n.id == var and not isinstance(n.ctx, ast.Load)):
                    raise TranslationError(file, st, 'loop body rebinds `%s` or leaves the loop early in %s' % (var, fname))
            for c in lit.elts:
                body = [_subst({var: c}, x) for x in st.body]
                out += normalize_build(body, file, fname)
            continue
        st = _setattr_to_assign(st)
        if isinstance(st, ast.If):
            st = copy.deepcopy(st)
            if isinstance(st.test, ast.BoolOp) and isinstance(st.test.op, ast.And) and not st.orelse:
                inner = st.body
                for t in reversed(st.test.values[1:]):
                    inner = [ast.copy_location(ast.If(test=t, body=inner, orelse=[]), st)]
                st = ast.copy_location(ast.If(test=st.test.values[0], body=inner, orelse=[]), st)
            st.body = normalize_build(st.body, file, fname)
            st.orelse = normalize_build(st.orelse, file, fname)
            ast.fix_missing_locations(st)
        out.append(st)
    return out


def tr_build(cls, fn, file):
    args = [a.arg for a in fn.args.args]
    body = normalize_build(body_wo_doc(fn), file, fn.name)
    out = {'cls': cls, 'name': fn.name, 'file': file, 'line': fn.lineno, 'params': args[1:], 'items': [],
           'plain': [], 'dict': None, 'sets_built': False, 'sets_hyper': False}

    aliases = {}

    def plain_assign(st):
        # self.a = <expr>  or  self.a, self.b = <expr>  or a local  name = <expr>  (no attribute is stored)
        if not isinstance(st, ast.Assign) or len(st.targets) != 1:
            raise TranslationError(file, st, 'unsupported statement in %s' % fn.name)
        tg = st.targets[0]
        tgs = tg.elts if isinstance(tg, ast.Tuple) else [tg]
        if all(isinstance(t, ast.Name) for t in tgs):
            for t in tgs:
                if t.id in args or t.id in aliases or t.id in RESERVED:
                    raise TranslationError(file, st, 'local `%s` rebinds a parameter or a name T1 relies on in %s' % (t.id, fn.name))
            if len(tgs) == 1 and dict_expr(st.value) is not None:
                aliases[tgs[0].id] = dict_expr(st.value)      # another name for the dictionary
            else:
                for t in tgs:
                    aliases[t.id] = None                       # an ordinary local (e.g. feeding a log message)
            return
        for t in tgs:
            if not _is_self_attr(t):
                raise TranslationError(file, st, 'unsupported assignment target in %s' % fn.name)
            if t.attr.startswith('_'):
                raise TranslationError(file, st, 'store `self.%s` bypasses the property setter' % t.attr)
            out['plain'].append(t.attr)
            if t.attr == 'built' and isinstance(st.value, ast.Constant) and st.value.value is True:
                out['sets_built'] = True
            if t.attr == 'hyperparams':
                out['sets_hyper'] = True

    def dict_expr(n):
        if isinstance(n, ast.Name) and n.id in args[1:]:
            return n.id
        if isinstance(n, ast.Name) and aliases.get(n.id):
            return aliases[n.id]
        if _is_self_attr(n) and not n.attr.startswith('_'):
            return 'self.' + n.attr
        return None

    def is_item(it):
        return (isinstance(it, ast.If) and isinstance(it.test, ast.Compare) and len(it.test.ops) == 1
                and isinstance(it.test.ops[0], ast.In) and dict_expr(it.test.comparators[0]) is not None)

    for st in body:
        if isinstance(st, ast.If):
            if is_item(st):
                # `if 'k' in D:` without the enclosing `if D:` -- the same once D went through the `hyperparams` setter
                d = dict_expr(st.test.comparators[0])
                if not (d == 'self.hyperparams' or out['sets_hyper']):
                    raise TranslationError(file, st, 'key test on a dictionary that was not validated first in %s' % fn.name)
                blk = [st]
            else:
                d = dict_expr(st.test)
                blk = st.body
                if d is None or st.orelse:
                    raise TranslationError(file, st, 'unsupported `if` in %s' % fn.name)
            if out['dict'] is not None and out['dict'] != d:
                raise TranslationError(file, st, 'two different dictionaries in %s' % fn.name)
            out['dict'] = d
            for it in blk:
                ok = (isinstance(it, ast.If) and not it.orelse and len(it.body) == 1
                      and isinstance(it.test, ast.Compare) and len(it.test.ops) == 1 and isinstance(it.test.ops[0], ast.In)
                      and isinstance(it.test.left, ast.Constant) and isinstance(it.test.left.value, str)
                      and dict_expr(it.test.comparators[0]) == d)
                if not ok:
                    raise TranslationError(file, it, 'expected `if \'key\' in %s: self.key = %s[\'key\']`' % (d, d))
                a = it.body[0]
                ok = (isinstance(a, ast.Assign) and len(a.targets) == 1 and _is_self_attr(a.targets[0])
                      and isinstance(a.value, ast.Subscript) and dict_expr(a.value.value) == d
                      and isinstance(a.value.slice, ast.Constant) and isinstance(a.value.slice.value, str))
                if not ok:
                    raise TranslationError(file, it, 'expected `self.key = %s[\'key\']`' % d)
                if a.targets[0].attr.startswith('_'):
                    raise TranslationError(file, a, 'store `self.%s` bypasses the property setter' % a.targets[0].attr)
                out['items'].append({'test': it.test.left.value, 'read': a.value.slice.value,
                                     'attr': a.targets[0].attr, 'line': it.lineno})
        else:
            plain_assign(st)
    return out


# ---------------------------------------------------------------- whole files

def scan_class(cnode, file, info, errors, module_funcs=None):
    cls = cnode.name
    hctx = {'module': module_funcs or {}, 'cls': cls,
            'klass': {f.name: f for f in cnode.body if isinstance(f, ast.FunctionDef)
                      and not any(isinstance(d, ast.Attribute) or (isinstance(d, ast.Name) and d.id == 'property')
                                  for d in f.decorator_list)}}
    bases = []
    for b in cnode.bases:
        bases.append(b.id if isinstance(b, ast.Name) else ast.unparse(b))
    cinfo = {'name': cls, 'file': file, 'line': cnode.lineno, 'bases': bases, 'guards': [], 'builds': [],
             'init_params': None, 'init_calls': []}
    info['classes'].append(cinfo)
    for fn in cnode.body:
        if not isinstance(fn, ast.FunctionDef):
            continue
        setter_of = None
        for d in fn.decorator_list:
            if isinstance(d, ast.Attribute) and d.attr == 'setter' and isinstance(d.value, ast.Name):
                setter_of = d.value.id
        if setter_of is not None:
            item = 'setter %s.%s' % (cls, fn.name)
            msgs = messages_in(fn)
            fallback = {'cls': cls, 'attr': fn.name, 'file': file, 'line': fn.lineno, 'pre': None,
                        'clauses': None, 'doms': [], 'model_error': None}
            try:
                if setter_of != fn.name:
                    raise TranslationError(file, fn, 'decorator @%s.setter on function %s' % (setter_of, fn.name))
                g = tr_setter(cls, fn, file, hctx)
                g['doms'] = [c['dom'] for c in g['clauses']]
                g['model_error'] = None
                cinfo['guards'].append(g)
            except TranslationError as ex:
                errors.append({'item': item, 'file': ex.file, 'line': ex.line, 'msg': ex.msg})
                fallback['model_error'] = '%s:%s: %s' % (ex.file, ex.line, ex.msg)
                for m, node in msgs:          # the oracle still gets whatever the messages document
                    try:
                        fallback['doms'].append(parse_message(m, fn.name, file, node))
                    except TranslationError:
                        pass
                cinfo['guards'].append(fallback)
        elif fn.name in ('_build', '_rebuild'):
            try:
                cinfo['builds'].append(tr_build(cls, fn, file))
            except TranslationError as ex:
                errors.append({'item': '%s.%s' % (cls, fn.name), 'file': ex.file, 'line': ex.line, 'msg': ex.msg})
                # the oracle still learns which dictionary keys the method tests (`'k' in <dict>`)
                keys = []
                for n in ast.walk(fn):
                    if (isinstance(n, ast.Compare) and len(n.ops) == 1 and isinstance(n.ops[0], ast.In)
                            and isinstance(n.left, ast.Constant) and isinstance(n.left.value, str)
                            and n.left.value not in keys):
                        keys.append(n.left.value)
                if keys:
                    cinfo['builds'].append({'cls': cls, 'name': fn.name, 'file': file, 'line': fn.lineno,
                                            'params': [a.arg for a in fn.args.args][1:], 'plain': [], 'dict': 'hyperparams',
                                            'sets_built': False, 'sets_hyper': False, 'model_error': ex.msg,
                                            'items': [{'test': k, 'read': k, 'attr': k, 'line': fn.lineno} for k in keys]})
        else:
            if fn.name == '__init__':
                a = fn.args
                names = [x.arg for x in a.args][1:]
                defaults = [None] * (len(names) - len(a.defaults)) + [ast.unparse(d) for d in a.defaults]
                cinfo['init_params'] = list(zip(names, defaults))
                cinfo['init_reads'] = sorted({x.id for x in ast.walk(fn) if isinstance(x, ast.Name) and isinstance(x.ctx, ast.Load) and x.id in set(names)})
                # a constructor hands its arguments on as it received them: a parameter that is re-bound (`x = x or default`, a
                # normalisation, a copy) reaches the validated setters as another value than the caller gave
                pset = set(names)
                for n in ast.walk(fn):
                    tg = []
                    if isinstance(n, ast.Assign):
                        tg = n.targets
                    elif isinstance(n, (ast.AugAssign, ast.AnnAssign)):
                        tg = [n.target]
                    elif isinstance(n, ast.NamedExpr):
                        tg = [n.target]
                    elif isinstance(n, (ast.For, ast.comprehension)):
                        tg = [n.target]
                    elif isinstance(n, ast.withitem) and n.optional_vars is not None:
                        tg = [n.optional_vars]
                    for t in tg:
                        for x in ast.walk(t):
                            if isinstance(x, ast.Name) and x.id in pset:
                                errors.append({'item': '%s.__init__' % cls, 'file': file, 'line': getattr(n, 'lineno', fn.lineno),
                                               'msg': 'the constructor re-binds its parameter `%s`' % x.id})
                for n in ast.walk(fn):
                    if (isinstance(n, ast.Call) and isinstance(n.func, ast.Attribute) and _is_self_attr(n.func)
                            and n.func.attr in ('_build', '_rebuild')):
                        cinfo['init_calls'].append([n.func.attr, [ast.unparse(x) for x in n.args]])
            # no private store outside the setter of that attribute
            for n in ast.walk(fn):
                tgs = []
                if isinstance(n, ast.Assign):
                    tgs = n.targets
                elif isinstance(n, (ast.AugAssign, ast.AnnAssign)):
                    tgs = [n.target]
                for t in tgs:
                    for tt in (t.elts if isinstance(t, ast.Tuple) else [t]):
                        if _is_self_attr(tt) and tt.attr.startswith('_') and not tt.attr.startswith('__'):
                            errors.append({'item': 'private store in %s.%s' % (cls, fn.name), 'file': file,
                                           'line': n.lineno,
                                           'msg': '`self.%s` is written outside the setter of `%s` (validation bypassed)'
                                                  % (tt.attr, tt.attr[1:])})


def resolve(info, cls, attr):
    """the guard of `attr` for class `cls`: own or inherited (single inheritance by class name)"""
    by_name = {c['name']: c for c in info['classes']}
    seen = set()
    while cls in by_name and cls not in seen:
        seen.add(cls)
        c = by_name[cls]
        for g in c['guards']:
            if g['attr'] == attr:
                return g
        cls = c['bases'][0] if c['bases'] else None
    return None


def all_guards_of(info, cls):
    by_name = {c['name']: c for c in info['classes']}
    out, names, seen = [], set(), set()
    while cls in by_name and cls not in seen:
        seen.add(cls)
        c = by_name[cls]
        for g in c['guards']:
            if g['attr'] not in names:
                names.add(g['attr'])
                out.append(g)
        cls = c['bases'][0] if c['bases'] else None
    return out


# ---------------------------------------------------------------- Coq rendering

def cq(nd):
    n, d = nd
    return '(Qmake (%d) %d)' % (n, d)


def coq_term(t):
    k = t[0]
    if k == 'val':
        return 'TVal'
    if k == 'const':
        return '(TConst %s)' % cq(t[1:])
    if k == 'self':
        return '(TSelf %s)' % coq_str(t[1])
    return {'shape0': 'TShape0', 'len': 'TLen', 'nparams': 'TNParams'}[k]


def coq_strs(ss):
    return '[' + '; '.join(coq_str(s) for s in ss) + ']'


def coq_cond(c):
    k = c[0]
    if k == 'isinst':
        return '(CIsInst [%s])' % '; '.join(c[1])
    if k == 'callable':
        return 'CCallable'
    if k == 'truthy':
        return 'CTruthy'
    if k == 'built':
        return 'CBuilt'
    if k == 'cmp':
        return '(CCmp %s %s %s)' % (c[1], coq_term(c[2]), coq_term(c[3]))
    if k == 'instr':
        return '(CInStr %s)' % coq_strs(c[1])
    if k == 'not':
        return '(CNot %s)' % coq_cond(c[1])
    if k == 'and':
        return '(CAnd %s %s)' % (coq_cond(c[1]), coq_cond(c[2]))
    if k == 'or':
        return '(COr %s %s)' % (coq_cond(c[1]), coq_cond(c[2]))
    raise ValueError(k)


def coq_dom(d):
    k = d[0]
    if k == 'type':
        return '(DType [%s])' % '; '.join(d[1])
    if k == 'callable':
        return 'DCallable'
    if k == 'cmp':
        return '(DCmp %s %s)' % (d[1], cq(d[2]))
    if k == 'between':
        return '(DBetween %s %s)' % (cq(d[1]), cq(d[2]))
    if k == 'cmpself':
        return '(DCmpSelf %s %s)' % (d[1], coq_str(d[2]))
    if k == 'sizeeq':
        return '(DSizeEq %s)' % coq_str(d[1])
    if k == 'arity':
        return '(DArity %d)' % d[1]
    if k == 'oneof':
        return '(DOneOf %s)' % coq_strs(d[1])
    if k == 'built':
        return 'DBuilt'
    raise ValueError(k)


def gname(g):
    return 'g_%s_%s' % (g['cls'], g['attr'])


def coq_guard(g):
    cl = []
    for c in g['clauses']:
        cl.append('     {| c_cond := %s;\n        c_kind := %s; c_dom := %s;\n        c_msg := %s |}'
                  % (coq_cond(c['cond']), c['kind'], coq_dom(c['dom']), coq_str(c['msg'])))
    pre = 'None' if g['pre'] is None else 'Some (%s, %s)' % (coq_str(g['pre'][0]), coq_str(g['pre'][1]))
    return ('(* %s:%d *)\nDefinition %s : guard :=\n  {| g_class := %s; g_attr := %s; g_pre := %s;\n     g_clauses := [\n%s] |}.\n'
            % (g['file'], g['line'], gname(g), coq_str(g['cls']), coq_str(g['attr']), pre, ';\n'.join(cl)))


def generate(repo):
    info = {'classes': [], 'files': []}
    errors = []
    for rel in files_of(repo):
        path = os.path.join(repo, rel)
        try:
            tree = ast.parse(open(path).read(), filename=rel)
            unelif_raising(tree)
        except (OSError, SyntaxError) as ex:
            errors.append({'item': 'file ' + rel, 'file': rel, 'line': 0, 'msg': 'cannot parse: %s' % ex})
            continue
        info['files'].append(rel)
        for n in tree.body:
            if isinstance(n, ast.ClassDef):
                scan_class(n, rel, info, errors, {f.name: f for f in tree.body if isinstance(f, ast.FunctionDef)})
    out = [HEADER, '(* T1: property setters and hyperparameter builds of the anchored classes *)',
           'From Coq Require Import ZArith QArith List String.', 'From OV Require Import Model.Guards.',
           'Import ListNotations.', 'Open Scope string_scope.', 'Open Scope Z_scope.', 'Open Scope list_scope.', '']
    names = []
    for c in info['classes']:
        for g in c['guards']:
            if g['clauses'] is None:
                continue
            out.append(coq_guard(g))
            names.append(gname(g))
    out.append('Definition all_guards : list guard :=\n  [%s].\n' % ';\n   '.join(names))
    bnames = []
    for c in info['classes']:
        for b in c['builds']:
            if b['dict'] is None or b.get('model_error'):
                continue
            rows = []
            bad = False
            for it in b['items']:
                if it['test'] != it['read']:
                    errors.append({'item': '%s.%s' % (c['name'], b['name']), 'file': b['file'], 'line': it['line'],
                                   'msg': 'tests key %r but reads key %r' % (it['test'], it['read'])})
                g = resolve(info, c['name'], it['attr'])
                if g is None or g['clauses'] is None:
                    errors.append({'item': '%s.%s' % (c['name'], b['name']), 'file': b['file'], 'line': it['line'],
                                   'msg': 'attribute `%s` assigned from key %r has no translated property setter'
                                          % (it['attr'], it['read'])})
                    bad = True
                    continue
                it['guard'] = gname(g)
                it['guard_cls'] = g['cls']
                rows.append('(%s, %s)' % (coq_str(it['read']), gname(g)))
            if bad:
                continue
            nm = 'b_%s%s' % (c['name'], b['name'])
            out.append('(* %s:%d *)\nDefinition %s : list (string * guard) :=\n  [%s].\n'
                       % (b['file'], b['line'], nm, '; '.join(rows)))
            b['coq'] = nm
            bnames.append('(%s, %s)' % (coq_str(c['name'] + '.' + b['name']), nm))
    out.append('Definition all_builds : list (string * list (string * guard)) :=\n  [%s].\n' % ';\n   '.join(bnames))
    # constructors must route their dictionaries through _build/_rebuild
    for c in info['classes']:
        for b in c['builds']:
            called = [x[0] for x in c['init_calls']]
            if b['dict'] is not None and c['init_params'] is not None and b['name'] not in called:
                errors.append({'item': '%s.__init__' % c['name'], 'file': c['file'], 'line': c['line'],
                               'msg': 'constructor does not call self.%s' % b['name']})
    return '\n'.join(out), info, errors


if __name__ == '__main__':
    import sys
    import json
    text, info, errors = generate(sys.argv[1] if len(sys.argv) > 1 else '/repo')
    print(text)
    print(json.dumps(errors, indent=1), file=sys.stderr)
