"""T-sel (C18): regenerates coq/theories/Gen/SelDescr.v -- the BODIES of `tournament_selection` and `pairwise`
(opytimizer/math/general.py) as data of type `fdescr` (language and interpreter: Model/SelDescr.v; the model's own
descriptions and the proofs that their interpretation is Model.Prims.tournament / Model.Prims.pairwise:
Model/SelModel.v; `Gen = model description` is a reflexivity theorem of Props/C18.v).  Pure `ast`, fail closed:
nothing from /repo is imported or executed, and everything outside the shapes below is a TranslationError.

Understood (v, w locals or parameters; e expressions):
    v = e                                   SAssign v e        (e is not a bare name: no aliasing)
    v.append(e)   |   v += [e]              SAppend v e        (v is bound only by `v = []` / `v = list()`)
    for _ in range(e): ...                  SFor e [...]       (the loop variable is never read)
    return e                                SReturn e
    [] | list()           ENil              () | tuple()                    EUnit
    <constants>.TOURNAMENT_SIZE  ETourSize  <numpy>.random.choice(e)        EChoice e    (one positional argument only)
    [e for _ in range(k)] EComp e k         min(e) | max(e)                 EMin e | EMax e
    a <op> b              ECmp op a b       <numpy>.where(e)                EWhere e
    e[k]                  EIndex e k        (k an integer literal, possibly negative)
    iter(e)               EIter e           iter(f, s)                      EIterUntil f s
    islice(e, k)          EIslice e k       tuple(e)                        ETuple e
    lambda: e             ELambda e
Normalisation (each one is semantics-preserving in Python for the shapes accepted):
  * variables are numbered by first occurrence, parameters first: renamings are invisible; loop variables are not
    part of the description (they must never be read);
  * docstrings, comments, `pass`, logger calls are ignored; a nested `def f(): return e` read once is `lambda: e` there;
  * `v += [e]` = `v.append(e)` for a variable bound only by an empty-list literal;
  * `v = []` directly followed by `for _ in range(k): v.append(e)` (one statement, e does not read v) is the
    comprehension `v = [e for _ in range(k)]`;
  * `int(<subscript>)` is the subscript (np.int64 -> int keeps the index);
  * a comparison between a bare name and a non-name is written with the non-name first (`fitness == min(step)` is
    `min(step) == fitness`, `<`/`>` mirrored): NumPy broadcasts the scalar either way.
NOT normalised (a different description, so the build of Props/C18.vo breaks): `np.argmin`-style rewrites, another
index, another comparison, another draw count, `np.random.choice(fitness, k)` as one call, another chunk size or
sentinel.
"""
import ast
from .common import TranslationError, parse, find_func, body_wo_doc, is_logger_call, src_of, HEADER, inline_local_defs

R_GEN = 'opytimizer/math/general.py'
BUILTINS = ('min', 'max', 'iter', 'tuple', 'range', 'int', 'list')
CMP = {ast.Eq: 'OEq', ast.NotEq: 'ONe', ast.Lt: 'OLt', ast.LtE: 'OLe', ast.Gt: 'OGt', ast.GtE: 'OGe'}
MIRROR = {'OEq': 'OEq', 'ONe': 'ONe', 'OLt': 'OGt', 'OLe': 'OGe', 'OGt': 'OLt', 'OGe': 'OLe'}
DUMMY = '{| fd_params := 0; fd_vars := 0; fd_body := [] |}'


def _int_lit(node):
    """integer literal, possibly signed -> int, else None"""
    if isinstance(node, ast.UnaryOp) and isinstance(node.op, (ast.USub, ast.UAdd)):
        v = _int_lit(node.operand)
        return None if v is None else (-v if isinstance(node.op, ast.USub) else v)
    if isinstance(node, ast.Constant) and isinstance(node.value, int) and not isinstance(node.value, bool):
        return node.value
    return None


class _Module:
    """what the names used by the two functions are bound to at module level"""

    def __init__(self, tree):
        self.tree = tree
        self.numpy, self.constants, self.islice, self.itertools = set(), set(), set(), set()
        bound = {}

        def bind(name):
            bound[name] = bound.get(name, 0) + 1
        for st in tree.body:
            if isinstance(st, ast.Import):
                for al in st.names:
                    nm = al.asname or al.name.split('.')[0]
                    bind(nm)
                    if al.name == 'numpy':
                        self.numpy.add(nm)
                    if al.name == 'itertools':
                        self.itertools.add(nm)
                    if al.name == 'opytimizer.utils.constants' and al.asname:
                        self.constants.add(al.asname)
            elif isinstance(st, ast.ImportFrom):
                for al in st.names:
                    nm = al.asname or al.name
                    bind(nm)
                    if st.level == 0 and st.module == 'itertools' and al.name == 'islice':
                        self.islice.add(nm)
                    if st.level == 0 and st.module == 'opytimizer.utils' and al.name == 'constants':
                        self.constants.add(nm)
            elif isinstance(st, (ast.FunctionDef, ast.AsyncFunctionDef, ast.ClassDef)):
                bind(st.name)
            else:
                for n in ast.walk(st):
                    if isinstance(n, ast.Name) and isinstance(n.ctx, (ast.Store, ast.Del)):
                        bind(n.id)
        self.bound = bound
        for n in ast.walk(tree):
            if isinstance(n, (ast.Global, ast.Nonlocal)):
                raise TranslationError(R_GEN, n, '`global` / `nonlocal` declaration: module names may be re-bound at run time')
        for nm in self.numpy | self.constants | self.islice | self.itertools:
            if bound.get(nm, 0) != 1:
                raise TranslationError(R_GEN, tree, 'module-level name `%s` is bound more than once' % nm)
        for nm in BUILTINS:
            if nm in bound:
                raise TranslationError(R_GEN, tree, 'the builtin `%s` is re-bound at module level' % nm)


class _Fn:
    def __init__(self, mod, fn):
        self.mod, self.fn = mod, fn
        a = fn.args
        if a.vararg or a.kwarg or a.kwonlyargs or a.posonlyargs or a.defaults or a.kw_defaults or fn.decorator_list:
            self.err(fn, '%s: only plain positional parameters, no defaults, no decorators' % fn.name)
        self.params = [x.arg for x in a.args]
        if len(set(self.params)) != len(self.params):
            self.err(fn, 'duplicate parameter')
        self.vars = {p: i for i, p in enumerate(self.params)}
        self.loads = {n.id for n in ast.walk(fn) if isinstance(n, ast.Name) and isinstance(n.ctx, ast.Load)}
        stores = {n.id for n in ast.walk(fn) if isinstance(n, ast.Name) and isinstance(n.ctx, (ast.Store, ast.Del))}
        for nm in BUILTINS:
            if nm in stores or nm in self.params:
                self.err(fn, 'the builtin `%s` is re-bound inside %s' % (nm, fn.name))
        for nm in mod.numpy | mod.constants | mod.islice | mod.itertools:
            if nm in stores or nm in self.params:
                self.err(fn, 'the module-level name `%s` is shadowed inside %s' % (nm, fn.name))
        # variables bound only by `v = []` / `v = list()` (plain assignment statements), never otherwise
        self.assigns = {}
        for n in ast.walk(fn):
            if isinstance(n, ast.Assign):
                for t in n.targets:
                    for m in ast.walk(t):
                        if isinstance(m, ast.Name):
                            self.assigns.setdefault(m.id, []).append(n)
            elif n is not fn and isinstance(n, (ast.AnnAssign, ast.NamedExpr, ast.With, ast.AsyncWith, ast.Try, ast.Import, ast.ImportFrom,
                                ast.FunctionDef, ast.AsyncFunctionDef, ast.ClassDef, ast.Delete, ast.Match)):
                self.err(n, 'unsupported construct `%s`' % type(n).__name__)

    def err(self, node, msg):
        raise TranslationError(R_GEN, node, msg)

    # ---------------------------------------------------------------- names
    def var(self, node, store=False):
        if not isinstance(node, ast.Name):
            self.err(node, 'expected a plain name, got %s' % type(node).__name__)
        nm = node.id
        if nm in self.vars:
            return self.vars[nm]
        if not store:
            self.err(node, 'unknown name `%s` (read before any assignment / not a parameter)' % nm)
        self.vars[nm] = len(self.vars)
        return self.vars[nm]

    def is_empty_list(self, v):
        return (isinstance(v, ast.List) and not v.elts) or \
               (isinstance(v, ast.Call) and isinstance(v.func, ast.Name) and v.func.id == 'list' and not v.args and not v.keywords)

    def list_only(self, node):
        """node: a Name bound in this function only by empty-list assignments (so `+= [x]` and `.append(x)` agree)"""
        nm = node.id
        if nm in self.params:
            self.err(node, '`%s` is a parameter: its type is not known to be a list' % nm)
        asg = self.assigns.get(nm, [])
        if not asg or not all(len(a.targets) == 1 and isinstance(a.targets[0], ast.Name) and self.is_empty_list(a.value) for a in asg):
            self.err(node, '`%s` is not bound only by an empty-list literal' % nm)
        for n in ast.walk(self.fn):
            if isinstance(n, (ast.For, ast.comprehension)):
                for m in ast.walk(n.target):
                    if isinstance(m, ast.Name) and m.id == nm:
                        self.err(node, '`%s` is also a loop variable' % nm)

    def loop_target(self, t):
        if not isinstance(t, ast.Name):
            self.err(t, 'the loop variable must be a plain name')
        if t.id in self.loads or t.id in self.params:
            self.err(t, 'the loop variable `%s` is read (or is a parameter): only counting loops are recognised' % t.id)
        if t.id in self.assigns:
            self.err(t, 'the loop variable `%s` is also assigned' % t.id)

    def range_count(self, it):
        if not (isinstance(it, ast.Call) and isinstance(it.func, ast.Name) and it.func.id == 'range'
                and len(it.args) == 1 and not it.keywords and not isinstance(it.args[0], ast.Starred)):
            self.err(it, 'expected range(<count>) with one argument')
        return it.args[0]

    # ---------------------------------------------------------------- expressions
    def attr_is(self, node, bases, *attrs):
        """node is <base>.a1.a2... with base one of `bases`"""
        for a in reversed(attrs):
            if not (isinstance(node, ast.Attribute) and node.attr == a):
                return False
            node = node.value
        return isinstance(node, ast.Name) and node.id in bases

    def args1(self, call, n, what):
        if len(call.args) != n or call.keywords or any(isinstance(a, ast.Starred) for a in call.args):
            self.err(call, '%s takes exactly %d positional argument%s here (got `%s`)'
                     % (what, n, '' if n == 1 else 's', ast.unparse(call)))
        return call.args

    def expr(self, n):
        if isinstance(n, ast.Name):
            if not isinstance(n.ctx, ast.Load):
                self.err(n, 'unexpected store')
            return '(EVar %d)' % self.var(n)
        if self.is_empty_list(n):
            return 'ENil'
        if isinstance(n, ast.Tuple) and not n.elts:
            return 'EUnit'
        if isinstance(n, ast.Attribute):
            if self.attr_is(n, self.mod.constants, 'TOURNAMENT_SIZE'):
                return 'ETourSize'
            self.err(n, 'unsupported attribute `%s`' % ast.unparse(n))
        if isinstance(n, ast.Call):
            f = n.func
            if self.attr_is(f, self.mod.numpy, 'random', 'choice'):
                a, = self.args1(n, 1, 'np.random.choice')
                return '(EChoice %s)' % self.expr(a)
            if self.attr_is(f, self.mod.numpy, 'where'):
                a, = self.args1(n, 1, 'np.where')
                return '(EWhere %s)' % self.expr(a)
            if (isinstance(f, ast.Name) and f.id in self.mod.islice) or self.attr_is(f, self.mod.itertools, 'islice'):
                a, k = self.args1(n, 2, 'islice')
                kv = _int_lit(k)
                if kv is None or kv < 0:
                    self.err(k, 'the chunk size of islice must be a non-negative integer literal')
                return '(EIslice %s %d)' % (self.expr(a), kv)
            if isinstance(f, ast.Name) and f.id in ('min', 'max'):
                a, = self.args1(n, 1, f.id)
                return '(%s %s)' % ('EMin' if f.id == 'min' else 'EMax', self.expr(a))
            if isinstance(f, ast.Name) and f.id == 'iter':
                if len(n.args) == 2:
                    a, s = self.args1(n, 2, 'iter')
                    return '(EIterUntil %s %s)' % (self.expr(a), self.expr(s))
                a, = self.args1(n, 1, 'iter')
                return '(EIter %s)' % self.expr(a)
            if isinstance(f, ast.Name) and f.id == 'tuple':
                if not n.args and not n.keywords:
                    return 'EUnit'
                a, = self.args1(n, 1, 'tuple')
                return '(ETuple %s)' % self.expr(a)
            if isinstance(f, ast.Name) and f.id == 'int':
                a, = self.args1(n, 1, 'int')
                if not isinstance(a, ast.Subscript):
                    self.err(n, 'int(...) is recognised around an index expression only')
                return self.expr(a)
            self.err(n, 'unsupported call `%s`' % ast.unparse(n))
        if isinstance(n, ast.Compare):
            if len(n.ops) != 1 or type(n.ops[0]) not in CMP:
                self.err(n, 'unsupported comparison `%s`' % ast.unparse(n))
            op, left, right = CMP[type(n.ops[0])], n.left, n.comparators[0]
            if isinstance(left, ast.Name) and not isinstance(right, ast.Name):
                op, left, right = MIRROR[op], right, left
            a = self.expr(left)
            b = self.expr(right)
            return '(ECmp %s %s %s)' % (op, a, b)
        if isinstance(n, ast.Subscript):
            k = _int_lit(n.slice)
            if k is None:
                self.err(n, 'only integer-literal subscripts are recognised (got `[%s]`)' % ast.unparse(n.slice))
            return '(EIndex %s (%d)%%Z)' % (self.expr(n.value), k)
        if isinstance(n, ast.ListComp):
            if len(n.generators) != 1:
                self.err(n, 'one generator expected')
            g = n.generators[0]
            if g.ifs or g.is_async:
                self.err(n, 'filtered / asynchronous comprehension')
            self.loop_target(g.target)
            cnt = self.range_count(g.iter)
            body = self.expr(n.elt)
            return '(EComp %s %s)' % (body, self.expr(cnt))
        if isinstance(n, ast.Lambda):
            a = n.args
            if a.args or a.vararg or a.kwarg or a.kwonlyargs or a.posonlyargs or a.defaults or a.kw_defaults:
                self.err(n, 'only `lambda: <expression>` (no parameters) is recognised')
            return '(ELambda %s)' % self.expr(n.body)
        self.err(n, 'unsupported expression `%s`' % ast.unparse(n))

    # ---------------------------------------------------------------- statements
    def append_of(self, s):
        """`v.append(e)` / `v += [e]` -> (Name v, e) or None"""
        if (isinstance(s, ast.Expr) and isinstance(s.value, ast.Call) and isinstance(s.value.func, ast.Attribute)
                and s.value.func.attr == 'append' and isinstance(s.value.func.value, ast.Name)):
            c = s.value
            if len(c.args) != 1 or c.keywords or isinstance(c.args[0], ast.Starred):
                self.err(s, 'append takes one argument')
            return c.func.value, c.args[0]
        if (isinstance(s, ast.AugAssign) and isinstance(s.op, ast.Add) and isinstance(s.target, ast.Name)
                and isinstance(s.value, ast.List) and len(s.value.elts) == 1 and not isinstance(s.value.elts[0], ast.Starred)):
            return s.target, s.value.elts[0]
        return None

    def skip(self, s):
        return isinstance(s, ast.Pass) or is_logger_call(s) or \
            (isinstance(s, ast.Expr) and isinstance(s.value, ast.Constant) and isinstance(s.value.value, str))

    def block(self, stmts):
        stmts = [s for s in stmts if not self.skip(s)]
        out = []
        i = 0
        while i < len(stmts):
            s = stmts[i]
            nxt = stmts[i + 1] if i + 1 < len(stmts) else None
            if isinstance(s, ast.Assign):
                if len(s.targets) != 1 or not isinstance(s.targets[0], ast.Name):
                    self.err(s, 'only `name = expression` assignments are recognised')
                tgt = s.targets[0]
                if isinstance(s.value, ast.Name):
                    self.err(s, '`%s = %s` aliases a variable' % (tgt.id, s.value.id))
                # v = [] ; for _ in range(k): v.append(e)      ==      v = [e for _ in range(k)]
                if self.is_empty_list(s.value) and isinstance(nxt, ast.For) and not nxt.orelse:
                    inner = [x for x in nxt.body if not self.skip(x)]
                    ap = self.append_of(inner[0]) if len(inner) == 1 else None
                    if ap is not None and ap[0].id == tgt.id and \
                            tgt.id not in {m.id for m in ast.walk(ap[1]) if isinstance(m, ast.Name)} and \
                            tgt.id not in {m.id for m in ast.walk(nxt.iter) if isinstance(m, ast.Name)}:
                        self.list_only(ap[0])
                        self.loop_target(nxt.target)
                        cnt = self.range_count(nxt.iter)
                        v = self.var(tgt, store=True)
                        body = self.expr(ap[1])
                        out.append('SAssign %d (EComp %s %s)' % (v, body, self.expr(cnt)))
                        i += 2
                        continue
                e = self.expr(s.value)
                out.append('SAssign %d %s' % (self.var(tgt, store=True), e))
            elif self.append_of(s) is not None:
                tgt, arg = self.append_of(s)
                self.list_only(tgt)
                v = self.var(tgt)
                out.append('SAppend %d %s' % (v, self.expr(arg)))
            elif isinstance(s, ast.For):
                if s.orelse:
                    self.err(s, 'for ... else')
                self.loop_target(s.target)
                cnt = self.expr(self.range_count(s.iter))
                out.append('SFor %s\n      [ %s ]' % (cnt, ';\n        '.join(self.block(s.body))))
            elif isinstance(s, ast.Return):
                if s.value is None:
                    self.err(s, 'bare return')
                out.append('SReturn %s' % self.expr(s.value))
            else:
                self.err(s, 'unsupported statement `%s`' % ast.unparse(s).split('\n')[0][:80])
            i += 1
        return out


def fn_descr(repo, fname, params):
    tree, src = parse(repo, R_GEN)
    inline_local_defs(tree)            # a nested one-expression def read once is the lambda written at that place
    mod = _Module(tree)
    fn = find_func(tree, fname)
    if fn is None:
        raise TranslationError(R_GEN, tree, '%s not found' % fname)
    if mod.bound.get(fname, 0) != 1:
        raise TranslationError(R_GEN, fn, '%s is bound more than once at module level' % fname)
    tr = _Fn(mod, fn)
    if len(tr.params) != params:
        raise TranslationError(R_GEN, fn, '%s: expected %d parameter(s), got %s' % (fname, params, tr.params))
    body = tr.block(body_wo_doc(fn))
    term = '{| fd_params := %d; fd_vars := %d;\n     fd_body :=\n    [ %s ] |}' % (len(tr.params), len(tr.vars), ';\n      '.join(body))
    order = sorted(tr.vars, key=tr.vars.get)
    return term, fn.lineno, 'def %s(%s): variables %s' % (fname, ', '.join(tr.params), ', '.join('%d=%s' % (tr.vars[k], k) for k in order))


def generate(repo):
    """-> (text of Gen/SelDescr.v, items, errors)"""
    items, errors, defs = [], [], []
    for name, fname, params in (('tournament_src', 'tournament_selection', 2), ('pairwise_src', 'pairwise', 1)):
        try:
            try:
                term, line, what = fn_descr(repo, fname, params)
            except (KeyError, IndexError, AttributeError, TypeError, ValueError, SyntaxError, OSError) as ex:
                raise TranslationError(R_GEN, None, 'translator: %r' % (ex,))
            defs.append('(* %s:%d %s *)\nDefinition %s : fdescr :=\n  %s.\n' % (R_GEN, line, what, name, term))
            items.append({'file': R_GEN, 'line': line, 'text': '%s := %s' % (name, ' '.join(term.split())[:330])})
        except TranslationError as ex:
            errors.append({'item': name, 'file': ex.file or R_GEN, 'line': ex.line, 'msg': ex.msg})
            # an obviously different value: the equality theorem of Props/C18.v breaks as well
            defs.append('(* %s: translation FAILED: %s *)\nDefinition %s : fdescr := %s.\n'
                        % (fname, ex.msg.replace('*)', '* )').replace('(*', '( *').replace('"', "'"), name, DUMMY))
    text = (HEADER + 'From Coq Require Import ZArith List.\nFrom OV Require Import Model.SelDescr.\nImport ListNotations.\n\n'
            + '\n'.join(defs))
    return text, items, errors
