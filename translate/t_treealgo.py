"""T-treealgo (C11): the work-list algorithms of core/node.py -> descriptions over Model/TreeAlgoDescr.v.

  generate(repo) -> Gen/TreeAlgoDescr.v :
      pre_order_descr  : option pre_descr     Node.pre_order   (initial stack, loop condition, loop body)
      post_order_descr : option post_descr    Node.post_order  (inner descent body, outer body, break condition)
      properties_descr : option props_descr   _properties + the four property wrappers (initial values, statements
                                              before the per-node loop, per-node body, which accumulator each property reads)
      find_node_descr  : option find_descr    Node.find_node   (which traversal, the decision tree of returns, default)

Pure `ast`; nothing from /repo is imported or executed.  Fail-closed: a statement, expression or loop shape
outside the recognised subset raises TranslationError; the item is then emitted as `None` (so the theorem
`Gen... = Some descr_X` of Props/C11.v cannot hold) and the error is returned to props/C11.py.

Normalised spellings (same description): local renames of the lists / node variable / accumulators; comments,
docstrings, logger calls, `pass`; `x += [a, b]` / `x.extend([a, b])` = two appends; `n = n + 1` = `n += 1`;
`len(x) > 0`, `len(x) != 0`, `len(x) >= 1`, `0 < len(x)`, bare `x` = non-empty; `len(x) == 0`, `not x`, `len(x) < 1`
= empty; `not (a is None)` = `a is not None`; nested / flat `and`; `None is a`; `x.pop(-1)`;
`for i, n in enumerate(xs)` / `for i in range(len(xs)): n = xs[i]` (i otherwise unused) = `for n in xs`;
`a = b = 0`; dict(...) / {...} for the returned mapping; `position < len(xs)` = `len(xs) > position`.
"""
import ast
import copy
from .common import TranslationError, parse, find_class, find_func, src_of, coq_bool, HEADER

REL = 'opytimizer/core/node.py'
ACC_OF_KEY = {'n_nodes': 'ANodes', 'n_leaves': 'ALeaves', 'min_depth': 'AMin', 'max_depth': 'AMax'}


def clean(stmts):
    """Drop docstrings / bare string expressions, logger.* calls and `pass`."""
    out = []
    for s in stmts:
        if isinstance(s, ast.Pass):
            continue
        if isinstance(s, ast.Expr) and isinstance(s.value, ast.Constant) and isinstance(s.value.value, str):
            continue
        if (isinstance(s, ast.Expr) and isinstance(s.value, ast.Call) and isinstance(s.value.func, ast.Attribute)
                and isinstance(s.value.func.value, ast.Name) and s.value.func.value.id in ('logger', 'logging')):
            from translate.common import logger_args_inert
            why = logger_args_inert(s.value)
            if why:
                raise TranslationError(REL, s, 'a logging statement is only skipped when building its message can neither raise nor change anything: %s' % why)
            continue
        out.append(s)
    return out


def is_none(e):
    return isinstance(e, ast.Constant) and e.value is None


def is_int(e, v=None):
    ok = isinstance(e, ast.Constant) and isinstance(e.value, int) and not isinstance(e.value, bool)
    return ok and (v is None or e.value == v)


def int_value(e):
    if is_int(e):
        return e.value
    if isinstance(e, ast.UnaryOp) and isinstance(e.op, ast.USub) and is_int(e.operand):
        return -e.operand.value
    return None


def len_of(e):
    """len(NAME) -> NAME"""
    if (isinstance(e, ast.Call) and isinstance(e.func, ast.Name) and e.func.id == 'len' and len(e.args) == 1
            and not e.keywords and isinstance(e.args[0], ast.Name)):
        return e.args[0].id
    return None


class Env:
    """Roles of the local names of one function."""

    def __init__(self, cur=None, stack=None, out=None, nxt=None, accs=None, level=None):
        self.cur, self.stack, self.out, self.nxt, self.level = cur, stack, out, nxt, level
        self.accs = accs or {}

    def wl(self, name, node):
        if name is not None and name == self.stack:
            return 'WStack'
        if name is not None and name == self.out:
            return 'WOut'
        if name is not None and name == self.nxt:
            return 'WNext'
        raise TranslationError(REL, node, 'list `%s` has no role in this function' % name)


# ---------------------------------------------------------------- expressions, conditions, statements
def nexp(e, env):
    if isinstance(e, ast.Name) and env.cur is not None and e.id == env.cur:
        return 'NCur'
    if is_none(e):
        return 'NNone'
    if isinstance(e, ast.Attribute) and e.attr in ('left', 'right'):
        return '(%s %s)' % ('NLeft' if e.attr == 'left' else 'NRight', nexp(e.value, env))
    if (isinstance(e, ast.Subscript) and isinstance(e.value, ast.Name) and e.value.id == env.stack
            and int_value(e.slice) == -1):
        return 'NTop'
    raise TranslationError(REL, e, 'unrecognised node expression `%s`' % ast.unparse(e))


def flatten_and(e):
    if isinstance(e, ast.BoolOp) and isinstance(e.op, ast.And):
        out = []
        for v in e.values:
            out += flatten_and(v)
        return out
    return [e]


def emptiness(e, env):
    """'CNonEmpty' / 'CEmpty' for a test on the popped list, else None."""
    if isinstance(e, ast.Name) and e.id == env.stack:
        return 'CNonEmpty'
    if len_of(e) == env.stack and env.stack is not None:
        return 'CNonEmpty'
    if isinstance(e, ast.Compare) and len(e.ops) == 1:
        a, op, b = e.left, e.ops[0], e.comparators[0]
        if len_of(b) == env.stack and env.stack is not None and int_value(a) is not None:      # 0 < len(x)  ->  len(x) > 0
            flip = {ast.Lt: ast.Gt, ast.LtE: ast.GtE, ast.Gt: ast.Lt, ast.GtE: ast.LtE, ast.Eq: ast.Eq, ast.NotEq: ast.NotEq}
            if type(op) not in flip:
                return None
            a, op, b = b, flip[type(op)](), a
        if len_of(a) == env.stack and env.stack is not None and int_value(b) is not None:
            k = int_value(b)
            t = type(op)
            if (t, k) in ((ast.Gt, 0), (ast.NotEq, 0), (ast.GtE, 1)):
                return 'CNonEmpty'
            if (t, k) in ((ast.Eq, 0), (ast.Lt, 1), (ast.LtE, 0)):
                return 'CEmpty'
    return None


def cond(e, env):
    parts = flatten_and(e)
    if len(parts) > 1:
        cs = [cond(p, env) for p in parts]
        out = cs[-1]
        for c in reversed(cs[:-1]):
            out = '(CAnd %s %s)' % (c, out)
        return out
    if isinstance(e, ast.UnaryOp) and isinstance(e.op, ast.Not):
        inner = cond(e.operand, env)
        neg = {'CNonEmpty': 'CEmpty', 'CEmpty': 'CNonEmpty'}
        if inner in neg:
            return neg[inner]
        if inner.startswith('(CIsNone '):
            return '(CNotNone ' + inner[len('(CIsNone '):]
        if inner.startswith('(CNotNone '):
            return '(CIsNone ' + inner[len('(CNotNone '):]
        raise TranslationError(REL, e, 'unrecognised negation `%s`' % ast.unparse(e))
    em = emptiness(e, env)
    if em is not None:
        return em
    if isinstance(e, ast.Compare) and len(e.ops) == 1:
        a, op, b = e.left, e.ops[0], e.comparators[0]
        if isinstance(op, (ast.Is, ast.IsNot)):
            if is_none(a) and not is_none(b):
                a, b = b, a
            if is_none(b):
                return '(%s %s)' % ('CIsNone' if isinstance(op, ast.Is) else 'CNotNone', nexp(a, env))
            if isinstance(op, ast.Is):
                return '(CIs %s %s)' % (nexp(a, env), nexp(b, env))
        if isinstance(op, ast.Eq):
            if is_int(a, 0):
                a, b = b, a
            if is_int(b, 0) and isinstance(a, ast.Name) and a.id in env.accs:
                return '(CZero %s)' % env.accs[a.id]
    raise TranslationError(REL, e, 'unrecognised condition `%s`' % ast.unparse(e))


def is_pop(e, env):
    return (isinstance(e, ast.Call) and isinstance(e.func, ast.Attribute) and e.func.attr == 'pop'
            and isinstance(e.func.value, ast.Name) and e.func.value.id == env.stack and not e.keywords
            and (len(e.args) == 0 or (len(e.args) == 1 and int_value(e.args[0]) == -1)))


def appends(name, elts, env, node):
    w = env.wl(name, node)
    return ['SAppend %s %s' % (w, nexp(x, env)) for x in elts]


def stmts(body, env, bind_cur=False):
    """Python statements -> list of Coq stmt terms.  bind_cur: `v = stacked.pop()` may introduce the node variable."""
    out = []
    for s in clean(body):
        if isinstance(s, ast.Expr) and isinstance(s.value, ast.Call):
            c = s.value
            if is_pop(c, env):
                out.append('SPopDrop')
                continue
            if (isinstance(c.func, ast.Attribute) and isinstance(c.func.value, ast.Name) and not c.keywords
                    and len(c.args) == 1):
                if c.func.attr == 'append':
                    out += appends(c.func.value.id, [c.args[0]], env, s)
                    continue
                if c.func.attr == 'extend' and isinstance(c.args[0], (ast.List, ast.Tuple)):
                    out += appends(c.func.value.id, c.args[0].elts, env, s)
                    continue
            raise TranslationError(REL, s, 'unrecognised call `%s`' % ast.unparse(s))
        if isinstance(s, ast.AugAssign) and isinstance(s.target, ast.Name) and isinstance(s.op, ast.Add):
            if isinstance(s.value, (ast.List, ast.Tuple)):
                out += appends(s.target.id, s.value.elts, env, s)
                continue
            if s.target.id in env.accs and is_int(s.value, 1):
                out.append('SInc %s' % env.accs[s.target.id])
                continue
            raise TranslationError(REL, s, 'unrecognised update `%s`' % ast.unparse(s))
        if isinstance(s, ast.Assign) and len(s.targets) == 1 and isinstance(s.targets[0], ast.Name):
            v, e = s.targets[0].id, s.value
            if is_pop(e, env):
                if env.cur is None and bind_cur:
                    env.cur = v
                if v != env.cur:
                    raise TranslationError(REL, s, 'pop() into `%s`, which is not the node variable' % v)
                out.append('SPopCur')
                continue
            if v in env.accs:
                if (isinstance(e, ast.BinOp) and isinstance(e.op, ast.Add)
                        and ((isinstance(e.left, ast.Name) and e.left.id == v and is_int(e.right, 1))
                             or (isinstance(e.right, ast.Name) and e.right.id == v and is_int(e.left, 1)))):
                    out.append('SInc %s' % env.accs[v])
                    continue
                if isinstance(e, ast.Name) and e.id in env.accs:
                    out.append('SCopy %s %s' % (env.accs[v], env.accs[e.id]))
                    continue
                raise TranslationError(REL, s, 'unrecognised accumulator update `%s`' % ast.unparse(s))
            if env.cur is not None and v == env.cur:
                out.append('SSetCur %s' % nexp(e, env))
                continue
            raise TranslationError(REL, s, 'assignment to `%s`, which has no role here' % v)
        if isinstance(s, ast.If):
            out.append('SIf %s %s %s' % (cond(s.test, env), coq_list(stmts(s.body, env)), coq_list(stmts(s.orelse, env))))
            continue
        raise TranslationError(REL, s, 'unrecognised statement `%s`' % ast.unparse(s).split('\n')[0])
    return out


def coq_list(xs):
    return '[' + '; '.join(xs) + ']'


def list_inits(pre, fn):
    """Leading `NAME = [ ... ]` assignments -> {name: elts}."""
    lists = {}
    for s in pre:
        if not (isinstance(s, ast.Assign) and len(s.targets) == 1 and isinstance(s.targets[0], ast.Name)
                and isinstance(s.value, ast.List)):
            raise TranslationError(REL, s, 'unrecognised statement before the loop `%s`' % ast.unparse(s).split('\n')[0])
        if s.targets[0].id in lists:
            raise TranslationError(REL, s, 'list `%s` initialised twice' % s.targets[0].id)
        lists[s.targets[0].id] = s.value.elts
    return lists


def split_loop(fn, what):
    """body = inits..., one while loop, `return NAME`."""
    body = clean(fn.body)
    if len(body) < 2 or not isinstance(body[-1], ast.Return) or not isinstance(body[-1].value, ast.Name):
        raise TranslationError(REL, fn, '%s: expected to end with `return <list>`' % what)
    if not isinstance(body[-2], ast.While) or body[-2].orelse:
        raise TranslationError(REL, body[-2], '%s: expected one while loop followed by the return' % what)
    return body[:-2], body[-2], body[-1].value.id


# ---------------------------------------------------------------- the four functions
def two_lists(fn, what):
    pre, loop, ret = split_loop(fn, what)
    lists = list_inits(pre, fn)
    if len(lists) != 2 or ret not in lists:
        raise TranslationError(REL, fn, '%s: expected exactly a result list and a work list before the loop' % what)
    if lists[ret]:
        raise TranslationError(REL, fn, '%s: the result list must start empty' % what)
    stack = [n for n in lists if n != ret][0]
    return lists, loop, ret, stack


def pre_order(cls, src, items):
    fn = find_func(cls, 'pre_order')
    if fn is None:
        raise TranslationError(REL, cls, 'Node.pre_order not found')
    lists, loop, out, stack = two_lists(fn, 'pre_order')
    init = [nexp(e, Env(cur='self')) for e in lists[stack]]
    env = Env(cur=None, stack=stack, out=out)
    c = cond(loop.test, env)
    body = stmts(loop.body, env, bind_cur=True)
    items.append({'file': REL, 'line': loop.lineno, 'text': src_of(src, loop).split('\n')[0]})
    return '{| pre_init := %s; pre_cond := %s; pre_body := %s |}' % (coq_list(init), c, coq_list(body))


def post_order(cls, src, items):
    fn = find_func(cls, 'post_order')
    if fn is None:
        raise TranslationError(REL, cls, 'Node.post_order not found')
    # the node variable: `self` itself (re-bound by the traversal), or one local initialised `<node> = self` before the loop
    cur = 'self'
    alias = [st for st in clean(fn.body) if isinstance(st, ast.Assign) and len(st.targets) == 1 and isinstance(st.targets[0], ast.Name)
             and isinstance(st.value, ast.Name) and st.value.id == 'self']
    if alias:
        if len(alias) > 1 or alias[0] not in fn.body:
            raise TranslationError(REL, alias[0], 'post_order: more than one alias of self')
        cur = alias[0].targets[0].id
        fn2 = ast.FunctionDef(name=fn.name, args=fn.args, body=[st for st in fn.body if st is not alias[0]], decorator_list=[], returns=None)
        ast.copy_location(fn2, fn)
        for n in ast.walk(fn2):
            if isinstance(n, ast.Name) and n.id == 'self':
                raise TranslationError(REL, n, 'post_order: `self` is used next to its alias `%s`' % cur)
        fn = fn2
    lists, loop, out, stack = two_lists(fn, 'post_order')
    if cur in lists:
        raise TranslationError(REL, fn, 'post_order: the node variable is also a list')
    if lists[stack]:
        raise TranslationError(REL, fn, 'post_order: the work list must start empty')
    if not (isinstance(loop.test, ast.Constant) and loop.test.value in (True, 1)):
        raise TranslationError(REL, loop, 'post_order: expected `while True:`')
    env = Env(cur=cur, stack=stack, out=out)
    body = clean(loop.body)
    if len(body) < 3 or not isinstance(body[0], ast.While) or body[0].orelse:
        raise TranslationError(REL, loop, 'post_order: expected the inner `while self is not None:` first')
    inner = body[0]
    if cond(inner.test, env) != '(CNotNone NCur)':
        raise TranslationError(REL, inner, 'post_order: the inner loop must run while the node variable is not None')
    ib = clean(inner.body)
    last = ib[-1] if ib else None
    if not (isinstance(last, ast.Assign) and len(last.targets) == 1 and isinstance(last.targets[0], ast.Name)
            and last.targets[0].id == cur and nexp(last.value, env) == '(NLeft NCur)'):
        raise TranslationError(REL, inner, 'post_order: the inner loop must end with `self = self.left`')
    descend = stmts(ib[:-1], env)
    if any(('SSetCur' in d or 'SPopCur' in d) for d in descend):
        raise TranslationError(REL, inner, 'post_order: the inner loop assigns the node variable before its last statement')
    brk = body[-1]
    if not (isinstance(brk, ast.If) and not brk.orelse and len(clean(brk.body)) == 1 and isinstance(clean(brk.body)[0], ast.Break)):
        raise TranslationError(REL, brk, 'post_order: the outer loop must end with `if <cond>: break`')
    for s in body[1:-1]:
        for n in ast.walk(s):
            if isinstance(n, (ast.Break, ast.Continue, ast.Return)):
                raise TranslationError(REL, n, 'post_order: break / continue / return inside the loop body')
    main = stmts(body[1:-1], env)
    items.append({'file': REL, 'line': body[1].lineno, 'text': src_of(src, body[1]).split('\n')[0]})
    return '{| post_descend := %s; post_body := %s; post_break := %s |}' % (coq_list(descend), coq_list(main), cond(brk.test, env))


def for_nodes(loop, level):
    """`for n in level` (also enumerate / range(len) spellings) -> (node variable, body)."""
    if not isinstance(loop, ast.For) or loop.orelse:
        raise TranslationError(REL, loop, '_properties: expected the per-node for loop')
    it, tg, body = loop.iter, loop.target, clean(loop.body)
    if isinstance(it, ast.Name) and it.id == level and isinstance(tg, ast.Name):
        return tg.id, body

    def unused(i, where):
        return not any(isinstance(n, ast.Name) and n.id == i for s in where for n in ast.walk(s))
    if (isinstance(it, ast.Call) and isinstance(it.func, ast.Name) and it.func.id == 'enumerate' and len(it.args) == 1
            and not it.keywords and isinstance(it.args[0], ast.Name) and it.args[0].id == level
            and isinstance(tg, ast.Tuple) and len(tg.elts) == 2 and all(isinstance(x, ast.Name) for x in tg.elts)
            and unused(tg.elts[0].id, body)):
        return tg.elts[1].id, body
    if (isinstance(it, ast.Call) and isinstance(it.func, ast.Name) and it.func.id == 'range' and len(it.args) == 1
            and len_of(it.args[0]) == level and isinstance(tg, ast.Name) and body
            and isinstance(body[0], ast.Assign) and len(body[0].targets) == 1 and isinstance(body[0].targets[0], ast.Name)
            and isinstance(body[0].value, ast.Subscript) and isinstance(body[0].value.value, ast.Name)
            and body[0].value.value.id == level and isinstance(body[0].value.slice, ast.Name)
            and body[0].value.slice.id == tg.id and unused(tg.id, body[1:])):
        return body[0].targets[0].id, body[1:]
    raise TranslationError(REL, loop, '_properties: unrecognised iteration over the current level')


def properties(tree, cls, src, items):
    fn = find_func(tree, '_properties')
    if fn is None:
        raise TranslationError(REL, tree, '_properties not found')
    params = [a.arg for a in fn.args.args]
    if len(params) != 1 or fn.args.vararg or fn.args.kwarg or fn.args.kwonlyargs or fn.args.defaults:
        raise TranslationError(REL, fn, '_properties: expected one parameter')
    body = clean(fn.body)
    if len(body) < 3 or not isinstance(body[-1], ast.Return) or not isinstance(body[-2], ast.While) or body[-2].orelse:
        raise TranslationError(REL, fn, '_properties: expected initialisations, one while loop, one return')
    ret, loop = body[-1].value, body[-2]
    if isinstance(ret, ast.Dict) and all(isinstance(k, ast.Constant) for k in ret.keys):
        pairs = [(k.value, v) for k, v in zip(ret.keys, ret.values)]
    elif isinstance(ret, ast.Call) and isinstance(ret.func, ast.Name) and ret.func.id == 'dict' and not ret.args:
        pairs = [(k.arg, k.value) for k in ret.keywords]
    else:
        raise TranslationError(REL, body[-1], '_properties: expected to return a dict literal')
    if sorted(k for k, _ in pairs) != sorted(ACC_OF_KEY) or not all(isinstance(v, ast.Name) for _, v in pairs):
        raise TranslationError(REL, body[-1], '_properties: the dict must map exactly %s to local names' % sorted(ACC_OF_KEY))
    accs = {v.id: ACC_OF_KEY[k] for k, v in pairs}
    if len(accs) != 4:
        raise TranslationError(REL, body[-1], '_properties: one local returned under two keys')
    init, level = {}, None
    for s in body[:-2]:
        if not isinstance(s, ast.Assign) or not all(isinstance(t, ast.Name) for t in s.targets):
            raise TranslationError(REL, s, '_properties: unrecognised statement before the loop `%s`' % ast.unparse(s).split('\n')[0])
        names = [t.id for t in s.targets]
        if all(n in accs for n in names) and int_value(s.value) is not None:
            for n in names:
                if n in init:
                    raise TranslationError(REL, s, '_properties: `%s` initialised twice' % n)
                init[n] = int_value(s.value)
        elif (len(names) == 1 and level is None and isinstance(s.value, ast.List) and len(s.value.elts) == 1
              and isinstance(s.value.elts[0], ast.Name) and s.value.elts[0].id == params[0]):
            level = names[0]
        else:
            raise TranslationError(REL, s, '_properties: unrecognised initialisation `%s`' % ast.unparse(s))
    if level is None or sorted(init) != sorted(accs):
        raise TranslationError(REL, fn, '_properties: every accumulator and the level list must be initialised once')
    by_role = {accs[n]: v for n, v in init.items()}
    if by_role['ANodes'] < 0 or by_role['ALeaves'] < 0:
        raise TranslationError(REL, fn, '_properties: a counter starts negative')
    if emptiness(loop.test, Env(stack=level)) != 'CNonEmpty':
        raise TranslationError(REL, loop, '_properties: the loop must run while the current level is non-empty')
    lb = clean(loop.body)
    fors = [i for i, s in enumerate(lb) if isinstance(s, ast.For)]
    if len(fors) != 1 or fors[0] != len(lb) - 2:
        raise TranslationError(REL, loop, '_properties: expected <updates>, one for loop, `<level> = <next level>`')
    last = lb[-1]
    if not (isinstance(last, ast.Assign) and len(last.targets) == 1 and isinstance(last.targets[0], ast.Name)
            and last.targets[0].id == level and isinstance(last.value, ast.Name)):
        raise TranslationError(REL, last, '_properties: the loop must end with `%s = <next level>`' % level)
    nxt = last.value.id
    resets = [s for s in lb[:fors[0]] if isinstance(s, ast.Assign) and len(s.targets) == 1 and isinstance(s.targets[0], ast.Name)
              and s.targets[0].id == nxt and isinstance(s.value, ast.List) and not s.value.elts]
    if len(resets) != 1:
        raise TranslationError(REL, loop, '_properties: `%s = []` must appear once before the for loop' % nxt)
    pre = stmts([s for s in lb[:fors[0]] if s is not resets[0]], Env(accs=accs))
    var, fbody = for_nodes(lb[fors[0]], level)
    per_node = stmts(fbody, Env(cur=var, nxt=nxt, accs=accs))
    # the four property wrappers: return _properties(self)['key']
    rets = []
    for prop in ('n_nodes', 'n_leaves', 'min_depth', 'max_depth'):
        w = find_func(cls, prop)
        wb = clean(w.body) if w is not None else []
        ok = (len(wb) == 1 and isinstance(wb[0], ast.Return) and isinstance(wb[0].value, ast.Subscript)
              and isinstance(wb[0].value.slice, ast.Constant) and wb[0].value.slice.value in ACC_OF_KEY
              and isinstance(wb[0].value.value, ast.Call) and isinstance(wb[0].value.value.func, ast.Name)
              and wb[0].value.value.func.id == '_properties' and not wb[0].value.value.keywords
              and len(wb[0].value.value.args) == 1 and isinstance(wb[0].value.value.args[0], ast.Name)
              and wb[0].value.value.args[0].id == 'self')
        if not ok:
            raise TranslationError(REL, w or cls, "Node.%s: expected `return _properties(self)['<key>']`" % prop)
        rets.append(ACC_OF_KEY[wb[0].value.slice.value])
    items.append({'file': REL, 'line': lb[fors[0]].lineno, 'text': src_of(src, lb[fors[0]]).split('\n')[0]})
    return ('{| pr_init_nodes := %d; pr_init_leaves := %d; pr_init_min := (%d)%%Z; pr_init_max := (%d)%%Z; '
            'pr_pre := %s; pr_body := %s; pr_ret := (%s) |}'
            % (by_role['ANodes'], by_role['ALeaves'], by_role['AMin'], by_role['AMax'], coq_list(pre), coq_list(per_node),
               ', '.join(rets)))


def pexp(e, node):
    if isinstance(e, ast.Name) and e.id == node:
        return 'PNode'
    if isinstance(e, ast.Attribute) and e.attr == 'parent':
        return '(PParent %s)' % pexp(e.value, node)
    raise TranslationError(REL, e, 'find_node: unrecognised expression `%s`' % ast.unparse(e))


def fret(s, node):
    v = s.value
    if not (isinstance(s, ast.Return) and isinstance(v, ast.Tuple) and len(v.elts) == 2):
        raise TranslationError(REL, s, 'find_node: expected `return <node or None>, <flag>`')
    who, fl = v.elts
    w = 'None' if is_none(who) else '(Some %s)' % pexp(who, node)
    if isinstance(fl, ast.Constant) and isinstance(fl.value, bool):
        f = '(FConst %s)' % coq_bool(fl.value)
    elif isinstance(fl, ast.Attribute) and fl.attr == 'flag':
        f = '(FFlagOf %s)' % pexp(fl.value, node)
    else:
        raise TranslationError(REL, fl, 'find_node: unrecognised flag expression `%s`' % ast.unparse(fl))
    return '(FRet %s %s)' % (w, f)


def _subst(node_ast, env):
    class Sub(ast.NodeTransformer):
        def visit_Name(self, n):
            if isinstance(n.ctx, ast.Load) and n.id in env:
                return copy.deepcopy(env[n.id])
            return n
    return Sub().visit(copy.deepcopy(node_ast))


def ftree(body, node):
    """A block that is one `return` or one if-chain (nothing after it) -> ftree; an empty block falls through.
    Leading `<local> = <node>.parent...` bindings (attribute reads of the node: pure, and evaluated at once in the original as well,
    since the first statement that follows reads the same chain) are inlined into the rest of the block."""
    body = clean(body)
    env = {}
    while len(body) > 1 and isinstance(body[0], ast.Assign) and len(body[0].targets) == 1 and isinstance(body[0].targets[0], ast.Name):
        name = body[0].targets[0].id
        val = _subst(body[0].value, env)
        if name == node or name in env:
            raise TranslationError(REL, body[0], 'find_node: re-binding of `%s`' % name)
        pexp(val, node)          # must be a parent chain of the node (raises otherwise)
        env[name] = val
        body = body[1:]
    if env:
        rest = [_subst(b, env) for b in body]
        # the binding is evaluated before the test; that is only the original's behaviour if the first thing the rest evaluates is
        # (an extension of) every bound chain -- otherwise an AttributeError of the chain would be raised earlier than before
        first = rest[0].test if isinstance(rest[0], ast.If) else None
        for name, val in env.items():
            if first is None or ast.unparse(val) not in ast.unparse(first):
                raise TranslationError(REL, body[0], 'find_node: local `%s` is not read by the test that follows its binding' % name)
        body = rest
    if not body:
        return 'FFall'
    if len(body) != 1:
        raise TranslationError(REL, body[1], 'find_node: more than one statement in a branch')
    s = body[0]
    if isinstance(s, ast.Return):
        return '(FReturn %s)' % fret(s, node)
    if isinstance(s, ast.If):
        t = s.test
        if (isinstance(t, ast.Compare) and len(t.ops) == 1 and isinstance(t.ops[0], ast.Eq)):
            a, b = t.left, t.comparators[0]
            if isinstance(a, ast.Constant):
                a, b = b, a
            if (isinstance(a, ast.Attribute) and a.attr == 'type' and isinstance(a.value, ast.Name) and a.value.id == node
                    and isinstance(b, ast.Constant) and b.value in ('TERMINAL', 'FUNCTION')):
                return '(FIfType %s %s %s)' % (coq_bool(b.value == 'TERMINAL'), ftree(s.body, node), ftree(s.orelse, node))
            raise TranslationError(REL, t, 'find_node: unrecognised comparison `%s`' % ast.unparse(t))
        return '(FIfTruthy %s %s %s)' % (pexp(t, node), ftree(s.body, node), ftree(s.orelse, node))
    raise TranslationError(REL, s, 'find_node: unrecognised statement `%s`' % ast.unparse(s).split('\n')[0])


def find_node(cls, src, items):
    fn = find_func(cls, 'find_node')
    if fn is None:
        raise TranslationError(REL, cls, 'Node.find_node not found')
    params = [a.arg for a in fn.args.args]
    if len(params) != 2 or params[0] != 'self' or fn.args.vararg or fn.args.kwarg or fn.args.kwonlyargs or fn.args.defaults:
        raise TranslationError(REL, fn, 'find_node: expected the signature (self, position)')
    pos = params[1]
    body = clean(fn.body)
    if len(body) != 3:
        raise TranslationError(REL, fn, 'find_node: expected `<list> = self.<order>`, one guarded block, one default return')
    a, g, d = body
    if not (isinstance(a, ast.Assign) and len(a.targets) == 1 and isinstance(a.targets[0], ast.Name)
            and isinstance(a.value, ast.Attribute) and isinstance(a.value.value, ast.Name) and a.value.value.id == 'self'
            and a.value.attr in ('pre_order', 'post_order')):
        raise TranslationError(REL, a, 'find_node: expected `<list> = self.pre_order`')
    lst = a.targets[0].id
    ok = isinstance(g, ast.If) and not g.orelse and isinstance(g.test, ast.Compare) and len(g.test.ops) == 1
    if ok:
        l, op, r = g.test.left, g.test.ops[0], g.test.comparators[0]
        ok = ((len_of(l) == lst and isinstance(op, ast.Gt) and isinstance(r, ast.Name) and r.id == pos)
              or (len_of(r) == lst and isinstance(op, ast.Lt) and isinstance(l, ast.Name) and l.id == pos))
    if not ok:
        raise TranslationError(REL, g, 'find_node: expected `if len(%s) > %s:` without else' % (lst, pos))
    gb = clean(g.body)
    if not (gb and isinstance(gb[0], ast.Assign) and len(gb[0].targets) == 1 and isinstance(gb[0].targets[0], ast.Name)
            and isinstance(gb[0].value, ast.Subscript) and isinstance(gb[0].value.value, ast.Name)
            and gb[0].value.value.id == lst and isinstance(gb[0].value.slice, ast.Name) and gb[0].value.slice.id == pos):
        raise TranslationError(REL, g, 'find_node: expected `<node> = %s[%s]` first in the guarded block' % (lst, pos))
    node = gb[0].targets[0].id
    tree = ftree(gb[1:], node)
    items.append({'file': REL, 'line': g.lineno, 'text': src_of(src, g).split('\n')[0]})
    return '{| fd_trav := %s; fd_tree := %s; fd_default := %s |}' % (
        'TPre' if a.value.attr == 'pre_order' else 'TPost', tree, fret(d, node))


ITEMS = (('pre_order_descr', 'pre_descr'), ('post_order_descr', 'post_descr'),
         ('properties_descr', 'props_descr'), ('find_node_descr', 'find_descr'))


def generate(repo):
    """-> (text of Gen/TreeAlgoDescr.v, items [{file, line, text}], errors [{item, file, line, msg}])"""
    items, errors, vals = [], [], {}
    try:
        tree, src = parse(repo, REL)
        cls = find_class(tree, 'Node')
        if cls is None:
            raise TranslationError(REL, tree, 'class Node not found')
    except (TranslationError, SyntaxError, OSError) as ex:
        tree = cls = src = None
        errors.append({'item': 'core/node.py', 'file': REL, 'line': getattr(ex, 'line', 0), 'msg': getattr(ex, 'msg', repr(ex))})
    if cls is not None:
        jobs = {'pre_order_descr': lambda: pre_order(cls, src, items), 'post_order_descr': lambda: post_order(cls, src, items),
                'properties_descr': lambda: properties(tree, cls, src, items), 'find_node_descr': lambda: find_node(cls, src, items)}
        for name, _ in ITEMS:
            try:
                vals[name] = jobs[name]()
            except TranslationError as ex:
                errors.append({'item': name, 'file': ex.file, 'line': ex.line, 'msg': ex.msg})
            except (AttributeError, IndexError, TypeError, KeyError) as ex:     # an unexpected AST shape: fail closed
                errors.append({'item': name, 'file': REL, 'line': 0, 'msg': 'unexpected syntax (%r)' % (ex,)})
    lines = [HEADER.rstrip('\n'),
             '(* Descriptions of Node.pre_order / post_order / find_node and _properties of %s (translate/t_treealgo.py).' % REL,
             '   `None` = the translator did not recognise the function (fail closed). *)',
             'From Coq Require Import List ZArith.', 'From OV Require Import Model.TreeAlgoDescr.', 'Import ListNotations.', '']
    for name, ty in ITEMS:
        if name in vals:
            lines.append('Definition %s : option %s := Some\n  %s.' % (name, ty, vals[name]))
        else:
            lines.append('Definition %s : option %s := None.' % (name, ty))
        lines.append('')
    return '\n'.join(lines), items, errors
