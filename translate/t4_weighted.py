"""T4 (C16): WeightedFunction._create_strategy's closure -> a `wf_descr` in Gen/WeightedDescr.v.

Recognised shape (anything else raises TranslationError -- fail closed):

    def _create_strategy(self):
        def pointer(x):
            z = <int literal>
            for (f, w) in zip(self.functions, self.weights):      # either zip order
                z += <step>           # or  z -= / z *= <step>,  or  z = <step>
            return z
        return pointer

<step> ranges over the accumulator, the weight variable, `<fvar>.pointer(<arg>)` with <arg> the closure's
own parameter (AX) or an explicit copy of it (ACopy), integer literals, + - * and unary minus.
Also checked (structure only; the end-to-end behaviour is the correspondence run of harness/c16.py):
  * `_build` wraps the given callables in order (`[Function(pointer=f) for f in functions]`), stores the
    closure returned by `self._create_strategy()` in `self.pointer` and sets `self.built = True`;
  * `__init__` stores `functions` / `weights` and calls `self._build(functions)`; the two setters store
    their argument unchanged (statements that only raise are allowed everywhere as guards);
  * the public attribute names of `Function` and `WeightedFunction` (`weighted_iface`, `function_iface`).
Nothing from /repo is imported or executed.
"""
import ast
from .common import TranslationError, parse, find_class, find_func, body_wo_doc, src_of, coq_str, HEADER

REL = 'opytimizer/functions/weighted.py'
REL_FN = 'opytimizer/core/function.py'
COPIES = ('np.copy', 'np.array', 'np.asarray', 'numpy.copy', 'numpy.array', 'copy.copy', 'copy.deepcopy', 'deepcopy')


def _is_guard(s):
    """`if <cond>: raise ...` (no else): cannot change a value, only reject."""
    return (isinstance(s, ast.If) and not s.orelse and len(s.body) >= 1
            and all(isinstance(b, ast.Raise) for b in s.body))


def _no_guards(stmts):
    """drop `if c: raise ...` guards; flatten `if c: <S> else: raise ...` and `if c: raise ... else: <S>` to <S>:
    in every spelling <S> runs exactly when nothing is raised"""
    out = []
    for s in stmts:
        if _is_guard(s):
            continue
        if isinstance(s, ast.If) and s.orelse and s.body:
            if all(isinstance(b, ast.Raise) for b in s.orelse):
                out += _no_guards(s.body)
                continue
            if all(isinstance(b, ast.Raise) for b in s.body):
                out += _no_guards(s.orelse)
                continue
        out.append(s)
    return out


def _pure(node):
    """an expression that cannot have an effect we care about: no calls, no walrus, no await/yield, no lambda"""
    return not any(isinstance(n, (ast.Call, ast.NamedExpr, ast.Await, ast.Yield, ast.YieldFrom, ast.Lambda))
                   for n in ast.walk(node))


def _local_assign(s, taken):
    """`name = <expr>` to a fresh local name (not a parameter, not assigned before) -> name, else None"""
    if isinstance(s, ast.Assign) and len(s.targets) == 1 and isinstance(s.targets[0], ast.Name) \
            and s.targets[0].id not in taken and s.targets[0].id != 'self':
        return s.targets[0].id
    return None


def _module_names(tree):
    """names bound at module level (imports, classes, functions, assignments) plus the builtins the shapes rely on:
    a local with such a name would change what `Function(...)`, `zip(...)` mean"""
    out = {'zip', 'self', 'list', 'callable', 'isinstance', 'len'}
    for n in tree.body:
        if isinstance(n, (ast.Import, ast.ImportFrom)):
            out |= {(al.asname or al.name).split('.')[0] for al in n.names}
        elif isinstance(n, (ast.ClassDef, ast.FunctionDef)):
            out.add(n.name)
        elif isinstance(n, ast.Assign):
            out |= {t.id for t in n.targets if isinstance(t, ast.Name)}
    return out


def _self_attr(node, attr=None):
    return (isinstance(node, ast.Attribute) and isinstance(node.value, ast.Name) and node.value.id == 'self'
            and (attr is None or node.attr == attr))


def _single_param(fn, file, allow_self=False):
    a = fn.args
    names = [x.arg for x in a.args]
    if a.vararg or a.kwarg or a.kwonlyargs or a.posonlyargs:
        raise TranslationError(file, fn, '%s: unexpected parameter kinds' % fn.name)
    if allow_self:
        if not names or names[0] != 'self':
            raise TranslationError(file, fn, '%s: first parameter must be self' % fn.name)
        names = names[1:]
    return names


def _expr(node, env, file):
    """env: {'acc': z, 'w': w, 'f': f, 'x': x}  -> Coq wexpr text"""
    if isinstance(node, ast.Name):
        if node.id == env['acc']:
            return 'EAcc'
        if node.id == env['w']:
            return 'EW'
        raise TranslationError(file, node, 'step uses `%s`, which is neither the accumulator nor the weight' % node.id)
    if isinstance(node, ast.Constant) and isinstance(node.value, int) and not isinstance(node.value, bool):
        return '(EInt (%d)%%Z)' % node.value
    if isinstance(node, ast.Constant) and isinstance(node.value, float) and node.value == int(node.value) \
            and abs(node.value) < 2 ** 53:
        return '(EInt (%d)%%Z)' % int(node.value)
    if isinstance(node, ast.UnaryOp) and isinstance(node.op, ast.USub):
        return '(ENeg %s)' % _expr(node.operand, env, file)
    if isinstance(node, ast.UnaryOp) and isinstance(node.op, ast.UAdd):
        return _expr(node.operand, env, file)
    if isinstance(node, ast.BinOp) and isinstance(node.op, (ast.Add, ast.Sub, ast.Mult)):
        c = {ast.Add: 'EAdd', ast.Sub: 'ESub', ast.Mult: 'EMul'}[type(node.op)]
        return '(%s %s %s)' % (c, _expr(node.left, env, file), _expr(node.right, env, file))
    if isinstance(node, ast.Call):
        fn = node.func
        if not (isinstance(fn, ast.Attribute) and fn.attr == 'pointer' and isinstance(fn.value, ast.Name)
                and fn.value.id == env['f']):
            raise TranslationError(file, node, 'only `%s.pointer(...)` may be called in the step' % env['f'])
        if len(node.args) != 1 or node.keywords:
            raise TranslationError(file, node, 'component must be called with exactly one positional argument')
        return '(ECall %s)' % _arg(node.args[0], env, file)
    raise TranslationError(file, node, 'unrecognised step expression `%s`' % ast.dump(node)[:80])


def _arg(a, env, file):
    if isinstance(a, ast.Name) and a.id == env['x']:
        return 'AX'
    # explicit copies of the closure's own argument
    if isinstance(a, ast.Call) and not a.keywords:
        if isinstance(a.func, ast.Attribute) and a.func.attr == 'copy' and not a.args \
                and isinstance(a.func.value, ast.Name) and a.func.value.id == env['x']:
            return 'ACopy'
        if ast.unparse(a.func) in COPIES and len(a.args) == 1 and isinstance(a.args[0], ast.Name) \
                and a.args[0].id == env['x']:
            return 'ACopy'
    raise TranslationError(file, a, 'component is not called on the closure\'s own argument `%s` (got `%s`)'
                           % (env['x'], ast.unparse(a)))


def strategy_descr(repo, items):
    tree, src = parse(repo, REL)
    c = find_class(tree, 'WeightedFunction')
    fn = find_func(c, '_create_strategy') if c else None
    if fn is None:
        raise TranslationError(REL, c, 'WeightedFunction._create_strategy not found')
    if _single_param(fn, REL, allow_self=True):
        raise TranslationError(REL, fn, '_create_strategy takes parameters')
    st = body_wo_doc(fn)
    if not (len(st) == 2 and isinstance(st[0], ast.FunctionDef) and isinstance(st[1], ast.Return)
            and isinstance(st[1].value, ast.Name) and st[1].value.id == st[0].name):
        raise TranslationError(REL, fn, '_create_strategy must define one closure and return it')
    clo = st[0]
    if clo.decorator_list:
        raise TranslationError(REL, clo, 'decorated closure')
    ps = _single_param(clo, REL)
    if len(ps) != 1 or clo.args.defaults:
        raise TranslationError(REL, clo, 'the closure must take exactly one argument (got %s)' % ps)
    x = ps[0]
    body = body_wo_doc(clo)
    # single-assignment local aliases `name = self.<attr>` inside the closure are read at every call, like
    # self.<attr> itself (an alias bound OUTSIDE the closure would freeze the lists at build time: rejected below
    # because _create_strategy may only contain the closure and its return)
    alias = {}
    rest = []
    for st in body:
        if (isinstance(st, ast.Assign) and len(st.targets) == 1 and isinstance(st.targets[0], ast.Name)
                and _self_attr(st.value) and not any(isinstance(b, ast.For) for b in rest)):
            if st.targets[0].id in alias or st.targets[0].id in _module_names(tree):
                raise TranslationError(REL, st, 'alias `%s` assigned twice or shadows a module-level name' % st.targets[0].id)
            alias[st.targets[0].id] = st.value
        else:
            rest.append(st)
    body = rest
    if len(body) != 3:
        raise TranslationError(REL, clo, 'closure body must be: init; for-loop; return (got %d statements)' % len(body))
    init, loop, ret = body
    if not (isinstance(init, ast.Assign) and len(init.targets) == 1 and isinstance(init.targets[0], ast.Name)):
        raise TranslationError(REL, init, 'expected `z = <int literal>`')
    z = init.targets[0].id
    v = init.value
    if isinstance(v, ast.UnaryOp) and isinstance(v.op, ast.USub) and isinstance(v.operand, ast.Constant):
        v = ast.Constant(value=-v.operand.value)
    if not (isinstance(v, ast.Constant) and type(v.value) is int and abs(v.value) < 2 ** 53):
        # `z = 0.0` is NOT the same strategy: it turns exact integer sums (integer components and weights) into rounded floats
        raise TranslationError(REL, init, 'initial value must be an integer literal (a float literal changes integer-valued sums)')
    init_val = int(v.value)
    if not (isinstance(loop, ast.For) and not loop.orelse):
        raise TranslationError(REL, loop, 'expected a for loop over zip(self.functions, self.weights)')
    t = loop.target
    if not (isinstance(t, ast.Tuple) and len(t.elts) == 2 and all(isinstance(e, ast.Name) for e in t.elts)):
        raise TranslationError(REL, loop, 'loop target must be a pair of names')
    it = loop.iter
    if not (isinstance(it, ast.Call) and isinstance(it.func, ast.Name) and it.func.id == 'zip'
            and len(it.args) == 2 and not it.keywords):
        raise TranslationError(REL, loop, 'loop must iterate over zip(self.functions, self.weights)')
    zargs = [alias[a.id] if isinstance(a, ast.Name) and a.id in alias else a for a in it.args]
    if not all(_self_attr(a) for a in zargs):
        raise TranslationError(REL, loop, 'loop must iterate over zip(self.functions, self.weights)')
    bound = {zargs[0].attr: t.elts[0].id, zargs[1].attr: t.elts[1].id}
    if set(bound) != {'functions', 'weights'}:
        raise TranslationError(REL, loop, 'zip must pair self.functions with self.weights (got %s)' % sorted(bound))
    f, w = bound['functions'], bound['weights']
    if len({f, w, z, x} | set(alias)) != 4 + len(alias):
        raise TranslationError(REL, loop, 'names of accumulator, argument, function, weight and aliases must be distinct')
    env = {'acc': z, 'w': w, 'f': f, 'x': x}
    if len(loop.body) != 1:
        raise TranslationError(REL, loop, 'loop body must be a single update of `%s`' % z)
    s = loop.body[0]
    if isinstance(s, ast.AugAssign) and isinstance(s.target, ast.Name) and s.target.id == z \
            and isinstance(s.op, (ast.Add, ast.Sub, ast.Mult)):
        c = {ast.Add: 'EAdd', ast.Sub: 'ESub', ast.Mult: 'EMul'}[type(s.op)]
        step = '(%s EAcc %s)' % (c, _expr(s.value, env, REL))
    elif isinstance(s, ast.Assign) and len(s.targets) == 1 and isinstance(s.targets[0], ast.Name) \
            and s.targets[0].id == z:
        step = _expr(s.value, env, REL)
    else:
        raise TranslationError(REL, s, 'loop body must update the accumulator `%s`' % z)
    if not (isinstance(ret, ast.Return) and isinstance(ret.value, ast.Name) and ret.value.id == z):
        raise TranslationError(REL, ret, 'closure must return the accumulator `%s`' % z)
    items.append({'file': REL, 'line': s.lineno, 'text': src_of(src, loop).replace('\n', ' ; ')[:300]})
    return '{| wd_init := (%d)%%Z; wd_step := %s |}' % (init_val, step)


def _stores_param(fn, attr, param, file):
    """setter body (guards removed) is `self._attr = param`"""
    st = _no_guards(body_wo_doc(fn))
    if not (len(st) == 1 and isinstance(st[0], ast.Assign) and len(st[0].targets) == 1
            and _self_attr(st[0].targets[0], attr) and isinstance(st[0].value, ast.Name) and st[0].value.id == param):
        raise TranslationError(file, fn, 'setter must store its argument unchanged in self.%s' % attr)


def _props(cls):
    """{name: (getter, setter)} for @property / @name.setter pairs"""
    out = {}
    for n in cls.body:
        if isinstance(n, ast.FunctionDef):
            for d in n.decorator_list:
                if isinstance(d, ast.Name) and d.id == 'property':
                    out.setdefault(n.name, [None, None])[0] = n
                if isinstance(d, ast.Attribute) and d.attr == 'setter' and isinstance(d.value, ast.Name):
                    out.setdefault(d.value.id, [None, None])[1] = n
    return out


def _check_stored_property(cls, name, file):
    """self.<name> is either a plain attribute or a property whose getter/setter return/store self._<name> unchanged."""
    p = _props(cls).get(name)
    if p is None:
        return
    g, s = p
    if g is None or s is None:
        raise TranslationError(file, cls, 'property `%s` lacks a getter or a setter' % name)
    gb = body_wo_doc(g)
    if not (len(gb) == 1 and isinstance(gb[0], ast.Return) and _self_attr(gb[0].value, '_' + name)):
        raise TranslationError(file, g, 'getter of `%s` must return self._%s' % (name, name))
    ps = _single_param(s, file, allow_self=True)
    if len(ps) != 1:
        raise TranslationError(file, s, 'setter of `%s` must take one value' % name)
    _stores_param(s, '_' + name, ps[0], file)


def build_shape(repo, items):
    tree, src = parse(repo, REL)
    c = find_class(tree, 'WeightedFunction')
    if c is None:
        raise TranslationError(REL, tree, 'class WeightedFunction not found')
    for nm in ('functions', 'weights', 'pointer', 'built'):
        _check_stored_property(c, nm, REL)
    init = find_func(c, '__init__')
    build = find_func(c, '_build')
    if init is None or build is None:
        raise TranslationError(REL, c, '__init__ / _build not found')
    ps = _single_param(init, REL, allow_self=True)
    if ps != ['functions', 'weights']:
        raise TranslationError(REL, init, '__init__ must take (functions, weights), got %s' % ps)
    seen = []
    ilocals = set()
    for s in _no_guards(body_wo_doc(init)):
        nm = _local_assign(s, set(ps) | ilocals | _module_names(tree))
        if nm is not None and _pure(s.value):
            ilocals.add(nm)              # a pure temporary (e.g. for a log message): no effect on the object
            continue
        if isinstance(s, ast.Assign) and len(s.targets) == 1 and _self_attr(s.targets[0]) \
                and isinstance(s.value, ast.Name) and s.targets[0].attr == s.value.id and s.value.id in ps:
            seen.append(s.value.id)
        elif isinstance(s, ast.Expr) and isinstance(s.value, ast.Call) and _self_attr(s.value.func, '_build') \
                and [ast.unparse(a) for a in s.value.args] == ['functions'] and not s.value.keywords:
            if 'weights' not in seen:
                raise TranslationError(REL, s, '_build is called before self.weights is stored')
            seen.append('_build')
        else:
            raise TranslationError(REL, s, '__init__: unexpected statement `%s`' % src_of(src, s)[:80])
    if sorted(seen) != ['_build', 'functions', 'weights']:
        raise TranslationError(REL, init, '__init__ must store functions, weights and call self._build(functions) (saw %s)' % seen)
    bps = _single_param(build, REL, allow_self=True)
    if len(bps) != 1:
        raise TranslationError(REL, build, '_build must take the list of callables')
    fl = bps[0]
    got = {}
    pure_locals = {}      # name -> expression without calls (aliases, values gathered for a log message)
    pending = {}          # name -> (expression with a call, had the components been wrapped when it was evaluated?)

    def resolve(n):
        """follow pure single-assignment aliases `a = b`"""
        hops = 0
        while isinstance(n, ast.Name) and n.id in pure_locals and hops < 10:
            n = pure_locals[n.id]
            hops += 1
        return n
    for s in _no_guards(body_wo_doc(build)):
        nm = _local_assign(s, set(bps) | set(pure_locals) | set(pending) | _module_names(tree))
        if nm is not None:
            if _pure(s.value):
                pure_locals[nm] = s.value
            else:
                pending[nm] = (s.value, 'functions' in got)     # must be stored into self.<attr> below
            continue
        if not (isinstance(s, ast.Assign) and len(s.targets) == 1 and _self_attr(s.targets[0])):
            raise TranslationError(REL, s, '_build: unexpected statement `%s`' % src_of(src, s)[:80])
        a = s.targets[0].attr
        v = s.value
        wrapped_before = 'functions' in got
        if isinstance(v, ast.Name) and v.id in pending:
            v, wrapped_before = pending.pop(v.id)               # evaluated where the local was assigned
        else:
            v = resolve(v)
        if a == 'functions':
            if (isinstance(v, ast.Call) and isinstance(v.func, ast.Name) and v.func.id == 'list' and len(v.args) == 1 and not v.keywords
                    and isinstance(v.args[0], ast.Call) and isinstance(v.args[0].func, ast.Name) and v.args[0].func.id == 'map'
                    and len(v.args[0].args) == 2 and not v.args[0].keywords and isinstance(v.args[0].args[0], ast.Name)):
                # list(map(F, xs)) calls F on every item of xs in order and collects the results: [F(x) for x in xs]
                m = v.args[0]
                v = ast.ListComp(elt=ast.Call(func=m.args[0], args=[ast.Name(id='_item', ctx=ast.Load())], keywords=[]),
                                 generators=[ast.comprehension(target=ast.Name(id='_item', ctx=ast.Store()), iter=m.args[1], ifs=[], is_async=0)])
            ok = (isinstance(v, ast.ListComp) and len(v.generators) == 1 and not v.generators[0].ifs
                  and not v.generators[0].is_async
                  and isinstance(v.generators[0].target, ast.Name) and isinstance(resolve(v.generators[0].iter), ast.Name)
                  and resolve(v.generators[0].iter).id == fl and isinstance(v.elt, ast.Call)
                  and ast.unparse(v.elt.func) == 'Function')
            if ok:
                e, g = v.elt, v.generators[0].target.id
                pos = [ast.unparse(x) for x in e.args]
                kw = {k.arg: ast.unparse(k.value) for k in e.keywords}
                ok = (pos == [g] and not kw) or (not pos and kw == {'pointer': g})
            if not ok:
                raise TranslationError(REL, s, '_build must wrap every callable, in order: [Function(pointer=f) for f in %s]' % fl)
        elif a == 'pointer':
            if not wrapped_before:
                raise TranslationError(REL, s, 'strategy created before the components are wrapped')
            if not (isinstance(v, ast.Call) and _self_attr(v.func, '_create_strategy') and not v.args and not v.keywords):
                raise TranslationError(REL, s, 'self.pointer must be the closure returned by self._create_strategy()')
        elif a == 'built':
            if not (isinstance(v, ast.Constant) and v.value is True):
                raise TranslationError(REL, s, 'self.built must be set to True')
        else:
            raise TranslationError(REL, s, '_build assigns unexpected attribute self.%s' % a)
        if a in got:
            raise TranslationError(REL, s, 'self.%s assigned twice in _build' % a)
        got[a] = s.lineno
    if pending:
        raise TranslationError(REL, build, '_build: local(s) %s hold the result of a call that is never stored' % sorted(pending))
    if set(got) != {'functions', 'pointer', 'built'}:
        raise TranslationError(REL, build, '_build must set functions, pointer and built (saw %s)' % sorted(got))
    # `Function` must be the core class
    imp = [n for n in tree.body if isinstance(n, ast.ImportFrom) and n.module == 'opytimizer.core.function'
           and any(al.name == 'Function' and al.asname in (None, 'Function') for al in n.names)]
    if not imp:
        raise TranslationError(REL, tree, '`Function` is not imported from opytimizer.core.function')
    items.append({'file': REL, 'line': got['pointer'], 'text': 'self.pointer = self._create_strategy()'})
    return True


def public_iface(repo, rel, cls, items):
    """public names an instance exposes: properties and `self.<name> = ...` targets (no leading underscore)."""
    tree, src = parse(repo, rel)
    c = find_class(tree, cls)
    if c is None:
        raise TranslationError(rel, tree, 'class %s not found' % cls)
    names = set(k for k in _props(c) if not k.startswith('_'))
    for n in ast.walk(c):
        if isinstance(n, (ast.Assign, ast.AugAssign, ast.AnnAssign)):
            ts = n.targets if isinstance(n, ast.Assign) else [n.target]
            for t in ts:
                if _self_attr(t) and not t.attr.startswith('_'):
                    names.add(t.attr)
    items.append({'file': rel, 'line': c.lineno, 'text': 'class %s: public attributes %s' % (cls, sorted(names))})
    return sorted(names)


# ------------------------------------------------------------------ "can be optimised wherever a plain Function can"
AUDITED_GLOBS = ('opytimizer/optimizers', 'opytimizer/core/optimizer.py', 'opytimizer/opytimizer.py')
OPAQUE_CALLS = {'getattr', 'setattr', 'hasattr', 'delattr', 'vars', 'type', 'isinstance', 'dir', 'id', 'callable'}


def _is_objective(node):
    """`function`, `self.function`, `self._function`"""
    if isinstance(node, ast.Name) and node.id == 'function':
        return True
    return _self_attr(node) and node.attr in ('function', '_function')


def function_uses(repo, items):
    """Every attribute the optimizers, the Optimizer base class and Opytimizer read on the objective they are given.  The objective is
    only ever called `function` (a parameter of that name, `self.function`, `self._function`); it may be passed on (to a method whose
    parameter at that position is again called `function`, or to user code), stored in `self.function`/`self._function`, formatted, or
    have an attribute read.  Anything else (aliasing to a local, getattr/vars/type/isinstance on it) is refused."""
    import os
    files = []
    for g in AUDITED_GLOBS:
        full = os.path.join(repo, g)
        if os.path.isdir(full):
            files += [g + '/' + f for f in sorted(os.listdir(full)) if f.endswith('.py') and f != '__init__.py']
        else:
            files.append(g)
    trees = {rel: parse(repo, rel)[0] for rel in files}
    classes = {}
    for rel, tree in trees.items():
        for c in tree.body:
            if isinstance(c, ast.ClassDef):
                classes[c.name] = (rel, c)

    def resolve(cname, mname, depth=0):
        """the method `mname` as seen from class `cname` (single inheritance by class name across the audited files)"""
        if cname not in classes or depth > 8:
            return None
        rel, c = classes[cname]
        m = find_func(c, mname)
        if m is not None:
            return rel, m
        for b in c.bases:
            bn = b.id if isinstance(b, ast.Name) else b.attr if isinstance(b, ast.Attribute) else None
            r = resolve(bn, mname, depth + 1) if bn else None
            if r:
                return r
        return None

    uses = set()

    def visit(rel, cname, node):
        deco = set()
        for n in ast.walk(node):
            if isinstance(n, ast.FunctionDef):
                for d in n.decorator_list:          # `@function.setter`: the property object, not the objective
                    deco.update(id(x) for x in ast.walk(d))
        for n in ast.walk(node):
            if id(n) in deco:
                continue
            if isinstance(n, ast.Attribute) and _is_objective(n.value):
                if isinstance(n.ctx, (ast.Store, ast.Del)):
                    raise TranslationError(rel, n, 'the objective is written to: function.%s' % n.attr)
                uses.add(n.attr)
            elif isinstance(n, ast.Call):
                args = list(n.args) + [k.value for k in n.keywords]
                if isinstance(n.func, ast.Name) and n.func.id in OPAQUE_CALLS and any(_is_objective(a) for a in args):
                    raise TranslationError(rel, n, 'opaque use of the objective: %s(function, ...)' % n.func.id)
                if _self_attr(n.func) and any(_is_objective(a) for a in args):
                    r = resolve(cname, n.func.attr) if cname else None
                    if r is None:
                        if n.func.attr in ('pre_evaluation_hook',):
                            continue
                        raise TranslationError(rel, n, 'the objective is passed to self.%s, which is not a method of the audited classes' % n.func.attr)
                    mrel, m = r
                    ps = [x.arg for x in m.args.args][1:]
                    for i, a in enumerate(n.args):
                        if _is_objective(a) and (i >= len(ps) or ps[i] != 'function'):
                            raise TranslationError(rel, n, 'the objective is passed to %s:%s whose parameter %d is not called `function`'
                                                   % (mrel, m.name, i))
                    for k in n.keywords:
                        if _is_objective(k.value) and k.arg != 'function':
                            raise TranslationError(rel, n, 'the objective is passed as keyword %r' % k.arg)
            elif isinstance(n, (ast.Assign, ast.AnnAssign, ast.AugAssign, ast.NamedExpr)):
                val = n.value
                tgts = n.targets if isinstance(n, ast.Assign) else [n.target]
                if val is not None and _is_objective(val):
                    for t in tgts:
                        if not (_self_attr(t) and t.attr in ('function', '_function')):
                            raise TranslationError(rel, n, 'the objective is aliased: %s' % ast.dump(t)[:60])

    for rel, tree in trees.items():
        for top in tree.body:
            if isinstance(top, ast.ClassDef):
                visit(rel, top.name, top)
            else:
                visit(rel, None, top)
    if 'pointer' not in uses:
        raise TranslationError(REL_FN, None, 'no optimizer reads function.pointer')
    items.append({'file': 'opytimizer/optimizers/*.py', 'line': 0, 'text': 'attributes read on the objective: %s' % sorted(uses)})
    return sorted(uses)


def generate(repo):
    """-> (coq text, items, errors)"""
    items, errors = [], []
    out = [HEADER, 'From Coq Require Import ZArith List String.', 'From OV Require Import Model.Weighted.',
           'Import ListNotations.', 'Local Open Scope string_scope.', '']

    def emit(name, ty, f):
        try:
            out.append('Definition %s : %s := %s.' % (name, ty, f()))
        except TranslationError as ex:
            errors.append({'item': name, 'file': ex.file, 'line': ex.line, 'msg': ex.msg})
        except (KeyError, IndexError, AttributeError, TypeError, ValueError) as ex:
            errors.append({'item': name, 'file': REL, 'line': 0, 'msg': 'translator: %r' % ex})

    emit('weighted_descr', 'wf_descr', lambda: strategy_descr(repo, items))
    emit('weighted_build_checked', 'bool', lambda: 'true' if build_shape(repo, items) else 'false')
    emit('function_iface', 'list string',
         lambda: '[' + '; '.join(coq_str(n) for n in public_iface(repo, REL_FN, 'Function', items)) + ']')
    emit('weighted_iface', 'list string',
         lambda: '[' + '; '.join(coq_str(n) for n in public_iface(repo, REL, 'WeightedFunction', items)) + ']')
    emit('function_uses', 'list string', lambda: '[' + '; '.join(coq_str(n) for n in function_uses(repo, items)) + ']')
    return '\n'.join(out) + '\n', items, errors
