"""T3 (schedules): adaptive hyperparameter writes reachable from `run` -> Gen/Schedules.v  (C15, range part).

For every optimizer class of opytimizer/optimizers/*.py the translator

 1. resolves the class hierarchy and the methods reachable from `run` through `self.<m>(...)` calls,
 2. lists every write to an attribute of `self` in those methods  (`self.x = e`, `self.x op= e`)  -- the
    *found table* [(optimizer, hyperparameter)], compared by the caller with the expected five-optimizer
    table, so that a new adaptive write anywhere shows up as an unexpected item;
 3. symbolically executes `run` (helpers inlined, parameters bound to the caller's arguments, straight-line
    locals inlined) and, for each write, emits the new value as a shallow term over Coq's R of
        the old value, the other hyperparameters, t (0-based index of the main loop `for t in
        range(space.n_iterations)`), n_it (= space.n_iterations), n_agents (= len(space.agents)) and
        the result p of a counting loop over the agents,
    together with an explicit definedness condition (every `/ d` contributes `d <> 0`, every `log(x)`
    `x > 0`, every non-integer power `a ** b` `a > 0`) -- Coq's totalised x/0 = 0 and ln 0 = 0 are never
    relied upon: the theorems of Props/C15ranges.v prove `*_defined` from their hypotheses.

Fail-closed: a write under a conditional / nested loop / after a conditional exit, a value that mentions
anything but the vocabulary above, an unknown function, `//`, `%`, a write through setattr/__dict__/a
subscript, an escaping `self`, an unresolvable helper or base class ... raise TranslationError for that
item; its definitions are omitted, so Props/C15ranges.v no longer builds, and the error is reported.

Nothing from /repo is imported or executed.
"""
import ast
import os
from fractions import Fraction
from .common import TranslationError, HEADER, coq_str

OPT_DIR = 'opytimizer/optimizers'
RESERVED = ('t', 'n_it', 'n_agents', 'p')
FUNCS = {('np', 'exp'): 'exp', ('np', 'log'): 'log', ('np', 'sqrt'): 'sqrt', ('np', 'abs'): 'abs',
         ('np', 'fabs'): 'abs', ('math', 'exp'): 'exp', ('math', 'log'): 'log', ('math', 'sqrt'): 'sqrt',
         ('math', 'fabs'): 'abs'}
BINOPS = {ast.Add: 'add', ast.Sub: 'sub', ast.Mult: 'mul', ast.Div: 'div', ast.Pow: 'pow'}
EXITS = (ast.Return, ast.Break, ast.Continue, ast.Raise)


# ---------------------------------------------------------------- symbolic values

class Opaque:
    """A value the schedule vocabulary cannot express; using it inside a schedule is an error."""

    def __init__(self, file, node, why):
        self.file, self.node, self.why = file, node, why


class Special:
    def __init__(self, kind):
        self.kind = kind

    def __repr__(self):
        return '<%s>' % self.kind


SELF, SPACE, AGENTS, HOOK = Special('self'), Special('space'), Special('agents'), Special('hook')


def is_tree(v):
    return isinstance(v, list)


# ---------------------------------------------------------------- class table

class ClassInfo:
    def __init__(self, name, node, file, src, imports):
        self.name, self.node, self.file, self.src, self.imports = name, node, file, src, imports
        self.methods = {n.name: n for n in node.body if isinstance(n, ast.FunctionDef)}
        self.props = set()
        for n in node.body:
            if isinstance(n, ast.FunctionDef):
                for d in n.decorator_list:
                    if isinstance(d, ast.Name) and d.id == 'property':
                        self.props.add(n.name)


def load_module(repo, rel, cache):
    if rel in cache:
        return cache[rel]
    path = os.path.join(repo, rel)
    src = open(path).read()
    tree = ast.parse(src, filename=rel)
    imports = {}
    for n in tree.body:
        if isinstance(n, ast.ImportFrom) and n.module and n.level == 0:
            for a in n.names:
                imports[a.asname or a.name] = (n.module, a.name)
    classes = {}
    for n in tree.body:
        if isinstance(n, ast.ClassDef):
            classes[n.name] = ClassInfo(n.name, n, rel, src, imports)
    cache[rel] = classes
    return classes


def mro(repo, rel, cname, cache):
    """Single-inheritance chain, most derived first."""
    out = []
    seen = set()
    while True:
        classes = load_module(repo, rel, cache)
        if cname not in classes:
            raise TranslationError(rel, None, 'class %s not found' % cname)
        ci = classes[cname]
        if (rel, cname) in seen:
            raise TranslationError(rel, ci.node, 'cyclic class hierarchy')
        seen.add((rel, cname))
        out.append(ci)
        bases = ci.node.bases
        if ci.node.keywords:
            raise TranslationError(rel, ci.node, 'class keywords (metaclass) are not supported')
        if not bases:
            return out
        if len(bases) != 1:
            raise TranslationError(rel, ci.node, 'multiple inheritance is not supported')
        b = bases[0]
        if isinstance(b, ast.Name) and b.id == 'object':
            return out
        if isinstance(b, ast.Name) and b.id in classes:
            cname = b.id
            continue
        if isinstance(b, ast.Name) and b.id in ci.imports:
            mod, name = ci.imports[b.id]
            if not mod.startswith('opytimizer.'):
                raise TranslationError(rel, b, 'base class from outside opytimizer: %s' % mod)
            rel = mod.replace('.', '/') + '.py'
            cname = name
            continue
        raise TranslationError(rel, b, 'cannot resolve base class %s' % ast.unparse(b))


def lookup(chain, name, start=0):
    for i in range(start, len(chain)):
        if name in chain[i].methods:
            return i, chain[i].methods[name]
    return None, None


# ---------------------------------------------------------------- syntactic pass: reachable methods + writes

def add_parents(fn):
    for n in ast.walk(fn):
        for c in ast.iter_child_nodes(n):
            c._parent = n


def self_call(node, selfname):
    """self.m(...) or super().m(...) / super(C, self).m(...) -> (method name, via_super)"""
    if not (isinstance(node, ast.Call) and isinstance(node.func, ast.Attribute)):
        return None
    v = node.func.value
    if isinstance(v, ast.Name) and v.id == selfname:
        return node.func.attr, False
    if isinstance(v, ast.Call) and isinstance(v.func, ast.Name) and v.func.id == 'super':
        return node.func.attr, True
    return None


def scan_method(ci, fn, chain, idx, hookname):
    """-> (writes [(attr, stmt)], calls [(name, via_super, node)]); raises on unsupported write forms."""
    add_parents(fn)
    if not fn.args.args:
        raise TranslationError(ci.file, fn, 'method without self')
    if any(isinstance(d, ast.Name) and d.id in ('staticmethod', 'classmethod') for d in fn.decorator_list):
        raise TranslationError(ci.file, fn, 'static/class methods are not supported')
    selfname = fn.args.args[0].arg
    writes, calls = [], []
    for n in ast.walk(fn):
        if isinstance(n, (ast.FunctionDef, ast.AsyncFunctionDef, ast.Lambda, ast.ClassDef)) and n is not fn:
            for m in ast.walk(n):
                if isinstance(m, ast.Name) and m.id == selfname:
                    raise TranslationError(ci.file, n, '`%s` captured by a nested function/lambda/class' % selfname)
        if isinstance(n, ast.Name) and n.id == selfname:
            par = getattr(n, '_parent', None)
            if isinstance(par, ast.Attribute) and par.value is n:
                if par.attr in ('__dict__', '__setattr__', '__class__', '__delattr__'):
                    raise TranslationError(ci.file, par, 'access to %s.%s' % (selfname, par.attr))
                if isinstance(par.ctx, (ast.Store, ast.Del)):
                    st = getattr(par, '_parent', None)
                    if isinstance(st, ast.Assign) and len(st.targets) == 1 and st.targets[0] is par:
                        writes.append((par.attr, st))
                    elif isinstance(st, ast.AugAssign) and st.target is par:
                        writes.append((par.attr, st))
                    else:
                        raise TranslationError(ci.file, par, 'unsupported form of write to %s.%s' % (selfname, par.attr))
                else:
                    gp = getattr(par, '_parent', None)
                    # self.x[...] = ..  /  self.x.y = ..  : in-place modification of an attribute's value
                    if isinstance(gp, (ast.Subscript, ast.Attribute)) and gp.value is par \
                            and isinstance(gp.ctx, (ast.Store, ast.Del)):
                        raise TranslationError(ci.file, gp, 'in-place write into %s.%s' % (selfname, par.attr))
                continue
            if isinstance(par, ast.Call) and n in par.args and isinstance(par.func, ast.Name) \
                    and hookname is not None and par.func.id == hookname:
                continue
            if isinstance(par, ast.Call) and isinstance(par.func, ast.Name) and par.func.id == 'super':
                continue
            raise TranslationError(ci.file, n, '`%s` escapes (passed or stored as a value)' % selfname)
        if isinstance(n, ast.Call):
            sc = self_call(n, selfname)
            if sc is not None:
                calls.append((sc[0], sc[1], n))
            if isinstance(n.func, ast.Name) and n.func.id in ('setattr', 'delattr', 'vars', 'exec', 'eval', 'globals', 'locals'):
                raise TranslationError(ci.file, n, 'call of %s()' % n.func.id)
    return writes, calls


def hook_wrapper_param(m):
    """`def <m>(self, h, x, y): [docstring] if h: h(self, x, y)` -> 'h' (a helper that only applies its first argument as a hook), else None"""
    a = m.args
    if m.decorator_list or a.vararg or a.kwarg or a.kwonlyargs or a.defaults or len(a.args) != 4:
        return None
    ps = [x.arg for x in a.args]
    body = [b for b in m.body if not (isinstance(b, ast.Expr) and isinstance(b.value, ast.Constant))]
    if len(body) != 1:
        return None
    b = body[0]
    if not (isinstance(b, ast.If) and not b.orelse and isinstance(b.test, ast.Name) and b.test.id == ps[1] and len(b.body) == 1
            and isinstance(b.body[0], ast.Expr)):
        return None
    call = b.body[0].value
    ok = (isinstance(call, ast.Call) and isinstance(call.func, ast.Name) and call.func.id == ps[1] and not call.keywords
          and [getattr(x, 'id', None) for x in call.args] == [ps[0], ps[2], ps[3]])
    return ps[1] if ok else None


def reachable(chain, hook_of_run):
    """Methods reachable from run: {(class index, name): (ClassInfo, fn, writes, calls)}"""
    i, fn = lookup(chain, 'run')
    if fn is None:
        return None
    out = {}
    todo = [(i, 'run')]
    while todo:
        ci_idx, name = todo.pop()
        if (ci_idx, name) in out:
            continue
        ci = chain[ci_idx]
        f = ci.methods[name]
        hookname = hook_param(f) if name == 'run' else hook_wrapper_param(f)
        writes, calls = scan_method(ci, f, chain, ci_idx, hookname)
        out[(ci_idx, name)] = (ci, f, writes, calls)
        for cname, via_super, node in calls:
            j, g = lookup(chain, cname, ci_idx + 1 if via_super else 0)
            if g is None:
                # not a method: calling a callable attribute of self is outside the subset
                raise TranslationError(ci.file, node, 'call of self.%s: no such method in the class hierarchy' % cname)
            todo.append((j, cname))
    return out


def hook_param(fn):
    a = fn.args.args
    return a[4].arg if len(a) >= 5 else None


# ---------------------------------------------------------------- symbolic pass

class ItemError(Exception):
    def __init__(self, hp, file, node, msg):
        self.hp, self.file, self.msg = hp, file, msg
        self.line = getattr(node, 'lineno', 0) if node is not None else 0


class Sched:
    def __init__(self, repo, chain, reach):
        self.repo, self.chain, self.reach = repo, chain, reach
        self.opt = chain[0].name
        self.items = []          # translated writes
        self.errors = []         # (hp or None, file, line, msg)
        self.where = 'before'    # before / loop / after  (the main loop of run)
        self.phase = 'pre'       # pre / post  (position relative to the hook inside the main loop)
        self.nest = 0            # > 0 inside a conditional or a nested loop
        self.exit_seen = None    # a conditional exit was seen earlier on the path
        self.stack = []
        self.method_names = set()
        for ci in chain:
            self.method_names |= set(ci.methods) - ci.props
        self.writing = self._writing_methods()

    def _writing_methods(self):
        """Reachable methods that (transitively) contain a write to self."""
        w = {k for k, v in self.reach.items() if v[2]}
        changed = True
        while changed:
            changed = False
            for k, (ci, fn, writes, calls) in self.reach.items():
                if k in w:
                    continue
                for cname, via_super, node in calls:
                    j, g = lookup(self.chain, cname, k[0] + 1 if via_super else 0)
                    if (j, cname) in w:
                        w.add(k)
                        changed = True
                        break
        return w

    # -- expressions
    def sym(self, node, env, file):
        if isinstance(node, ast.Constant):
            v = node.value
            if isinstance(v, bool) or not isinstance(v, (int, float)):
                return Opaque(file, node, 'non-numeric constant %r' % (v,))
            if isinstance(v, float) and (v != v or v in (float('inf'), float('-inf'))):
                return Opaque(file, node, 'non-finite constant')
            fr = Fraction(repr(v)) if isinstance(v, float) else Fraction(v)
            return ['const', '%d/%d' % (fr.numerator, fr.denominator), repr(v)]
        if isinstance(node, ast.Name):
            if node.id in env:
                return env[node.id]
            return Opaque(file, node, 'unknown name `%s`' % node.id)
        if isinstance(node, ast.Attribute):
            base = self.sym(node.value, env, file)
            if base is SELF:
                if node.attr in self.method_names:
                    return Opaque(file, node, 'bound method self.%s used as a value' % node.attr)
                if node.attr.startswith('_'):
                    return Opaque(file, node, 'private attribute self.%s' % node.attr)
                if node.attr in RESERVED:
                    return Opaque(file, node, 'hyperparameter name `%s` collides with a schedule variable' % node.attr)
                return ['var', node.attr]
            if base is SPACE:
                if node.attr == 'n_iterations':
                    return ['var', 'n_it']
                if node.attr == 'agents':
                    return AGENTS
                return Opaque(file, node, 'space.%s is outside the schedule vocabulary' % node.attr)
            return Opaque(file, node, 'attribute `%s` of a non-schedule value' % ast.unparse(node))
        if isinstance(node, ast.BinOp):
            a = self.sym(node.left, env, file)
            b = self.sym(node.right, env, file)
            for x in (a, b):
                if isinstance(x, Opaque):
                    return x
            if not (is_tree(a) and is_tree(b)):
                return Opaque(file, node, 'arithmetic on a non-numeric value')
            op = BINOPS.get(type(node.op))
            if op is None:
                return Opaque(file, node, 'operator %s is not supported' % type(node.op).__name__)
            return [op, a, b]
        if isinstance(node, ast.UnaryOp):
            a = self.sym(node.operand, env, file)
            if isinstance(a, Opaque):
                return a
            if not is_tree(a):
                return Opaque(file, node, 'arithmetic on a non-numeric value')
            if isinstance(node.op, ast.USub):
                return ['neg', a]
            if isinstance(node.op, ast.UAdd):
                return a
            return Opaque(file, node, 'unary operator %s is not supported' % type(node.op).__name__)
        if isinstance(node, ast.Call):
            f = node.func
            if node.keywords:
                return Opaque(file, node, 'keyword arguments in `%s`' % ast.unparse(node))
            if isinstance(f, ast.Attribute) and isinstance(f.value, ast.Name) and (f.value.id, f.attr) in FUNCS \
                    and len(node.args) == 1 and f.value.id not in env:
                a = self.sym(node.args[0], env, file)
                if isinstance(a, Opaque):
                    return a
                if not is_tree(a):
                    return Opaque(file, node, 'function of a non-numeric value')
                return ['call', '%s.%s' % (f.value.id, f.attr), a]
            if isinstance(f, ast.Name) and f.id not in env and len(node.args) == 1:
                if f.id == 'len':
                    a = self.sym(node.args[0], env, file)
                    if a is AGENTS:
                        return ['var', 'n_agents']
                    return Opaque(file, node, 'len() of something that is not the population')
                if f.id == 'float':
                    return self.sym(node.args[0], env, file)
                if f.id == 'abs':
                    a = self.sym(node.args[0], env, file)
                    if is_tree(a):
                        return ['call', 'abs', a]
                    return a if isinstance(a, Opaque) else Opaque(file, node, 'abs of a non-numeric value')
            return Opaque(file, node, 'call `%s` is outside the schedule vocabulary' % ast.unparse(node)[:80])
        return Opaque(file, node, 'expression `%s` is outside the schedule vocabulary' % ast.unparse(node)[:80])

    # -- statements
    def block(self, stmts, env, ci):
        for s in stmts:
            self.stmt(s, env, ci)

    def contains_writing_call(self, node, ci_idx, selfname):
        for n in ast.walk(node):
            sc = self_call(n, selfname)
            if sc is not None:
                j, g = lookup(self.chain, sc[0], ci_idx + 1 if sc[1] else 0)
                if (j, sc[0]) in self.writing:
                    return n
        return None

    def direct_writes(self, node, selfname):
        out = []
        for n in ast.walk(node):
            if isinstance(n, ast.Attribute) and isinstance(n.ctx, (ast.Store, ast.Del)) \
                    and isinstance(n.value, ast.Name) and n.value.id == selfname:
                out.append(n)
        return out

    def stored_names(self, node):
        out = set()
        for n in ast.walk(node):
            if isinstance(n, ast.Name) and isinstance(n.ctx, (ast.Store, ast.Del)):
                out.add(n.id)
        return out

    def has_exit(self, node):
        for n in ast.walk(node):
            if isinstance(n, EXITS):
                return n
        return None

    def stmt(self, s, env, frame):
        ci, ci_idx, selfname, hookname = frame
        file = ci.file
        if isinstance(s, ast.Expr) and isinstance(s.value, ast.Constant):
            return
        if isinstance(s, ast.Pass):
            return
        # the hook:  if hook: hook(self, space, function)   /   hook(self, space, function)
        if hookname is not None and (self.is_hook_stmt(s, hookname) or self.is_hook_wrapper_call(s, hookname, ci, selfname)):
            if self.where == 'loop' and self.nest == 0:
                self.phase = 'post'
            return
        if isinstance(s, ast.Expr) and isinstance(s.value, ast.Call):
            sc = self_call(s.value, selfname)
            if sc is not None:
                self.inline(sc, s.value, env, frame)
                return
            self.guard_nested(s, env, frame)
            return
        if isinstance(s, ast.Assign) and len(s.targets) == 1 and isinstance(s.targets[0], ast.Name):
            sc = self_call(s.value, selfname) if isinstance(s.value, ast.Call) else None
            if sc is not None:
                self.inline(sc, s.value, env, frame)
                env[s.targets[0].id] = Opaque(file, s, 'result of self.%s(...)' % sc[0])
                return
            self.guard_nested(s.value, env, frame)
            env[s.targets[0].id] = self.sym(s.value, env, file)
            return
        if isinstance(s, ast.AugAssign) and isinstance(s.target, ast.Name):
            self.guard_nested(s.value, env, frame)
            old = env.get(s.target.id, Opaque(file, s, 'unknown name `%s`' % s.target.id))
            new = self.sym(s.value, env, file)
            op = BINOPS.get(type(s.op))
            if isinstance(old, Opaque) or isinstance(new, Opaque) or op is None or not (is_tree(old) and is_tree(new)):
                env[s.target.id] = Opaque(file, s, 'untranslatable update of `%s`' % s.target.id)
            else:
                env[s.target.id] = [op, old, new]
            return
        if isinstance(s, (ast.Assign, ast.AugAssign)):
            tgt = s.targets[0] if isinstance(s, ast.Assign) and len(s.targets) == 1 else getattr(s, 'target', None)
            if isinstance(tgt, ast.Attribute) and isinstance(tgt.value, ast.Name) and tgt.value.id == selfname:
                self.guard_nested(s.value, env, frame)
                self.write(tgt.attr, s, env, frame)
                return
            # tuple targets, subscripts, attributes of other objects: locals become opaque
            self.guard_nested(s, env, frame)
            for nm in self.stored_names(s):
                env[nm] = Opaque(file, s, '`%s` assigned by an unsupported statement' % nm)
            return
        if isinstance(s, ast.For) and self.is_main_loop(s, env, file) and self.where == 'before' \
                and self.nest == 0 and len(self.stack) == 1:
            if s.orelse:
                raise TranslationError(file, s, 'else clause on the main loop')
            self.where = 'loop'
            self.phase = 'pre'
            env[s.target.id] = ['var', 't']
            before = dict(env)
            self.block(s.body, env, frame)
            ex = [n for st in s.body for n in ast.walk(st) if isinstance(n, (ast.Break, ast.Continue))]
            if ex and self.items_in_loop():
                raise TranslationError(file, ex[0], 'break/continue in the main loop of an optimizer with adaptive writes')
            # locals assigned in the loop are not the pre-loop values any more
            for nm in self.stored_names(s):
                if nm in before or nm in env:
                    env[nm] = Opaque(file, s, '`%s` assigned in the main loop' % nm)
            self.where = 'after'
            return
        if isinstance(s, ast.For):
            cnt = self.count_loop(s, env, frame)
            self.compound(s, env, frame, keep=cnt)
            return
        if isinstance(s, (ast.If, ast.While, ast.With, ast.Try)):
            self.compound(s, env, frame, keep={})
            return
        if isinstance(s, ast.Return):
            if s.value is not None:
                self.guard_nested(s.value, env, frame)
            return
        if isinstance(s, (ast.Break, ast.Continue, ast.Raise)):
            self.exit_seen = s
            return
        if isinstance(s, (ast.Import, ast.ImportFrom, ast.Global, ast.Nonlocal, ast.Assert, ast.Delete,
                          ast.FunctionDef, ast.AnnAssign)):
            self.guard_nested(s, env, frame)
            for nm in self.stored_names(s):
                env[nm] = Opaque(file, s, '`%s` bound by an unsupported statement' % nm)
            return
        raise TranslationError(file, s, 'statement %s is outside the subset' % type(s).__name__)

    def items_in_loop(self):
        return bool(self.items) or any(e[0] is not None for e in self.errors)

    def is_hook_stmt(self, s, hookname):
        def is_call(e):
            return isinstance(e, ast.Call) and isinstance(e.func, ast.Name) and e.func.id == hookname
        if isinstance(s, ast.Expr) and is_call(s.value):
            return True
        if isinstance(s, ast.If) and not s.orelse and isinstance(s.test, ast.Name) and s.test.id == hookname \
                and len(s.body) == 1 and isinstance(s.body[0], ast.Expr) and is_call(s.body[0].value):
            return True
        return False

    def is_hook_wrapper_call(self, s, hookname, ci, selfname):
        """`self.<m>(hook, a, b)` where <m>, defined in the class itself, does nothing but apply its first argument as a hook:
        `def <m>(self, h, x, y): [docstring] if h: h(self, x, y)` -- the hook statement, moved into a helper"""
        if not (isinstance(s, ast.Expr) and isinstance(s.value, ast.Call)):
            return False
        c = s.value
        if not (isinstance(c.func, ast.Attribute) and isinstance(c.func.value, ast.Name) and c.func.value.id == selfname and not c.keywords
                and len(c.args) == 3 and all(isinstance(a, ast.Name) for a in c.args) and c.args[0].id == hookname):
            return False
        _, m = lookup(self.chain, c.func.attr, 0)          # resolved like any self.<m>() call: most derived class first
        return m is not None and hook_wrapper_param(m) is not None

    def is_main_loop(self, s, env, file):
        it = s.iter
        if not (isinstance(s.target, ast.Name) and isinstance(it, ast.Call) and isinstance(it.func, ast.Name)
                and it.func.id == 'range' and 'range' not in env and len(it.args) == 1 and not it.keywords):
            return False
        return self.sym(it.args[0], env, file) == ['var', 'n_it']

    def guard_nested(self, node, env, frame):
        """`node` is not executed symbolically: it must neither write to self nor call a writing helper."""
        ci, ci_idx, selfname, hookname = frame
        for w in self.direct_writes(node, selfname):
            self.item_error(w.attr, ci.file, w, 'write to self.%s in a position the translator does not execute' % w.attr)
        c = self.contains_writing_call(node, ci_idx, selfname)
        if c is not None:
            raise TranslationError(ci.file, c, 'helper `%s` writes a hyperparameter but is called inside an expression/'
                                   'conditional/nested loop' % ast.unparse(c.func))

    def compound(self, s, env, frame, keep):
        """if / while / with / try / for (not the main loop): no adaptive write may live inside."""
        ci, ci_idx, selfname, hookname = frame
        ws = self.direct_writes(s, selfname)
        for w in ws:
            self.item_error(w.attr, ci.file, w, 'write to self.%s under a conditional or a nested loop: '
                            'the new value is not a function of the schedule variables alone' % w.attr)
        c = self.contains_writing_call(s, ci_idx, selfname)
        if c is not None:
            raise TranslationError(ci.file, c, 'helper `%s` writes a hyperparameter but is called under a conditional or '
                                   'nested loop' % ast.unparse(c.func))
        ex = self.has_exit(s)
        if ex is not None and not isinstance(s, (ast.For, ast.While)):
            self.exit_seen = ex
        elif ex is not None and any(isinstance(n, (ast.Return, ast.Raise)) for n in ast.walk(s)):
            self.exit_seen = ex
        for nm in self.stored_names(s):
            if nm in keep:
                env[nm] = keep[nm]
            else:
                env[nm] = Opaque(ci.file, s, '`%s` is assigned under a conditional or in a loop' % nm)

    def count_loop(self, s, env, frame):
        """for [i,] a in [enumerate(]<agents>[)]:  ...  if <test>: v += c  ...   with v = c0 before.
        -> {v: ['var','p'] annotated}  for names v whose only stores in the loop are that increment."""
        ci, ci_idx, selfname, hookname = frame
        file = ci.file
        it = s.iter
        if isinstance(it, ast.Call) and isinstance(it.func, ast.Name) and it.func.id == 'enumerate' \
                and len(it.args) == 1 and not it.keywords and 'enumerate' not in env:
            it = it.args[0]
        if self.sym(it, env, file) is not AGENTS or s.orelse:
            return {}
        loopvars = self.stored_names(s.target)
        out = {}
        for st in s.body:
            if not (isinstance(st, ast.If) and not st.orelse and len(st.body) == 1):
                continue
            inc = st.body[0]
            if not (isinstance(inc, ast.AugAssign) and isinstance(inc.op, ast.Add) and isinstance(inc.target, ast.Name)):
                continue
            v = inc.target.id
            if v in loopvars:
                continue
            c = inc.value
            if not (isinstance(c, ast.Constant) and isinstance(c.value, int) and not isinstance(c.value, bool) and c.value >= 0):
                continue
            stores = [n for n in ast.walk(s) if isinstance(n, ast.Name) and n.id == v and isinstance(n.ctx, (ast.Store, ast.Del))]
            if len(stores) != 1:
                continue
            # the test must not be an exit, and nothing in the loop may leave it early
            if self.has_exit(s):
                continue
            init = env.get(v)
            if not (is_tree(init) and init[0] == 'const' and Fraction(init[1]).denominator == 1 and Fraction(init[1]) >= 0):
                continue
            if out:
                # one counter per loop is all the vocabulary has (a single variable p)
                return {}
            out[v] = ['var', 'p', {'init': int(Fraction(init[1])), 'inc': c.value, 'file': file, 'line': s.lineno,
                                   'test': ast.unparse(st.test)}]
        return out

    def inline(self, sc, call, env, frame):
        ci, ci_idx, selfname, hookname = frame
        name, via_super = sc
        j, fn = lookup(self.chain, name, ci_idx + 1 if via_super else 0)
        if fn is None:
            raise TranslationError(ci.file, call, 'cannot resolve self.%s' % name)
        if (j, name) in self.stack:
            raise TranslationError(ci.file, call, 'recursive helper self.%s' % name)
        for a in call.args:
            self.guard_nested(a, env, frame)
        for kw in call.keywords:
            self.guard_nested(kw.value, env, frame)
        if (j, name) not in self.writing:
            return                      # nothing to learn from it
        if self.nest > 0:
            raise TranslationError(ci.file, call, 'writing helper called under a conditional or nested loop')
        params = fn.args
        if params.vararg or params.kwarg or params.kwonlyargs or params.posonlyargs:
            raise TranslationError(self.chain[j].file, fn, 'unsupported parameter kinds of %s' % name)
        names = [a.arg for a in params.args]
        if any(isinstance(a, ast.Starred) for a in call.args) or any(k.arg is None for k in call.keywords):
            raise TranslationError(ci.file, call, '*args/**kwargs in a call of a writing helper')
        new = {names[0]: SELF}
        pos = names[1:]
        if len(call.args) > len(pos):
            raise TranslationError(ci.file, call, 'too many arguments for %s' % name)
        for p, a in zip(pos, call.args):
            new[p] = self.sym(a, env, ci.file)
        for kw in call.keywords:
            if kw.arg not in pos or kw.arg in new:
                raise TranslationError(ci.file, call, 'bad keyword argument %s' % kw.arg)
            new[kw.arg] = self.sym(kw.value, env, ci.file)
        defaults = params.defaults
        for p, d in zip(pos[len(pos) - len(defaults):], defaults):
            if p not in new:
                new[p] = self.sym(d, {}, self.chain[j].file)
        for p in pos:
            if p not in new:
                raise TranslationError(ci.file, call, 'missing argument %s of %s' % (p, name))
        self.stack.append((j, name))
        self.block(fn.body, new, (self.chain[j], j, names[0], None))
        self.stack.pop()

    def item_error(self, hp, file, node, msg):
        self.errors.append((hp, file, getattr(node, 'lineno', 0), msg))

    def write(self, hp, s, env, frame):
        ci, ci_idx, selfname, hookname = frame
        file = ci.file
        text = one_line(ast.get_source_segment(ci.src, s))
        try:
            if self.where != 'loop':
                raise ItemError(hp, file, s, 'write to self.%s outside the main loop `for t in range(space.n_iterations)` '
                                '(%s it)' % (hp, self.where))
            if self.nest > 0:
                raise ItemError(hp, file, s, 'write to self.%s under a conditional or nested loop' % hp)
            if self.exit_seen is not None:
                raise ItemError(hp, file, s, 'write to self.%s after a conditional exit (line %d)' % (hp, self.exit_seen.lineno))
            if hp in RESERVED:
                raise ItemError(hp, file, s, 'hyperparameter name `%s` collides with a schedule variable' % hp)
            if hp.startswith('_'):
                raise ItemError(hp, file, s, 'write to the private attribute self.%s bypasses its setter' % hp)
            val = self.sym(s.value, env, file)
            if isinstance(val, Opaque):
                raise ItemError(hp, val.file, val.node, 'value of self.%s: %s' % (hp, val.why))
            if not is_tree(val):
                raise ItemError(hp, file, s, 'value of self.%s is not numeric (%r)' % (hp, val))
            if isinstance(s, ast.AugAssign):
                op = BINOPS.get(type(s.op))
                if op is None:
                    raise ItemError(hp, file, s, 'augmented operator %s is not supported' % type(s.op).__name__)
                val = [op, ['var', hp], val]
            self.items.append({'opt': self.opt, 'cls_file': self.chain[0].file, 'hp': hp, 'file': file, 'line': s.lineno,
                               'end_line': getattr(s, 'end_lineno', s.lineno), 'text': text, 'tree': val,
                               'phase': self.phase, 'method': '%s.%s' % (self.chain[self.stack[-1][0]].name, self.stack[-1][1])})
        except ItemError as ex:
            self.errors.append((ex.hp, ex.file, ex.line, ex.msg))

    def run(self):
        i, fn = lookup(self.chain, 'run')
        ci = self.chain[i]
        names = [a.arg for a in fn.args.args]
        if len(names) < 5 or fn.args.vararg or fn.args.kwarg or fn.args.kwonlyargs:
            raise TranslationError(ci.file, fn, 'run(self, space, function, store_best_only, pre_evaluation_hook) expected')
        env = {names[0]: SELF, names[1]: SPACE, names[4]: HOOK}
        for nm in names[2:4] + names[5:]:
            env[nm] = Opaque(ci.file, fn, 'parameter `%s` of run' % nm)
        self.stack = [(i, 'run')]
        self.block(fn.body, env, (ci, i, names[0], names[4]))
        self.stack = []


# ---------------------------------------------------------------- trees -> Coq / conditions / variables

def const_value(t):
    """Exact value of a constant subtree (Fraction) or None."""
    k = t[0]
    if k == 'const':
        return Fraction(t[1])
    if k == 'var' or k == 'call':
        return None
    if k == 'neg':
        a = const_value(t[1])
        return None if a is None else -a
    a, b = const_value(t[1]), const_value(t[2])
    if a is None or b is None:
        return None
    if k == 'add':
        return a + b
    if k == 'sub':
        return a - b
    if k == 'mul':
        return a * b
    if k == 'div':
        return None if b == 0 else a / b
    if k == 'pow':
        if b.denominator == 1 and 0 <= b <= 64:
            return a ** int(b)
        return None
    return None


def coq_const(fr):
    if fr.denominator == 1:
        return '%d' % fr.numerator if fr.numerator >= 0 else '(- %d)' % -fr.numerator
    num = '%d' % fr.numerator if fr.numerator >= 0 else '(- %d)' % -fr.numerator
    return '(%s / %d)' % (num, fr.denominator)


def int_exponent(t):
    v = const_value(t)
    if v is not None and v.denominator == 1 and 0 <= v <= 64 and t[0] == 'const' and '.' not in t[2] and 'e' not in t[2].lower():
        return int(v)
    return None


def coq_term(t, conds):
    """Coq R term for tree t; definedness conditions are appended to conds (as Coq props)."""
    k = t[0]
    if k == 'const':
        return coq_const(Fraction(t[1]))
    if k == 'var':
        return t[1]
    if k == 'neg':
        return '(- %s)' % coq_term(t[1], conds)
    if k == 'call':
        a = coq_term(t[2], conds)
        f = FUNCNAME[t[1]]
        if f == 'log':
            v = const_value(t[2])
            if v is None or v <= 0:
                conds.append('%s > 0' % a)
            return '(ln %s)' % a
        if f == 'sqrt':
            v = const_value(t[2])
            if v is None or v < 0:
                conds.append('%s >= 0' % a)
            return '(sqrt %s)' % a
        if f == 'exp':
            return '(exp %s)' % a
        if f == 'abs':
            return '(Rabs %s)' % a
        raise KeyError(f)
    a = coq_term(t[1], conds)
    if k == 'pow':
        n = int_exponent(t[2])
        if n is not None:
            return '(%s ^ %d)' % (a, n)
        b = coq_term(t[2], conds)
        v = const_value(t[1])
        if v is None or v <= 0:
            conds.append('%s > 0' % a)
        return '(Rpower %s %s)' % (a, b)
    b = coq_term(t[2], conds)
    if k == 'div':
        v = const_value(t[2])
        if v is None or v == 0:
            conds.append('%s <> 0' % b)
        return '(%s / %s)' % (a, b)
    return '(%s %s %s)' % (a, {'add': '+', 'sub': '-', 'mul': '*'}[k], b)


FUNCNAME = {'np.exp': 'exp', 'np.log': 'log', 'np.sqrt': 'sqrt', 'np.abs': 'abs', 'np.fabs': 'abs',
            'math.exp': 'exp', 'math.log': 'log', 'math.sqrt': 'sqrt', 'math.fabs': 'abs', 'abs': 'abs'}


def tree_vars(t, out, counts):
    k = t[0]
    if k == 'var':
        out.add(t[1])
        if len(t) > 2:
            counts[t[1]] = t[2]
    elif k == 'const':
        pass
    elif k == 'neg':
        tree_vars(t[1], out, counts)
    elif k == 'call':
        tree_vars(t[2], out, counts)
    else:
        tree_vars(t[1], out, counts)
        tree_vars(t[2], out, counts)


def strip_tree(t):
    """JSON form for the harness (count annotation removed)."""
    k = t[0]
    if k == 'var':
        return ['var', t[1]]
    if k == 'const':
        return ['const', t[1], t[2]]
    if k == 'neg':
        return ['neg', strip_tree(t[1])]
    if k == 'call':
        return ['call', t[1], strip_tree(t[2])]
    return [k, strip_tree(t[1]), strip_tree(t[2])]


def cond_trees(t, out):
    """Definedness conditions as trees for the harness: ['ne0'|'gt0'|'ge0', tree] (constants not filtered)."""
    k = t[0]
    if k in ('var', 'const'):
        return
    if k == 'neg':
        cond_trees(t[1], out)
        return
    if k == 'call':
        cond_trees(t[2], out)
        f = FUNCNAME[t[1]]
        if f == 'log':
            out.append(['gt0', strip_tree(t[2])])
        elif f == 'sqrt':
            out.append(['ge0', strip_tree(t[2])])
        return
    cond_trees(t[1], out)
    cond_trees(t[2], out)
    if k == 'div':
        out.append(['ne0', strip_tree(t[2])])
    elif k == 'pow' and int_exponent(t[2]) is None:
        out.append(['gt0', strip_tree(t[1])])


def one_line(seg):
    return ' '.join((seg or '').replace('\\\n', ' ').split())


def coq_ident(opt, hp):
    return '%s_%s' % (opt.lower(), hp)


# ---------------------------------------------------------------- driver

def optimizer_classes(repo):
    d = os.path.join(repo, OPT_DIR)
    out = []
    for f in sorted(os.listdir(d)):
        if not f.endswith('.py') or f.startswith('_'):
            continue
        rel = OPT_DIR + '/' + f
        tree = ast.parse(open(os.path.join(repo, rel)).read(), filename=rel)
        for n in tree.body:
            if isinstance(n, ast.ClassDef):
                out.append((n.name, rel))
    return out


def generate(repo):
    """-> (coq text, items, errors, found)

    items : translated writes  {opt, hp, file, line, text, vars, coq, defined, tree, conds, phase, count}
    errors: [{item, file, line, msg}]          (item = 'OPT.hp' or 'OPT')
    found : [{opt, hp, file, line, text}]      every write to self.<x> in a method reachable from run"""
    cache = {}
    items, errors, found = [], [], []
    n_classes = 0
    for cname, rel in optimizer_classes(repo):
        try:
            chain = mro(repo, rel, cname, cache)
            reach = reachable(chain, None)
            if reach is None:
                continue           # no run method anywhere in the hierarchy: not an optimizer
            n_classes += 1
            for (ci_idx, mname), (ci, fn, writes, calls) in sorted(reach.items(), key=lambda kv: (kv[1][0].file, kv[1][1].lineno)):
                for hp, st in writes:
                    found.append({'opt': cname, 'cls_file': rel, 'hp': hp, 'file': ci.file, 'line': st.lineno,
                                  'text': one_line(ast.get_source_segment(ci.src, st))})
            if not any(v[2] for v in reach.values()):
                continue
            sch = Sched(repo, chain, reach)
            sch.run()
            per_hp = {}
            for it in sch.items:
                per_hp.setdefault(it['hp'], []).append(it)
            bad = set()
            for hp, file, line, msg in sch.errors:
                errors.append({'item': '%s.%s' % (cname, hp) if hp else cname, 'file': file, 'line': line, 'msg': msg})
                if hp:
                    bad.add(hp)
            written = {f['hp'] for f in found if f['opt'] == cname}
            for hp in sorted(written):
                its = per_hp.get(hp, [])
                if hp in bad:
                    continue
                if len(its) == 0:
                    errors.append({'item': '%s.%s' % (cname, hp), 'file': rel, 'line': 0,
                                   'msg': 'a write to self.%s is reachable from run but was not met on the path the '
                                          'translator executes' % hp})
                    continue
                n_static = sum(1 for f in found if f['opt'] == cname and f['hp'] == hp)
                if len(its) != 1 or n_static != 1:
                    errors.append({'item': '%s.%s' % (cname, hp), 'file': its[0]['file'], 'line': its[-1]['line'],
                                   'msg': 'self.%s is written %d times per iteration (%d write statements): not a single schedule'
                                          % (hp, len(its), n_static)})
                    continue
                it = its[0]
                vs, counts = set(), {}
                tree_vars(it['tree'], vs, counts)
                cross = (vs & written) - {hp}
                if cross:
                    errors.append({'item': '%s.%s' % (cname, hp), 'file': it['file'], 'line': it['line'],
                                   'msg': 'the schedule of %s reads the adaptive hyperparameter(s) %s' % (hp, sorted(cross))})
                    continue
                conds = []
                it['coq'] = coq_term(it['tree'], conds)
                seen = []
                for c in conds:
                    if c not in seen:
                        seen.append(c)
                it['defined'] = seen
                it['vars'] = sorted(vs)
                it['count'] = counts.get('p')
                ct = []
                cond_trees(it['tree'], ct)
                it['conds'] = ct
                it['tree'] = strip_tree(it['tree'])
                items.append(it)
        except TranslationError as ex:
            errors.append({'item': cname, 'file': ex.file, 'line': ex.line, 'msg': ex.msg})
        except (KeyError, IndexError, AttributeError, ValueError, RecursionError, SyntaxError, OSError) as ex:
            errors.append({'item': cname, 'file': rel, 'line': 0, 'msg': 'translator: %r' % (ex,)})
    items.sort(key=lambda it: (it['opt'], it['hp']))
    found.sort(key=lambda f: (f['opt'], f['hp'], f['file'], f['line']))
    out = [HEADER, '(* T3 schedules (translate/t3_sched.py): one definition per adaptive hyperparameter write reachable from',
           '   run.  <opt>_<hp>_next = the value written, over R; <opt>_<hp>_defined = its definedness side condition',
           '   (denominators <> 0, arguments of ln > 0, bases of non-integer powers > 0); <opt>_<hp>_after_hook says',
           '   whether the write comes after the pre-evaluation hook inside the iteration.',
           '   Variables: the hyperparameters by name (the written one = its old value), t = 0-based iteration index,',
           '   n_it = space.n_iterations, n_agents = len(space.agents), p = result of the counting loop. *)',
           'From Coq Require Import Reals List String.', 'Import ListNotations.', 'Open Scope R_scope.', '']
    for it in items:
        name = coq_ident(it['opt'], it['hp'])
        args = ' '.join(it['vars'])
        binder = '(%s : R) ' % args if args else ''
        out.append('(* %s:%d  [%s, %s the hook]  %s *)' % (it['file'], it['line'], it['method'],
                                                           'after' if it['phase'] == 'post' else 'before',
                                                           it['text'].replace('(*', '( *').replace('*)', '* )')))
        out.append('Definition %s_next %s: R := %s.' % (name, binder, it['coq']))
        out.append('Definition %s_defined %s: Prop := %s.' % (name, binder, ' /\\ '.join(it['defined']) if it['defined'] else 'True'))
        out.append('Definition %s_after_hook : bool := %s.' % (name, 'true' if it['phase'] == 'post' else 'false'))
        if it['count']:
            c = it['count']
            out.append('(* %s:%d  p counts the agents with `%s` *)' % (c['file'], c['line'], c['test']))
            out.append('Definition %s_p_init : nat := %d.' % (name, c['init']))
            out.append('Definition %s_p_inc : nat := %d.' % (name, c['inc']))
        out.append('')
    pairs = sorted({(f['opt'], f['hp']) for f in found})
    out.append('(* every write to an attribute of self in a method reachable from run, over %d optimizer classes *)' % n_classes)
    out.append('Definition sched_found : list (string * string) := [%s]%%string.' %
               '; '.join('(%s, %s)' % (coq_str(o), coq_str(h)) for o, h in pairs))
    out.append('Definition sched_classes_scanned : nat := %d.' % n_classes)
    return '\n'.join(out) + '\n', items, errors, found


if __name__ == '__main__':
    import json
    import sys
    text, items, errors, found = generate(sys.argv[1] if len(sys.argv) > 1 else '/repo')
    sys.stdout.write(text)
    sys.stderr.write(json.dumps({'errors': errors, 'found': found}, indent=1) + '\n')
