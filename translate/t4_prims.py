"""T4/T3 (C18): math/random.py wrappers, the Bernoulli loop, TOURNAMENT_SIZE and the Levy expression.

  Gen/PrimsDescr.v : tournament_size, uniform_wrapper, gaussian_wrapper (wrap_descr), bernoulli_descr (bern_descr)
  Gen/LevyExpr.v   : levy_code : lx  (temporaries inlined; k-th Gaussian call in evaluation order = LG k),
                     levy_n_draws, levy_draws_standard
Fail closed: anything outside the recognised shapes raises TranslationError.  Nothing from /repo is executed.
"""
import ast
from .common import (TranslationError, parse, find_func, body_wo_doc, src_of, key_of_float, coq_okey, coq_str,
                     coq_bool, HEADER)

R_RANDOM = 'opytimizer/math/random.py'
R_DIST = 'opytimizer/math/distribution.py'
R_CONST = 'opytimizer/utils/constants.py'
R_GEN = 'opytimizer/math/general.py'
CALLEE_SLOTS = {'np.random.uniform': ['low', 'high', 'size'], 'np.random.normal': ['loc', 'scale', 'size']}


def _params(fn, file):
    a = fn.args
    if a.vararg or a.kwarg or a.kwonlyargs or a.posonlyargs:
        raise TranslationError(file, fn, '%s: unexpected parameter kinds' % fn.name)
    return [x.arg for x in a.args]


def _num(node):
    """numeric literal (possibly negated) -> python number, else None"""
    if isinstance(node, ast.UnaryOp) and isinstance(node.op, ast.USub):
        v = _num(node.operand)
        return None if v is None else -v
    if isinstance(node, ast.Constant) and isinstance(node.value, (int, float)) and not isinstance(node.value, bool):
        return node.value
    return None


def _module_alias(tree, module):
    """names under which `module` is visible: import a.b as r / from a import b"""
    out = set()
    for n in tree.body:
        if isinstance(n, ast.Import):
            for al in n.names:
                if al.name == module and al.asname:
                    out.add(al.asname)
        if isinstance(n, ast.ImportFrom) and n.module and module.startswith(n.module + '.'):
            for al in n.names:
                if n.module + '.' + al.name == module:
                    out.add(al.asname or al.name)
    return out


# ------------------------------------------------------------------ wrappers

def wrapper_descr(repo, fname, callee, items):
    tree, src = parse(repo, R_RANDOM)
    fn = find_func(tree, fname)
    if fn is None:
        raise TranslationError(R_RANDOM, tree, '%s not found' % fname)
    if 'numpy' not in [al.name for n in tree.body if isinstance(n, ast.Import) for al in n.names if al.asname == 'np']:
        raise TranslationError(R_RANDOM, tree, '`np` is not numpy')
    ps = _params(fn, R_RANDOM)
    if len(ps) != 3:
        raise TranslationError(R_RANDOM, fn, '%s: expected three parameters, got %s' % (fname, ps))
    if len(fn.args.defaults) != 3:
        raise TranslationError(R_RANDOM, fn, '%s: every parameter must have a default' % fname)
    defaults = []
    for d in fn.args.defaults:
        v = _num(d)
        if v is None:
            raise TranslationError(R_RANDOM, d, 'non-numeric default')
        defaults.append(v)
    body = body_wo_doc(fn)
    if len(body) == 1 and isinstance(body[0], ast.Return):
        call = body[0].value
    elif (len(body) == 2 and isinstance(body[0], ast.Assign) and len(body[0].targets) == 1
          and isinstance(body[0].targets[0], ast.Name) and isinstance(body[1], ast.Return)
          and isinstance(body[1].value, ast.Name) and body[1].value.id == body[0].targets[0].id):
        call = body[0].value
    else:
        raise TranslationError(R_RANDOM, fn, '%s must return the result of one call unchanged' % fname)
    if not (isinstance(call, ast.Call) and ast.unparse(call.func) == callee):
        raise TranslationError(R_RANDOM, call, '%s must call %s' % (fname, callee))
    slots = CALLEE_SLOTS[callee]
    given = {}
    if len(call.args) > 3:
        raise TranslationError(R_RANDOM, call, 'too many arguments')
    for i, a in enumerate(call.args):
        given[slots[i]] = a
    for kw in call.keywords:
        if kw.arg not in slots or kw.arg in given:
            raise TranslationError(R_RANDOM, call, 'unexpected keyword `%s`' % kw.arg)
        given[kw.arg] = kw.value
    passed = []
    for s in slots:
        a = given.get(s)
        if not (isinstance(a, ast.Name) and a.id in ps):
            raise TranslationError(R_RANDOM, call, 'slot `%s` of %s does not receive a parameter of %s unchanged (got `%s`)'
                                   % (s, callee, fname, ast.unparse(a) if a is not None else 'nothing'))
        passed.append(ps.index(a.id))
    items.append({'file': R_RANDOM, 'line': call.lineno, 'text': 'def %s(%s): return %s' % (
        fname, ', '.join('%s=%r' % (p, d) for p, d in zip(ps, defaults)), src_of(src, call))})
    return ('{| wr_callee := %s; wr_params := [%s]; wr_defaults := [%s]; wr_passed := [%s]%%nat; wr_returns_call := true |}'
            % (coq_str(callee), '; '.join(coq_str(p) for p in ps), '; '.join(coq_okey(key_of_float(d)) for d in defaults),
               '; '.join(str(i) for i in passed))), ps, defaults


# ------------------------------------------------------------------ constants

def tournament_size(repo, items):
    tree, src = parse(repo, R_CONST)
    vals = [n for n in tree.body if isinstance(n, ast.Assign) and len(n.targets) == 1
            and isinstance(n.targets[0], ast.Name) and n.targets[0].id == 'TOURNAMENT_SIZE']
    if len(vals) != 1 or not (isinstance(vals[0].value, ast.Constant) and isinstance(vals[0].value.value, int)
                              and not isinstance(vals[0].value.value, bool) and vals[0].value.value >= 0):
        raise TranslationError(R_CONST, vals[0] if vals else tree, 'TOURNAMENT_SIZE must be one non-negative integer literal')
    # the selection must read it (under the module alias of utils.constants)
    gtree, gsrc = parse(repo, R_GEN)
    fn = find_func(gtree, 'tournament_selection')
    if fn is None:
        raise TranslationError(R_GEN, gtree, 'tournament_selection not found')
    al = _module_alias(gtree, 'opytimizer.utils.constants')

    def reads(node):
        return [n for n in ast.walk(node) if isinstance(n, ast.Attribute) and n.attr == 'TOURNAMENT_SIZE'
                and isinstance(n.value, ast.Name) and n.value.id in al]
    # the round size must be read from the constant WHEN THE FUNCTION IS CALLED: in its body.  A parameter default
    # (or a decorator / module-level copy) is evaluated once, at import time, and is not that.
    a = fn.args
    if a.vararg or a.kwarg or a.kwonlyargs or a.posonlyargs or a.defaults or a.kw_defaults or fn.decorator_list \
            or [x.arg for x in a.args] != ['fitness', 'n']:
        raise TranslationError(R_GEN, fn, 'tournament_selection must take exactly (fitness, n), without defaults: '
                               'the round size is constants.TOURNAMENT_SIZE read at call time')
    in_body = [n for st in fn.body for n in reads(st)]
    if not in_body:
        raise TranslationError(R_GEN, fn, 'tournament_selection does not read constants.TOURNAMENT_SIZE in its body (at call time)')
    # ... and every such read is the argument of a range(...) that sizes a round
    ranged = [n for st in fn.body for n in ast.walk(st) if isinstance(n, ast.Call) and isinstance(n.func, ast.Name)
              and n.func.id == 'range' and len(n.args) == 1 and not n.keywords and n.args[0] in in_body]
    if len(ranged) != len(in_body):
        raise TranslationError(R_GEN, fn, 'constants.TOURNAMENT_SIZE must be used as range(<constants>.TOURNAMENT_SIZE) only')
    # module-level copies of the constant (frozen at import time) are rejected as well
    for st in gtree.body:
        if not isinstance(st, (ast.FunctionDef, ast.ClassDef)) and reads(st):
            raise TranslationError(R_GEN, st, 'module-level copy of constants.TOURNAMENT_SIZE (evaluated at import time)')
    items.append({'file': R_CONST, 'line': vals[0].lineno, 'text': src_of(src, vals[0])})
    return '%d%%nat' % vals[0].value.value


# ------------------------------------------------------------------ Bernoulli loop

def _uniform_call(call, size_name, tree, file, usig):
    """r.generate_uniform_random_number(lo, hi, size) -> (low key, high key, size passed?)"""
    al = _module_alias(tree, 'opytimizer.math.random')
    if not (isinstance(call, ast.Call) and isinstance(call.func, ast.Attribute)
            and call.func.attr == 'generate_uniform_random_number' and isinstance(call.func.value, ast.Name)
            and call.func.value.id in al):
        raise TranslationError(file, call, 'draws must come from math.random.generate_uniform_random_number')
    ps, defaults = usig
    given = {}
    for i, a in enumerate(call.args):
        if i >= len(ps):
            raise TranslationError(file, call, 'too many arguments')
        given[ps[i]] = a
    for kw in call.keywords:
        if kw.arg not in ps or kw.arg in given:
            raise TranslationError(file, call, 'unexpected keyword `%s`' % kw.arg)
        given[kw.arg] = kw.value
    vals = []
    for i in (0, 1):
        if ps[i] in given:
            v = _num(given[ps[i]])
            if v is None:
                raise TranslationError(file, given[ps[i]], 'range bound must be a numeric literal')
        else:
            v = defaults[i]
        vals.append(v)
    sz = given.get(ps[2])
    return vals[0], vals[1], isinstance(sz, ast.Name) and sz.id == size_name


def bernoulli_descr(repo, usig, items):
    tree, src = parse(repo, R_DIST)
    fn = find_func(tree, 'generate_bernoulli_distribution')
    if fn is None:
        raise TranslationError(R_DIST, tree, 'generate_bernoulli_distribution not found')
    ps = _params(fn, R_DIST)
    if len(ps) != 2:
        raise TranslationError(R_DIST, fn, 'expected (prob, size)')
    prob, size = ps
    body = body_wo_doc(fn)
    if len(body) != 4:
        raise TranslationError(R_DIST, fn, 'expected: array = np.zeros(size); draws = uniform(...); for-loop; return array')
    a0, a1, loop, ret = body
    assigns = {}
    for s in (a0, a1):
        if not (isinstance(s, ast.Assign) and len(s.targets) == 1 and isinstance(s.targets[0], ast.Name)):
            raise TranslationError(R_DIST, s, 'expected a simple assignment')
        assigns[s.targets[0].id] = s.value
    arr = [k for k, v in assigns.items() if isinstance(v, ast.Call) and ast.unparse(v.func) in ('np.zeros', 'np.empty', 'np.ones')
           and [ast.unparse(x) for x in v.args] == [size] and not v.keywords]
    drw = [k for k in assigns if k not in arr]
    if len(arr) != 1 or len(drw) != 1:
        raise TranslationError(R_DIST, fn, 'expected one result array of `size` entries and one vector of draws')
    arr, drw = arr[0], drw[0]
    low, high, size_passed = _uniform_call(assigns[drw], size, tree, R_DIST, usig)
    if not (isinstance(loop, ast.For) and not loop.orelse and isinstance(loop.target, ast.Name)
            and isinstance(loop.iter, ast.Call) and ast.unparse(loop.iter) == 'range(%s)' % size):
        raise TranslationError(R_DIST, loop, 'expected `for i in range(%s)`' % size)
    i = loop.target.id
    ops = {ast.Lt: 'CmpLt', ast.LtE: 'CmpLe', ast.Gt: 'CmpGt', ast.GtE: 'CmpGe'}

    def is_draw(n):
        return (isinstance(n, ast.Subscript) and isinstance(n.value, ast.Name) and n.value.id == drw
                and isinstance(n.slice, ast.Name) and n.slice.id == i)

    def is_prob(n):
        return isinstance(n, ast.Name) and n.id == prob

    def test_of(t):
        """condition -> (comparison node, draw on the left?, negated?);  `not c` swaps the two branches"""
        neg = False
        while isinstance(t, ast.UnaryOp) and isinstance(t.op, ast.Not):
            neg = not neg
            t = t.operand
        if not (isinstance(t, ast.Compare) and len(t.ops) == 1 and len(t.comparators) == 1):
            raise TranslationError(R_DIST, t, 'expected a single comparison')
        if type(t.ops[0]) not in ops:
            raise TranslationError(R_DIST, t, 'unsupported comparison operator')
        if is_draw(t.left) and is_prob(t.comparators[0]):
            return t, True, neg
        if is_prob(t.left) and is_draw(t.comparators[0]):
            return t, False, neg
        raise TranslationError(R_DIST, t, 'comparison must be between %s[%s] and %s' % (drw, i, prob))

    def is_slot(tg):
        return (isinstance(tg, ast.Subscript) and isinstance(tg.value, ast.Name) and tg.value.id == arr
                and isinstance(tg.slice, ast.Name) and tg.slice.id == i)

    def lit(v):
        v = _num(v)
        return int(v) if v is not None and v == int(v) else None

    def store(stmts):
        if len(stmts) != 1:
            return None
        s = stmts[0]
        if not (isinstance(s, ast.Assign) and len(s.targets) == 1 and is_slot(s.targets[0])):
            return None
        return lit(s.value)
    if len(loop.body) != 1:
        raise TranslationError(R_DIST, loop, 'loop body must be one if/else or one conditional assignment')
    st = loop.body[0]
    if isinstance(st, ast.If):
        # if <test>: A[i] = c1  else: A[i] = c0
        t, left, neg = test_of(st.test)
        then, els = store(st.body), store(st.orelse)
        if then is None:
            raise TranslationError(R_DIST, st, 'then-branch must store an integer literal into %s[%s]' % (arr, i))
        if els is None:
            if st.orelse:
                raise TranslationError(R_DIST, st, 'else-branch must store an integer literal into %s[%s]' % (arr, i))
            init = ast.unparse(assigns[arr].func)
            els = {'np.zeros': 0, 'np.ones': 1}.get(init)
            if els is None:
                raise TranslationError(R_DIST, st, 'no else-branch and the array is not initialised')
    elif isinstance(st, ast.Assign) and len(st.targets) == 1 and is_slot(st.targets[0]):
        v = st.value
        if isinstance(v, ast.IfExp):
            # A[i] = c1 if <test> else c0
            t, left, neg = test_of(v.test)
            then, els = lit(v.body), lit(v.orelse)
            if then is None or els is None:
                raise TranslationError(R_DIST, st, 'both arms of the conditional expression must be integer literals')
        elif (isinstance(v, ast.Call) and isinstance(v.func, ast.Name) and v.func.id in ('int', 'float')
              and len(v.args) == 1 and not v.keywords):
            # A[i] = int(<test>) / float(<test>): True -> 1, False -> 0
            t, left, neg = test_of(v.args[0])
            then, els = 1, 0
        else:
            raise TranslationError(R_DIST, st, 'unrecognised value stored into %s[%s]' % (arr, i))
    else:
        raise TranslationError(R_DIST, st, 'loop body must be one if/else or one conditional assignment into %s[%s]' % (arr, i))
    if neg:
        then, els = els, then
    if not (isinstance(ret, ast.Return) and isinstance(ret.value, ast.Name) and ret.value.id == arr):
        raise TranslationError(R_DIST, ret, 'must return the result array `%s`' % arr)
    items.append({'file': R_DIST, 'line': t.lineno, 'text': 'if %s: %s[%s] = %d else %d ; draws = %s' % (
        src_of(src, t), arr, i, then, els, src_of(src, assigns[drw]))})
    return ('{| bd_low := %s; bd_high := %s; bd_size_passed := %s; bd_cmp := %s; bd_draw_on_left := %s; '
            'bd_then := (%d)%%Z; bd_else := (%d)%%Z; bd_over_range_size := true |}'
            % (coq_okey(key_of_float(low)), coq_okey(key_of_float(high)), coq_bool(size_passed), ops[type(t.ops[0])],
               coq_bool(left), then, els))


# ------------------------------------------------------------------ Levy

class _Levy:
    def __init__(self, tree, fn, beta, size, math_names, file):
        self.tree, self.fn, self.beta, self.size, self.math, self.file = tree, fn, beta, size, math_names, file
        self.env = {}
        self.draws = []           # source text of each Gaussian call
        self.ral = _module_alias(tree, 'opytimizer.math.random')
        self.helpers = {}         # module-level functions of the same module, by name (None = defined more than once / rebound)
        for st in tree.body:
            names = [st.name] if isinstance(st, (ast.FunctionDef, ast.ClassDef)) else \
                [t.id for t in getattr(st, 'targets', []) if isinstance(t, ast.Name)]
            for nm in names:
                self.helpers[nm] = st if isinstance(st, ast.FunctionDef) and nm not in self.helpers else None
        self.stack = []           # helpers being inlined (no recursion)

    def inline(self, call, helper):
        """same-module pure helper: positional parameters substituted by the (already translated) arguments, body =
        straight-line single assignments of temporaries + one return.  The helper must not draw: the order of the
        Gaussian draws stays the statement order of the caller."""
        f = self.file
        if helper.name in self.stack:
            raise TranslationError(f, call, 'recursive helper `%s`' % helper.name)
        ps = _params(helper, f)
        if helper.decorator_list or helper.args.defaults or call.keywords or len(call.args) != len(ps):
            raise TranslationError(f, call, 'helper `%s` must be called with exactly its positional parameters' % helper.name)
        args = [self.expr(a) for a in call.args]              # arguments are evaluated before the call, left to right
        saved = (self.env, self.beta, self.size, len(self.draws))
        self.env, self.beta, self.size = dict(zip(ps, args)), None, None
        self.stack.append(helper.name)
        try:
            body = body_wo_doc(helper)
            if not body or not isinstance(body[-1], ast.Return) or body[-1].value is None:
                raise TranslationError(f, helper, 'helper `%s` must end with `return <expression>`' % helper.name)
            for s in body[:-1]:
                if not (isinstance(s, ast.Assign) and len(s.targets) == 1 and isinstance(s.targets[0], ast.Name)):
                    raise TranslationError(f, s, 'helper `%s`: only simple assignments of temporaries are recognised' % helper.name)
                nm = s.targets[0].id
                if nm in self.env:
                    raise TranslationError(f, s, 'helper `%s`: `%s` is assigned twice / shadows a parameter' % (helper.name, nm))
                self.env[nm] = self.expr(s.value)
            out = self.expr(body[-1].value)
            if len(self.draws) != saved[3]:
                raise TranslationError(f, helper, 'helper `%s` consumes random draws' % helper.name)
            return out
        finally:
            self.stack.pop()
            self.env, self.beta, self.size = saved[0], saved[1], saved[2]

    def expr(self, n):
        f = self.file
        if isinstance(n, ast.Name):
            if n.id == self.beta:
                return 'LBeta'
            if n.id in self.env:
                return self.env[n.id]
            if self.math.get(n.id) == 'pi':
                return 'LPi'
            raise TranslationError(f, n, 'unknown name `%s`' % n.id)
        if isinstance(n, ast.Attribute) and ast.unparse(n) in ('math.pi', 'np.pi'):
            return 'LPi'
        v = _num(n) if isinstance(n, ast.Constant) else None
        if v is not None:
            if v != int(v) or abs(v) >= 2 ** 53:
                raise TranslationError(f, n, 'non-integer literal %r' % v)
            return '(LInt (%d)%%Z)' % int(v)
        if isinstance(n, ast.UnaryOp) and isinstance(n.op, ast.USub):
            return '(LNeg %s)' % self.expr(n.operand)
        if isinstance(n, ast.UnaryOp) and isinstance(n.op, ast.UAdd):
            return self.expr(n.operand)
        if isinstance(n, ast.BinOp):
            ops = {ast.Add: 'LAdd', ast.Sub: 'LSub', ast.Mult: 'LMul', ast.Div: 'LDiv', ast.Pow: 'LPow'}
            if type(n.op) not in ops:
                raise TranslationError(f, n, 'unsupported operator')
            left = self.expr(n.left)          # Python evaluates the left operand first
            right = self.expr(n.right)
            return '(%s %s %s)' % (ops[type(n.op)], left, right)
        if isinstance(n, ast.Call):
            name = ast.unparse(n.func)
            if isinstance(n.func, ast.Name) and n.func.id in self.env:
                raise TranslationError(f, n, 'call of the local `%s`' % n.func.id)
            if isinstance(n.func, ast.Name) and n.func.id in self.helpers and n.func.id in self.math:
                raise TranslationError(f, n, '`%s` is both imported from math and defined in the module' % n.func.id)
            if isinstance(n.func, ast.Name) and self.helpers.get(n.func.id) is not None:
                return self.inline(n, self.helpers[n.func.id])
            if isinstance(n.func, ast.Name) and self.math.get(n.func.id) in ('gamma', 'sin') or name in ('math.gamma', 'math.sin'):
                which = self.math.get(n.func.id) if isinstance(n.func, ast.Name) else name.split('.')[1]
                if len(n.args) != 1 or n.keywords:
                    raise TranslationError(f, n, '%s takes one argument' % name)
                return '(%s %s)' % ({'gamma': 'LGamma', 'sin': 'LSin'}[which], self.expr(n.args[0]))
            if name in ('np.fabs', 'np.abs', 'np.absolute', 'abs'):
                if len(n.args) != 1 or n.keywords:
                    raise TranslationError(f, n, '%s takes one argument' % name)
                return '(LFabs %s)' % self.expr(n.args[0])
            if (isinstance(n.func, ast.Attribute) and n.func.attr == 'generate_gaussian_random_number'
                    and isinstance(n.func.value, ast.Name) and n.func.value.id in self.ral):
                ok = not n.args and len(n.keywords) == 1 and n.keywords[0].arg == 'size' \
                    and isinstance(n.keywords[0].value, ast.Name) and n.keywords[0].value.id == self.size
                if not ok:
                    raise TranslationError(f, n, 'Gaussian draws must be standard: generate_gaussian_random_number(size=%s)' % self.size)
                k = len(self.draws)
                self.draws.append(ast.unparse(n))
                return '(LG %d)' % k
            raise TranslationError(f, n, 'unsupported call `%s`' % name)
        raise TranslationError(f, n, 'unsupported expression')


def levy_expr(repo, gsig, items):
    tree, src = parse(repo, R_DIST)
    fn = find_func(tree, 'generate_levy_distribution')
    if fn is None:
        raise TranslationError(R_DIST, tree, 'generate_levy_distribution not found')
    ps = _params(fn, R_DIST)
    if len(ps) != 2:
        raise TranslationError(R_DIST, fn, 'expected (beta, size)')
    math_names = {}
    for n in tree.body:
        if isinstance(n, ast.ImportFrom) and n.module == 'math':
            for al in n.names:
                math_names[al.asname or al.name] = al.name
    gps, gdefaults = gsig
    if gdefaults[0] != 0 or gdefaults[1] != 1:
        raise TranslationError(R_RANDOM, None, 'Gaussian defaults are not (0, 1): %s' % (gdefaults,))
    tr = _Levy(tree, fn, ps[0], ps[1], math_names, R_DIST)
    body = body_wo_doc(fn)
    if not body or not isinstance(body[-1], ast.Return):
        raise TranslationError(R_DIST, fn, 'must end with a return')
    for s in body[:-1]:
        if not (isinstance(s, ast.Assign) and len(s.targets) == 1 and isinstance(s.targets[0], ast.Name)):
            raise TranslationError(R_DIST, s, 'only simple assignments of temporaries are recognised')
        nm = s.targets[0].id
        if nm in ps or nm in tr.env:
            raise TranslationError(R_DIST, s, '`%s` is assigned twice / shadows a parameter' % nm)
        tr.env[nm] = tr.expr(s.value)
    term = tr.expr(body[-1].value)
    items.append({'file': R_DIST, 'line': body[-1].lineno,
                  'text': ' ; '.join(src_of(src, s) for s in body if not isinstance(s, ast.Return)) + ' ; ' + src_of(src, body[-1])})
    return term, len(tr.draws)


# ------------------------------------------------------------------ driver

def generate(repo):
    """-> ({'PrimsDescr.v': text, 'LevyExpr.v': text}, items, errors)"""
    items, errors = [], []
    out = [HEADER, 'From Coq Require Import String ZArith List.', 'From OV Require Import Base.FloatKey Model.Prims.',
           'Import ListNotations.', 'Local Open Scope string_scope.', '']
    lev = [HEADER, 'From Coq Require Import ZArith List.', 'From OV Require Import Model.Levy.', '']

    def guard(name, f):
        try:
            return f()
        except TranslationError as ex:
            errors.append({'item': name, 'file': ex.file, 'line': ex.line, 'msg': ex.msg})
        except (KeyError, IndexError, AttributeError, TypeError, ValueError) as ex:
            errors.append({'item': name, 'file': '?', 'line': 0, 'msg': 'translator: %r' % ex})
        return None

    ts = guard('tournament_size', lambda: tournament_size(repo, items))
    if ts is not None:
        out.append('Definition tournament_size : nat := %s.' % ts)
    u = guard('uniform_wrapper', lambda: wrapper_descr(repo, 'generate_uniform_random_number', 'np.random.uniform', items))
    if u is not None:
        out.append('Definition uniform_wrapper : wrap_descr := %s.' % u[0])
    g = guard('gaussian_wrapper', lambda: wrapper_descr(repo, 'generate_gaussian_random_number', 'np.random.normal', items))
    if g is not None:
        out.append('Definition gaussian_wrapper : wrap_descr := %s.' % g[0])
    if u is not None:
        b = guard('bernoulli_descr', lambda: bernoulli_descr(repo, (u[1], u[2]), items))
        if b is not None:
            out.append('Definition bernoulli_descr : bern_descr := %s.' % b)
    if g is not None:
        lv = guard('levy_code', lambda: levy_expr(repo, (g[1], g[2]), items))
        if lv is not None:
            lev.append('Definition levy_code : lx := %s.' % lv[0])
            lev.append('Definition levy_n_draws : nat := %d%%nat.' % lv[1])
    return {'PrimsDescr.v': '\n'.join(out) + '\n', 'LevyExpr.v': '\n'.join(lev) + '\n'}, items, errors
