"""T4 (History): the clause table of History.dump/_parse and constants.HISTORY_KEYS -> Gen/HistoryDescr.v.

Fail-closed: every statement of `dump` and `_parse` must match the recognised shape; what may vary is
*data* of the descriptor (the key list, the key tests in order, which expression each clause stores --
`.position.tolist()` copy vs `.position` reference, `.fit`, `v.tolist()` vs `v` -- and the operator / literal /
polarity of the store_best_only `continue` filter).  A rewrite that stores references or inverts the filter
therefore still translates but yields a descriptor different from Model/History.v's `std_descr`, and the
obligation `history_descr = std_descr` in Props/C19.v (and Props/C04.v) stops compiling."""
import ast
from .common import TranslationError, parse, find_class, find_func, body_wo_doc, src_of, coq_str, coq_bool, HEADER

REL = 'opytimizer/utils/history.py'
REL_C = 'opytimizer/utils/constants.py'


def history_keys(repo, items):
    tree, src = parse(repo, REL_C)
    found = None
    for n in tree.body:
        if isinstance(n, ast.Assign) and len(n.targets) == 1 and isinstance(n.targets[0], ast.Name) \
                and n.targets[0].id == 'HISTORY_KEYS':
            if found is not None:
                raise TranslationError(REL_C, n, 'HISTORY_KEYS assigned twice')
            found = n
        elif isinstance(n, (ast.AugAssign, ast.AnnAssign)) and getattr(n.target, 'id', None) == 'HISTORY_KEYS':
            raise TranslationError(REL_C, n, 'unexpected assignment form for HISTORY_KEYS')
    if found is None:
        raise TranslationError(REL_C, tree, 'HISTORY_KEYS not found')
    v = found.value
    if not (isinstance(v, (ast.List, ast.Tuple)) and all(isinstance(e, ast.Constant) and isinstance(e.value, str) for e in v.elts)):
        raise TranslationError(REL_C, found, 'HISTORY_KEYS must be a literal list of strings')
    items.append({'file': REL_C, 'line': found.lineno, 'text': src_of(src, found)})
    return [e.value for e in v.elts]


def constants_alias(tree):
    """the name under which opytimizer.utils.constants is visible in history.py"""
    for n in tree.body:
        if isinstance(n, ast.Import):
            for a in n.names:
                if a.name == 'opytimizer.utils.constants' and a.asname:
                    return a.asname
        if isinstance(n, ast.ImportFrom) and n.module == 'opytimizer.utils' and n.level == 0:
            for a in n.names:
                if a.name == 'constants':
                    return a.asname or 'constants'
    raise TranslationError(REL, tree, 'import of opytimizer.utils.constants not found')


def _args(fn, want, node):
    names = [a.arg for a in fn.args.args]
    if names != want or fn.args.vararg or fn.args.kwonlyargs or fn.args.defaults or fn.args.posonlyargs:
        raise TranslationError(REL, node, 'unexpected signature %s' % names)


def _aexpr(node, var):
    """expression over the object named `var`"""
    if isinstance(node, ast.Call) and not node.args and not node.keywords and isinstance(node.func, ast.Attribute) \
            and node.func.attr == 'tolist':
        inner = node.func.value
        if isinstance(inner, ast.Attribute) and inner.attr == 'position' and isinstance(inner.value, ast.Name) \
                and inner.value.id == var:
            return 'APosCopy'
    if isinstance(node, ast.Attribute) and isinstance(node.value, ast.Name) and node.value.id == var:
        if node.attr == 'position':
            return 'APosRef'
        if node.attr == 'fit':
            return 'AFit'
    raise TranslationError(REL, node, 'unrecognised record component `%s`' % ast.unparse(node))


def _pexpr(node, value):
    if isinstance(node, ast.Name) and node.id == value:
        return 'PValue'
    if isinstance(node, ast.Tuple):
        return 'PAgentTuple [%s]' % '; '.join(_aexpr(e, value) for e in node.elts)
    if isinstance(node, ast.ListComp):
        if len(node.generators) != 1:
            raise TranslationError(REL, node, 'expected one generator')
        g = node.generators[0]
        if g.ifs or g.is_async or not isinstance(g.target, ast.Name) or not (isinstance(g.iter, ast.Name) and g.iter.id == value):
            raise TranslationError(REL, node, 'expected `for v in %s` without conditions' % value)
        v = g.target.id
        if v == value:
            raise TranslationError(REL, node, 'comprehension variable shadows the argument')
        e = node.elt
        if isinstance(e, ast.Tuple):
            return 'PAgentsTuple [%s]' % '; '.join(_aexpr(x, v) for x in e.elts)
        if isinstance(e, ast.Name) and e.id == v:
            return 'PArrays false'
        if isinstance(e, ast.Call) and not e.args and not e.keywords and isinstance(e.func, ast.Attribute) \
                and e.func.attr == 'tolist' and isinstance(e.func.value, ast.Name) and e.func.value.id == v:
            return 'PArrays true'
        raise TranslationError(REL, e, 'unrecognised comprehension element `%s`' % ast.unparse(e))
    raise TranslationError(REL, node, 'unrecognised _parse result `%s`' % ast.unparse(node))


def parse_clauses(cls, src, items):
    fn = find_func(cls, '_parse')
    if fn is None:
        raise TranslationError(REL, cls, 'History._parse not found')
    if fn.decorator_list:
        raise TranslationError(REL, fn, 'decorated _parse')
    _args(fn, ['self', 'key', 'value'], fn)
    keyv, valv = 'key', 'value'
    body = body_wo_doc(fn)
    clauses = []
    # every clause is `return <expr>`, so a sequence of independent `if`s is the same function as the if/elif chain; a final
    # `return None` (or an `else: return None`) spells out the fall-through
    if body and isinstance(body[-1], ast.Return) and (body[-1].value is None or (isinstance(body[-1].value, ast.Constant) and body[-1].value.value is None)):
        body = body[:-1]
    if not body or not all(isinstance(b, ast.If) for b in body) or any(b.orelse for b in body[:-1]):
        raise TranslationError(REL, fn, '_parse must be an if/elif chain (or consecutive ifs) of `key == <literal>: return <expr>` clauses')
    chain = None
    for b in reversed(body):
        if chain is not None:
            nb = ast.If(test=b.test, body=b.body, orelse=[chain])
            ast.copy_location(nb, b)
            chain = nb
        else:
            chain = b
    cur = chain
    while True:
        t = cur.test
        if not (isinstance(t, ast.Compare) and len(t.ops) == 1 and isinstance(t.ops[0], ast.Eq)
                and isinstance(t.left, ast.Name) and t.left.id == keyv
                and isinstance(t.comparators[0], ast.Constant) and isinstance(t.comparators[0].value, str)):
            raise TranslationError(REL, cur, 'expected `%s == <literal>`' % keyv)
        if len(cur.body) != 1 or not isinstance(cur.body[0], ast.Return) or cur.body[0].value is None:
            raise TranslationError(REL, cur, 'a clause must be a single `return <expr>`')
        clauses.append((t.comparators[0].value, _pexpr(cur.body[0].value, valv)))
        items.append({'file': REL, 'line': cur.body[0].lineno, 'text': '%s: %s' % (src_of(src, t), src_of(src, cur.body[0]))})
        if not cur.orelse:
            break
        if len(cur.orelse) == 1 and isinstance(cur.orelse[0], ast.If):
            cur = cur.orelse[0]
            continue
        if len(cur.orelse) == 1 and isinstance(cur.orelse[0], ast.Return) and (
                cur.orelse[0].value is None or (isinstance(cur.orelse[0].value, ast.Constant) and cur.orelse[0].value.value is None)):
            break
        raise TranslationError(REL, cur.orelse[0], 'unexpected else branch in _parse')
    return clauses


def _is_self_attr(node, attr):
    return isinstance(node, ast.Attribute) and node.attr == attr and isinstance(node.value, ast.Name) and node.value.id == 'self'


def _call(node, fname, nargs):
    return (isinstance(node, ast.Call) and isinstance(node.func, ast.Name) and node.func.id == fname
            and len(node.args) == nargs and not node.keywords)


def dump_descr(cls, src, alias, items):
    fn = find_func(cls, 'dump')
    if fn is None:
        raise TranslationError(REL, cls, 'History.dump not found')
    a = fn.args
    if [x.arg for x in a.args] != ['self'] or a.vararg or a.kwonlyargs or a.kwarg is None or fn.decorator_list:
        raise TranslationError(REL, fn, 'dump must be dump(self, **kwargs)')
    kw = a.kwarg.arg
    body = body_wo_doc(fn)
    if len(body) != 1 or not isinstance(body[0], ast.For) or body[0].orelse:
        raise TranslationError(REL, fn, 'dump must be a single for loop over the keyword arguments')
    loop = body[0]
    t = loop.target
    if not (isinstance(t, ast.Tuple) and len(t.elts) == 2 and all(isinstance(e, ast.Name) for e in t.elts)):
        raise TranslationError(REL, loop, 'expected `for (k, v) in ...`')
    k, v = t.elts[0].id, t.elts[1].id
    it = loop.iter
    if not (isinstance(it, ast.Call) and not it.args and not it.keywords and isinstance(it.func, ast.Attribute)
            and it.func.attr == 'items' and isinstance(it.func.value, ast.Name) and it.func.value.id == kw) or k == v:
        raise TranslationError(REL, loop, 'expected iteration over %s.items()' % kw)
    if len(loop.body) != 2 or not all(isinstance(s, ast.If) for s in loop.body):
        raise TranslationError(REL, loop, 'loop body must be: select `out`; create-or-append')
    sel, app = loop.body
    # ---- selection of `out`
    c = sel.test
    if not (isinstance(c, ast.Compare) and len(c.ops) == 1 and isinstance(c.ops[0], (ast.In, ast.NotIn))
            and isinstance(c.left, ast.Name) and c.left.id == k
            and isinstance(c.comparators[0], ast.Attribute) and c.comparators[0].attr == 'HISTORY_KEYS'
            and isinstance(c.comparators[0].value, ast.Name) and c.comparators[0].value.id == alias):
        raise TranslationError(REL, sel, 'expected `%s in %s.HISTORY_KEYS`' % (k, alias))

    def is_given(stmts):
        return (len(stmts) == 1 and isinstance(stmts[0], ast.Assign) and len(stmts[0].targets) == 1
                and isinstance(stmts[0].targets[0], ast.Name) and isinstance(stmts[0].value, ast.Name)
                and stmts[0].value.id == v)

    if is_given(sel.orelse) and not is_given(sel.body):
        parsed, given, parsed_is_body = sel.body, sel.orelse, True
    elif is_given(sel.body) and not is_given(sel.orelse):
        parsed, given, parsed_is_body = sel.orelse, sel.body, False
    else:
        raise TranslationError(REL, sel, 'expected one branch `out = %s` and one parsed branch' % v)
    out = given[0].targets[0].id
    member_positive = isinstance(c.ops[0], ast.In) == parsed_is_body
    if len(parsed) != 2 or not isinstance(parsed[0], ast.If) or parsed[0].orelse:
        raise TranslationError(REL, sel, 'parsed branch must be: filter; out = self._parse(k, v)')
    flt, asg = parsed
    if len(flt.body) != 1 or not isinstance(flt.body[0], ast.Continue):
        raise TranslationError(REL, flt, 'the filter must `continue`')
    ft = flt.test
    if not (isinstance(ft, ast.BoolOp) and isinstance(ft.op, ast.And) and len(ft.values) == 2):
        raise TranslationError(REL, flt, 'expected `<key test> and <flag>`')
    cmpn = [x for x in ft.values if isinstance(x, ast.Compare)]
    flg = [x for x in ft.values if not isinstance(x, ast.Compare)]
    if len(cmpn) != 1 or len(flg) != 1:
        raise TranslationError(REL, flt, 'expected one key comparison and one flag test')
    cm, fl = cmpn[0], flg[0]
    if not (len(cm.ops) == 1 and isinstance(cm.ops[0], (ast.NotEq, ast.Eq)) and isinstance(cm.left, ast.Name)
            and cm.left.id == k and isinstance(cm.comparators[0], ast.Constant) and isinstance(cm.comparators[0].value, str)):
        raise TranslationError(REL, cm, 'expected `%s != <literal>`' % k)
    if _is_self_attr(fl, 'store_best_only'):
        flag_pos = True
    elif isinstance(fl, ast.UnaryOp) and isinstance(fl.op, ast.Not) and _is_self_attr(fl.operand, 'store_best_only'):
        flag_pos = False
    else:
        raise TranslationError(REL, fl, 'expected `self.store_best_only`')
    items.append({'file': REL, 'line': flt.lineno, 'text': 'if %s: continue' % src_of(src, ft)})
    if not (isinstance(asg, ast.Assign) and len(asg.targets) == 1 and isinstance(asg.targets[0], ast.Name)
            and asg.targets[0].id == out and isinstance(asg.value, ast.Call) and _is_self_attr(asg.value.func, '_parse')
            and [getattr(x, 'id', None) for x in asg.value.args] == [k, v] and not asg.value.keywords):
        raise TranslationError(REL, asg, 'expected `%s = self._parse(%s, %s)`' % (out, k, v))
    # ---- create or append
    at = app.test
    if isinstance(at, ast.UnaryOp) and isinstance(at.op, ast.Not) and _call(at.operand, 'hasattr', 2):
        has, create, append = at.operand, app.body, app.orelse
    elif _call(at, 'hasattr', 2):
        has, create, append = at, app.orelse, app.body
    else:
        raise TranslationError(REL, app, 'expected a hasattr(self, %s) test' % k)
    if [getattr(x, 'id', None) for x in has.args] != ['self', k]:
        raise TranslationError(REL, app, 'expected hasattr(self, %s)' % k)
    ok_create = (len(create) == 1 and isinstance(create[0], ast.Expr) and _call(create[0].value, 'setattr', 3)
                 and [getattr(x, 'id', None) for x in create[0].value.args[:2]] == ['self', k]
                 and isinstance(create[0].value.args[2], ast.List) and len(create[0].value.args[2].elts) == 1
                 and isinstance(create[0].value.args[2].elts[0], ast.Name) and create[0].value.args[2].elts[0].id == out)
    if not ok_create:
        raise TranslationError(REL, app, 'expected setattr(self, %s, [%s])' % (k, out))
    ok_append = False
    if len(append) == 1 and isinstance(append[0], ast.Expr) and isinstance(append[0].value, ast.Call):
        ca = append[0].value
        ok_append = (isinstance(ca.func, ast.Attribute) and ca.func.attr == 'append' and _call(ca.func.value, 'getattr', 2)
                     and [getattr(x, 'id', None) for x in ca.func.value.args] == ['self', k]
                     and len(ca.args) == 1 and isinstance(ca.args[0], ast.Name) and ca.args[0].id == out and not ca.keywords)
    if not ok_append:
        raise TranslationError(REL, app, 'expected getattr(self, %s).append(%s)' % (k, out))
    return {'member_positive': member_positive, 'filter_key': cm.comparators[0].value,
            'filter_noteq': isinstance(cm.ops[0], ast.NotEq), 'flag_positive': flag_pos}


def generate(repo):
    """-> (coq text, items, errors)."""
    items, errors = [], []
    out = [HEADER, 'From Coq Require Import ZArith List String.', 'From OV Require Import Base.FloatKey Model.History.',
           'Import ListNotations.', 'Open Scope string_scope.', '']
    try:
        keys = history_keys(repo, items)
        tree, src = parse(repo, REL)
        alias = constants_alias(tree)
        cls = find_class(tree, 'History')
        if cls is None:
            raise TranslationError(REL, tree, 'class History not found')
        for name in ('dump', '_parse'):
            if sum(1 for n in cls.body if isinstance(n, ast.FunctionDef) and n.name == name) != 1:
                raise TranslationError(REL, cls, 'History.%s must be defined exactly once' % name)
        clauses = parse_clauses(cls, src, items)
        d = dump_descr(cls, src, alias, items)
        out.append('Definition history_descr : hdescr := {|')
        out.append('  hd_history_keys := [%s];' % '; '.join(coq_str(k) for k in keys))
        out.append('  hd_member_positive := %s;' % coq_bool(d['member_positive']))
        out.append('  hd_filter_key := %s;' % coq_str(d['filter_key']))
        out.append('  hd_filter_noteq := %s;' % coq_bool(d['filter_noteq']))
        out.append('  hd_filter_flag_positive := %s;' % coq_bool(d['flag_positive']))
        out.append('  hd_clauses := [%s];' % '; '.join('(%s, %s)' % (coq_str(k), p) for k, p in clauses))
        out.append('  hd_else_as_given := true;')
        out.append('  hd_create_or_append := true |}.')
    except TranslationError as ex:
        errors.append({'item': 'history_descr', 'file': ex.file, 'line': ex.line, 'msg': ex.msg})
    except (KeyError, IndexError, AttributeError, SyntaxError, OSError) as ex:
        errors.append({'item': 'history_descr', 'file': REL, 'line': 0, 'msg': 'translator: %r' % ex})
    return '\n'.join(out) + '\n', items, errors


if __name__ == '__main__':
    import sys
    text, items, errors = generate(sys.argv[1] if len(sys.argv) > 1 else '/repo')
    sys.stdout.write(text)
    for e in errors:
        sys.stderr.write('ERROR %(file)s:%(line)s: %(msg)s\n' % e)
