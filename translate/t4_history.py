"""T4 (History): the clause table of History.dump/_parse and constants.HISTORY_KEYS -> Gen/HistoryDescr.v.

Fail-closed: every statement of `dump` and `_parse` must match the recognised shape; what may vary is
*data* of the descriptor (the key list, the key tests in order, which expression each clause stores --
`.position.tolist()` copy vs `.position` reference, `.fit`, `v.tolist()` vs `v` -- and the operator / literal /
polarity of the store_best_only `continue` filter).  A rewrite that stores references or inverts the filter
therefore still translates but yields a descriptor different from Model/History.v's `std_descr`, and the
obligation `history_descr = std_descr` in Props/C19.v (and Props/C04.v) stops compiling."""
import ast
from .common import TranslationError, parse, find_class, find_func, body_wo_doc, src_of, coq_str, coq_bool, HEADER

REL = 'opytimizer/utils/history.py'
REL_C = 'opytimizer/utils/constants.py'


def history_keys(repo, items):
    tree, src = parse(repo, REL_C)
    found = None
    for n in tree.body:
        if isinstance(n, ast.Assign) and len(n.targets) == 1 and isinstance(n.targets[0], ast.Name) \
                and n.targets[0].id == 'HISTORY_KEYS':
            if found is not None:
                raise TranslationError(REL_C, n, 'HISTORY_KEYS assigned twice')
            found = n
        elif isinstance(n, (ast.AugAssign, ast.AnnAssign)) and getattr(n.target, 'id', None) == 'HISTORY_KEYS':
            raise TranslationError(REL_C, n, 'unexpected assignment form for HISTORY_KEYS')
    if found is None:
        raise TranslationError(REL_C, tree, 'HISTORY_KEYS not found')
    v = found.value
    if not (isinstance(v, (ast.List, ast.Tuple)) and all(isinstance(e, ast.Constant) and isinstance(e.value, str) for e in v.elts)):
        raise TranslationError(REL_C, found, 'HISTORY_KEYS must be a literal list of strings')
    items.append({'file': REL_C, 'line': found.lineno, 'text': src_of(src, found)})
    return [e.value for e in v.elts]


def constants_alias(tree):
    """the name under which opytimizer.utils.constants is visible in history.py"""
    for n in tree.body:
        if isinstance(n, ast.Import):
            for a in n.names:
                if a.name == 'opytimizer.utils.constants' and a.asname:
                    return a.asname
        if isinstance(n, ast.ImportFrom) and n.module == 'opytimizer.utils' and n.level == 0:
            for a in n.names:
                if a.name == 'constants':
                    return a.asname or 'constants'
    raise TranslationError(REL, tree, 'import of opytimizer.utils.constants not found')


def _args(fn, want, node):
    names = [a.arg for a in fn.args.args]
    if names != want or fn.args.vararg or fn.args.kwonlyargs or fn.args.defaults or fn.args.posonlyargs:
        raise TranslationError(REL, node, 'unexpected signature %s' % names)


def _aexpr(node, var):
    """expression over the object named `var`"""
    if isinstance(node, ast.Call) and not node.args and not node.keywords and isinstance(node.func, ast.Attribute) \
            and node.func.attr == 'tolist':
        inner = node.func.value
        if isinstance(inner, ast.Attribute) and inner.attr == 'position' and isinstance(inner.value, ast.Name) \
                and inner.value.id == var:
            return 'APosCopy'
    if isinstance(node, ast.Attribute) and isinstance(node.value, ast.Name) and node.value.id == var:
        if node.attr == 'position':
            return 'APosRef'
        if node.attr == 'fit':
            return 'AFit'
    raise TranslationError(REL, node, 'unrecognised record component `%s`' % ast.unparse(node))


def _pexpr(node, value):
    if isinstance(node, ast.Name) and node.id == value:
        return 'PValue'
    if isinstance(node, ast.Tuple):
        return 'PAgentTuple [%s]' % '; '.join(_aexpr(e, value) for e in node.elts)
    if isinstance(node, ast.ListComp):
        if len(node.generators) != 1:
            raise TranslationError(REL, node, 'expected one generator')
        g = node.generators[0]
        if g.ifs or g.is_async or not isinstance(g.target, ast.Name) or not (isinstance(g.iter, ast.Name) and g.iter.id == value):
            raise TranslationError(REL, node, 'expected `for v in %s` without conditions' % value)
        v = g.target.id
        if v == value:
            raise TranslationError(REL, node, 'comprehension variable shadows the argument')
        e = node.elt
        if isinstance(e, ast.Tuple):
            return 'PAgentsTuple [%s]' % '; '.join(_aexpr(x, v) for x in e.elts)
        if isinstance(e, ast.Name) and e.id == v:
            return 'PArrays false'
        if isinstance(e, ast.Call) and not e.args and not e.keywords and isinstance(e.func, ast.Attribute) \
                and e.func.attr == 'tolist' and isinstance(e.func.value, ast.Name) and e.func.value.id == v:
            return 'PArrays true'
        raise TranslationError(REL, e, 'unrecognised comprehension element `%s`' % ast.unparse(e))
    raise TranslationError(REL, node, 'unrecognised _parse result `%s`' % ast.unparse(node))


def _inline_clause_locals(clause, reserved):
    """`[<local> = <expr>]* ; return <expr>` -> the returned expression with every local replaced by its value.  Each local is a fresh
    name bound once and read exactly once (so no value is duplicated or dropped); the result is then validated by _pexpr, which only
    accepts reads of the argument (attribute reads, `.tolist()` copies) -- pure, so the order in which they are evaluated is immaterial."""
    body = clause.body
    if not body or not isinstance(body[-1], ast.Return) or body[-1].value is None:
        raise TranslationError(REL, clause, 'a clause must end in `return <expr>`')
    env = {}
    for st in body[:-1]:
        name = st.targets[0].id if isinstance(st, ast.Assign) and len(st.targets) == 1 and isinstance(st.targets[0], ast.Name) else None
        if name is None or name in reserved or name in env:
            raise TranslationError(REL, st, 'a clause must be single-assignment local bindings followed by `return <expr>`')
        env[name] = st.value
    used = {}

    class Sub(ast.NodeTransformer):
        def visit_Name(self, n):
            if isinstance(n.ctx, ast.Load) and n.id in env:
                used[n.id] = used.get(n.id, 0) + 1
                return self.visit(env[n.id])
            return n

        def visit_ListComp(self, n):
            for g in n.generators:
                for x in ast.walk(g.target):
                    if isinstance(x, ast.Name) and x.id in env:
                        raise TranslationError(REL, n, 'comprehension variable shadows a local')
            return self.generic_visit(n)
    import copy as _copy
    ret = Sub().visit(_copy.deepcopy(body[-1].value))
    for name in env:
        if used.get(name, 0) != 1:
            raise TranslationError(REL, clause, 'local `%s` of a _parse clause must be read exactly once' % name)
    return ret


def parse_clauses(cls, src, items):
    fn = find_func(cls, '_parse')
    if fn is None:
        raise TranslationError(REL, cls, 'History._parse not found')
    if fn.decorator_list:
        raise TranslationError(REL, fn, 'decorated _parse')
    _args(fn, ['self', 'key', 'value'], fn)
    keyv, valv = 'key', 'value'
    body = body_wo_doc(fn)
    clauses = []
    # every clause is `return <expr>`, so a sequence of independent `if`s is the same function as the if/elif chain; a final
    # `return None` (or an `else: return None`) spells out the fall-through
    if body and isinstance(body[-1], ast.Return) and (body[-1].value is None or (isinstance(body[-1].value, ast.Constant) and body[-1].value.value is None)):
        body = body[:-1]
    if not body or not all(isinstance(b, ast.If) for b in body) or any(b.orelse for b in body[:-1]):
        raise TranslationError(REL, fn, '_parse must be an if/elif chain (or consecutive ifs) of `key == <literal>: return <expr>` clauses')
    chain = None
    for b in reversed(body):
        if chain is not None:
            nb = ast.If(test=b.test, body=b.body, orelse=[chain])
            ast.copy_location(nb, b)
            chain = nb
        else:
            chain = b
    cur = chain
    while True:
        t = cur.test
        if not (isinstance(t, ast.Compare) and len(t.ops) == 1 and isinstance(t.ops[0], ast.Eq)
                and isinstance(t.left, ast.Name) and t.left.id == keyv
                and isinstance(t.comparators[0], ast.Constant) and isinstance(t.comparators[0].value, str)):
            raise TranslationError(REL, cur, 'expected `%s == <literal>`' % keyv)
        ret = _inline_clause_locals(cur, (keyv, valv, 'self'))
        clauses.append((t.comparators[0].value, _pexpr(ret, valv)))
        items.append({'file': REL, 'line': cur.body[-1].lineno, 'text': '%s: return %s' % (src_of(src, t), ast.unparse(ret))})
        if not cur.orelse:
            break
        if len(cur.orelse) == 1 and isinstance(cur.orelse[0], ast.If):
            cur = cur.orelse[0]
            continue
        if len(cur.orelse) == 1 and isinstance(cur.orelse[0], ast.Return) and (
                cur.orelse[0].value is None or (isinstance(cur.orelse[0].value, ast.Constant) and cur.orelse[0].value.value is None)):
            break
        raise TranslationError(REL, cur.orelse[0], 'unexpected else branch in _parse')
    return clauses


def _is_self_attr(node, attr):
    return isinstance(node, ast.Attribute) and node.attr == attr and isinstance(node.value, ast.Name) and node.value.id == 'self'


def _call(node, fname, nargs):
    return (isinstance(node, ast.Call) and isinstance(node.func, ast.Name) and node.func.id == fname
            and len(node.args) == nargs and not node.keywords)


def dump_descr(cls, src, alias, items):
    fn = find_func(cls, 'dump')
    if fn is None:
        raise TranslationError(REL, cls, 'History.dump not found')
    a = fn.args
    if [x.arg for x in a.args] != ['self'] or a.vararg or a.kwonlyargs or a.kwarg is None or fn.decorator_list:
        raise TranslationError(REL, fn, 'dump must be dump(self, **kwargs)')
    kw = a.kwarg.arg
    body = body_wo_doc(fn)
    if len(body) != 1 or not isinstance(body[0], ast.For) or body[0].orelse:
        raise TranslationError(REL, fn, 'dump must be a single for loop over the keyword arguments')
    loop = body[0]
    t = loop.target
    if not (isinstance(t, ast.Tuple) and len(t.elts) == 2 and all(isinstance(e, ast.Name) for e in t.elts)):
        raise TranslationError(REL, loop, 'expected `for (k, v) in ...`')
    k, v = t.elts[0].id, t.elts[1].id
    it = loop.iter
    if not (isinstance(it, ast.Call) and not it.args and not it.keywords and isinstance(it.func, ast.Attribute)
            and it.func.attr == 'items' and isinstance(it.func.value, ast.Name) and it.func.value.id == kw) or k == v:
        raise TranslationError(REL, loop, 'expected iteration over %s.items()' % kw)
    if len(loop.body) != 2 or not all(isinstance(s, ast.If) for s in loop.body):
        raise TranslationError(REL, loop, 'loop body must be: select `out`; create-or-append')
    sel, app = loop.body
    # ---- selection of `out`
    c = sel.test
    if not (isinstance(c, ast.Compare) and len(c.ops) == 1 and isinstance(c.ops[0], (ast.In, ast.NotIn))
            and isinstance(c.left, ast.Name) and c.left.id == k
            and isinstance(c.comparators[0], ast.Attribute) and c.comparators[0].attr == 'HISTORY_KEYS'
            and isinstance(c.comparators[0].value, ast.Name) and c.comparators[0].value.id == alias):
        raise TranslationError(REL, sel, 'expected `%s in %s.HISTORY_KEYS`' % (k, alias))

    def is_given(stmts):
        return (len(stmts) == 1 and isinstance(stmts[0], ast.Assign) and len(stmts[0].targets) == 1
                and isinstance(stmts[0].targets[0], ast.Name) and isinstance(stmts[0].value, ast.Name)
                and stmts[0].value.id == v)

    if is_given(sel.orelse) and not is_given(sel.body):
        parsed, given, parsed_is_body = sel.body, sel.orelse, True
    elif is_given(sel.body) and not is_given(sel.orelse):
        parsed, given, parsed_is_body = sel.orelse, sel.body, False
    else:
        raise TranslationError(REL, sel, 'expected one branch `out = %s` and one parsed branch' % v)
    out = given[0].targets[0].id
    member_positive = isinstance(c.ops[0], ast.In) == parsed_is_body
    if len(parsed) != 2 or not isinstance(parsed[0], ast.If) or parsed[0].orelse:
        raise TranslationError(REL, sel, 'parsed branch must be: filter; out = self._parse(k, v)')
    flt, asg = parsed
    if len(flt.body) != 1 or not isinstance(flt.body[0], ast.Continue):
        raise TranslationError(REL, flt, 'the filter must `continue`')
    ft = flt.test
    if not (isinstance(ft, ast.BoolOp) and isinstance(ft.op, ast.And) and len(ft.values) == 2):
        raise TranslationError(REL, flt, 'expected `<key test> and <flag>`')
    cmpn = [x for x in ft.values if isinstance(x, ast.Compare)]
    flg = [x for x in ft.values if not isinstance(x, ast.Compare)]
    if len(cmpn) != 1 or len(flg) != 1:
        raise TranslationError(REL, flt, 'expected one key comparison and one flag test')
    cm, fl = cmpn[0], flg[0]
    if not (len(cm.ops) == 1 and isinstance(cm.ops[0], (ast.NotEq, ast.Eq)) and isinstance(cm.left, ast.Name)
            and cm.left.id == k and isinstance(cm.comparators[0], ast.Constant) and isinstance(cm.comparators[0].value, str)):
        raise TranslationError(REL, cm, 'expected `%s != <literal>`' % k)
    if _is_self_attr(fl, 'store_best_only'):
        flag_pos = True
    elif isinstance(fl, ast.UnaryOp) and isinstance(fl.op, ast.Not) and _is_self_attr(fl.operand, 'store_best_only'):
        flag_pos = False
    else:
        raise TranslationError(REL, fl, 'expected `self.store_best_only`')
    items.append({'file': REL, 'line': flt.lineno, 'text': 'if %s: continue' % src_of(src, ft)})
    if not (isinstance(asg, ast.Assign) and len(asg.targets) == 1 and isinstance(asg.targets[0], ast.Name)
            and asg.targets[0].id == out and isinstance(asg.value, ast.Call) and _is_self_attr(asg.value.func, '_parse')
            and [getattr(x, 'id', None) for x in asg.value.args] == [k, v] and not asg.value.keywords):
        raise TranslationError(REL, asg, 'expected `%s = self._parse(%s, %s)`' % (out, k, v))
    # ---- create or append
    at = app.test
    if isinstance(at, ast.UnaryOp) and isinstance(at.op, ast.Not) and _call(at.operand, 'hasattr', 2):
        has, create, append = at.operand, app.body, app.orelse
    elif _call(at, 'hasattr', 2):
        has, create, append = at, app.orelse, app.body
    else:
        raise TranslationError(REL, app, 'expected a hasattr(self, %s) test' % k)
    if [getattr(x, 'id', None) for x in has.args] != ['self', k]:
        raise TranslationError(REL, app, 'expected hasattr(self, %s)' % k)
    ok_create = (len(create) == 1 and isinstance(create[0], ast.Expr) and _call(create[0].value, 'setattr', 3)
                 and [getattr(x, 'id', None) for x in create[0].value.args[:2]] == ['self', k]
                 and isinstance(create[0].value.args[2], ast.List) and len(create[0].value.args[2].elts) == 1
                 and isinstance(create[0].value.args[2].elts[0], ast.Name) and create[0].value.args[2].elts[0].id == out)
    if not ok_create:
        raise TranslationError(REL, app, 'expected setattr(self, %s, [%s])' % (k, out))
    ok_append = False
    if len(append) == 1 and isinstance(append[0], ast.Expr) and isinstance(append[0].value, ast.Call):
        ca = append[0].value
        ok_append = (isinstance(ca.func, ast.Attribute) and ca.func.attr == 'append' and _call(ca.func.value, 'getattr', 2)
                     and [getattr(x, 'id', None) for x in ca.func.value.args] == ['self', k]
                     and len(ca.args) == 1 and isinstance(ca.args[0], ast.Name) and ca.args[0].id == out and not ca.keywords)
    if not ok_append:
        raise TranslationError(REL, app, 'expected getattr(self, %s).append(%s)' % (k, out))
    return {'member_positive': member_positive, 'filter_key': cm.comparators[0].value,
            'filter_noteq': isinstance(cm.ops[0], ast.NotEq), 'flag_positive': flag_pos}


# ---------------------------------------------------------------------------------------------- get / save / load
LIBEXC = {'TypeError': 'LTypeError', 'SizeError': 'LSizeError', 'ValueError': 'LValueError',
          'ArgumentError': 'LArgumentError', 'BuildError': 'LBuildError'}
CMP = {ast.Eq: 'CEq', ast.NotEq: 'CNe', ast.Lt: 'CLt', ast.LtE: 'CLe', ast.Gt: 'CGt', ast.GtE: 'CGe'}
CMP_SWAP = {'CEq': 'CEq', 'CNe': 'CNe', 'CLt': 'CGt', 'CLe': 'CGe', 'CGt': 'CLt', 'CGe': 'CLe'}


def module_alias(tree, module, default=None):
    """name under which `import <module> as X` (or `from pkg import last`) makes the module visible"""
    pkg, _, last = module.rpartition('.')
    for n in tree.body:
        if isinstance(n, ast.Import):
            for a in n.names:
                if a.name == module and (a.asname or '.' not in module):
                    return a.asname or module
        if isinstance(n, ast.ImportFrom) and pkg and n.module == pkg and n.level == 0:
            for a in n.names:
                if a.name == last:
                    return a.asname or last
    if default is not None:
        return default
    raise TranslationError(REL, tree, 'import of %s not found' % module)


def _is_name(node, name):
    return isinstance(node, ast.Name) and node.id == name


def _mod_call(node, alias, fname):
    """alias.fname(...)"""
    return (isinstance(node, ast.Call) and isinstance(node.func, ast.Attribute) and node.func.attr == fname
            and _is_name(node.func.value, alias))


def _getattr_self(node, key):
    return _call(node, 'getattr', 2) and _is_name(node.args[0], 'self') and _is_name(node.args[1], key)


def _message(node, index, arr):
    """a string literal or an f-string over {len(index)} / {<arr>.ndim} -> list of mpart"""
    if isinstance(node, ast.Constant) and isinstance(node.value, str):
        return ['MStr %s' % coq_str(node.value)]
    if isinstance(node, ast.JoinedStr):
        out = []
        for v in node.values:
            if isinstance(v, ast.Constant) and isinstance(v.value, str):
                out.append('MStr %s' % coq_str(v.value))
            elif isinstance(v, ast.FormattedValue) and v.conversion == -1 and v.format_spec is None:
                if _call(v.value, 'len', 1) and _is_name(v.value.args[0], index):
                    out.append('MLenIndex')
                elif arr is not None and isinstance(v.value, ast.Attribute) and v.value.attr == 'ndim' and _is_name(v.value.value, arr):
                    out.append('MNdim')
                else:
                    raise TranslationError(REL, v, 'unrecognised value `%s` in the message' % ast.unparse(v.value))
            else:
                raise TranslationError(REL, v, 'unrecognised f-string piece')
        return out
    raise TranslationError(REL, node, 'the exception message must be a string literal or an f-string')


def _raise_lib(stmts, ealias, index, arr):
    """[raise <ealias>.<Class>(<message>)] -> (class, message parts)"""
    if len(stmts) != 1 or not isinstance(stmts[0], ast.Raise) or stmts[0].cause is not None:
        raise TranslationError(REL, stmts[0] if stmts else None, 'a guard must consist of a single `raise`')
    ex = stmts[0].exc
    if not (isinstance(ex, ast.Call) and isinstance(ex.func, ast.Attribute) and _is_name(ex.func.value, ealias)
            and len(ex.args) == 1 and not ex.keywords):
        raise TranslationError(REL, stmts[0], 'expected `raise %s.<Error>(<message>)`' % ealias)
    if ex.func.attr not in LIBEXC:
        raise TranslationError(REL, stmts[0], 'unknown library exception `%s`' % ex.func.attr)
    return LIBEXC[ex.func.attr], _message(ex.args[0], index, arr)


def _gterm(node, index, arr):
    """-> ('N', c) for <arr>.ndim + c, ('L', c) for len(index) + c   (Python ints: exact)"""
    def base(n):
        if _call(n, 'len', 1) and _is_name(n.args[0], index):
            return 'L'
        if isinstance(n, ast.Attribute) and n.attr == 'ndim' and _is_name(n.value, arr):
            return 'N'
        return None
    if base(node):
        return base(node), 0
    if isinstance(node, ast.BinOp) and isinstance(node.op, (ast.Sub, ast.Add)) and isinstance(node.right, ast.Constant) \
            and type(node.right.value) is int and base(node.left):
        return base(node.left), (node.right.value if isinstance(node.op, ast.Add) else -node.right.value)
    if isinstance(node, ast.BinOp) and isinstance(node.op, ast.Add) and isinstance(node.left, ast.Constant) \
            and type(node.left.value) is int and base(node.right):
        return base(node.right), node.left.value
    raise TranslationError(REL, node, 'unrecognised term `%s` in the size test' % ast.unparse(node))


def _asarray(node, npalias, key, want_object):
    """np.asarray(getattr(self, key)[, dtype=object])"""
    if not (_mod_call(node, npalias, 'asarray') and len(node.args) == 1 and _getattr_self(node.args[0], key)):
        return False
    if want_object:
        return len(node.keywords) == 1 and node.keywords[0].arg == 'dtype' and _is_name(node.keywords[0].value, 'object')
    return not node.keywords


def _assign_name(s):
    if isinstance(s, ast.Assign) and len(s.targets) == 1 and isinstance(s.targets[0], ast.Name):
        return s.targets[0].id
    return None


def get_descr(cls, tree, src, items):
    fn = find_func(cls, 'get')
    if fn is None or fn.decorator_list:
        raise TranslationError(REL, cls, 'History.get not found (or decorated)')
    _args(fn, ['self', 'key', 'index'], fn)
    key, index = 'key', 'index'
    ealias = module_alias(tree, 'opytimizer.utils.exception')
    npalias = module_alias(tree, 'numpy')
    body = body_wo_doc(fn)
    out = []
    arr = None          # the local currently holding the array
    stage = 0           # 0 nothing built, 1 array, 2 sliced, 3 stacked, 4 returned
    for s in body:
        if stage == 4:
            raise TranslationError(REL, s, 'statement after the return')
        if isinstance(s, ast.If):
            if s.orelse:
                raise TranslationError(REL, s, 'a guard must not have an else branch')
            t = s.test
            if isinstance(t, ast.UnaryOp) and isinstance(t.op, ast.Not) and _call(t.operand, 'isinstance', 2):
                a0, a1 = t.operand.args
                if not (_is_name(a0, index) and _is_name(a1, 'tuple')):
                    raise TranslationError(REL, s, 'expected `not isinstance(%s, tuple)`' % index)
                exc, msg = _raise_lib(s.body, ealias, index, arr)
                out.append('GGuardNotTuple %s [%s]' % (exc, '; '.join(msg)))
            elif isinstance(t, ast.Compare) and len(t.ops) == 1 and type(t.ops[0]) in CMP and stage == 1:
                (lk, lc), (rk, rc), op = _gterm(t.left, index, arr), _gterm(t.comparators[0], index, arr), CMP[type(t.ops[0])]
                if lk == 'L' and rk == 'N':      # canonical orientation: the array's term on the left
                    lk, lc, rk, rc, op = rk, rc, lk, lc, CMP_SWAP[op]
                if not (lk == 'N' and rk == 'L'):
                    raise TranslationError(REL, s, 'the size test must compare <array>.ndim with len(%s)' % index)
                # ndim + a OP len + b  <=>  ndim + (a - b) OP len   (integers)
                lt, rt = 'TNdim (%d)' % (lc - rc), 'TLenIndex'
                exc, msg = _raise_lib(s.body, ealias, index, arr)
                out.append('GGuardSize (%s) %s %s %s [%s]' % (lt, op, rt, exc, '; '.join(msg)))
            else:
                raise TranslationError(REL, s, 'unrecognised guard `%s`' % ast.unparse(t))
            items.append({'file': REL, 'line': s.lineno, 'text': 'if %s: %s' % (src_of(src, t), src_of(src, s.body[0]))})
        elif isinstance(s, ast.Try):
            if stage != 0 or s.orelse or s.finalbody or len(s.handlers) != 1 or len(s.body) != 1 or len(s.handlers[0].body) != 1:
                raise TranslationError(REL, s, 'expected try: <a> = np.asarray(...) except <E>: <a> = np.asarray(..., dtype=object)')
            h = s.handlers[0]
            v1, v2 = _assign_name(s.body[0]), _assign_name(h.body[0])
            if h.name is not None or not isinstance(h.type, ast.Name) or v1 is None or v1 != v2 or v1 in (key, index, 'self'):
                raise TranslationError(REL, s, 'unrecognised except clause / assignment targets')
            if not _asarray(s.body[0].value, npalias, key, False):
                raise TranslationError(REL, s.body[0], 'expected %s.asarray(getattr(self, %s))' % (npalias, key))
            fb = _asarray(h.body[0].value, npalias, key, True)
            if not fb and not _asarray(h.body[0].value, npalias, key, False):
                raise TranslationError(REL, h.body[0], 'expected %s.asarray(getattr(self, %s), dtype=object)' % (npalias, key))
            out.append('GAsArray %s %s' % (coq_str(h.type.id), coq_bool(fb)))
            items.append({'file': REL, 'line': s.lineno, 'text': 'try: %s except %s: %s' % (src_of(src, s.body[0]), h.type.id, src_of(src, h.body[0]))})
            arr, stage = v1, 1
        elif isinstance(s, (ast.Assign, ast.Return)):
            if isinstance(s, ast.Assign):
                tgt = _assign_name(s)
                if tgt is None or tgt in (key, index, 'self'):
                    raise TranslationError(REL, s, 'unrecognised assignment target')
            val = s.value
            if val is None:
                raise TranslationError(REL, s, 'bare return')
            emitted = False
            if stage == 1 and isinstance(val, ast.Subscript) and _is_name(val.value, arr):
                ops, cur = [], val.slice
                while isinstance(cur, ast.BinOp) and isinstance(cur.op, ast.Add):
                    ops.insert(0, cur.right)
                    cur = cur.left
                ops.insert(0, cur)
                parts = []
                for o in ops:
                    if _is_name(o, index):
                        parts.append('SIndex')
                    elif isinstance(o, ast.Tuple) and len(o.elts) == 1 and _call(o.elts[0], 'slice', 1) \
                            and isinstance(o.elts[0].args[0], ast.Constant) and o.elts[0].args[0].value is None:
                        parts.append('SAll')
                    else:
                        raise TranslationError(REL, o, 'unrecognised subscript operand `%s`' % ast.unparse(o))
                out.append('GSlice [%s]' % '; '.join(parts))
                stage, emitted = 2, True
            elif stage == 2 and isinstance(val, ast.Call) and isinstance(val.func, ast.Attribute) and _is_name(val.func.value, npalias) \
                    and len(val.args) == 1 and not val.keywords and _is_name(val.args[0], arr):
                out.append('GStack %s' % coq_str(val.func.attr))
                stage, emitted = 3, True
            elif stage == 3 and isinstance(s, ast.Return) and _is_name(val, arr):
                pass
            elif stage >= 1 and isinstance(s, ast.Assign) and _is_name(val, arr):
                pass                                     # <new local> = <current local>: a rename, nothing happens
            else:
                raise TranslationError(REL, s, 'unrecognised step `%s`' % ast.unparse(s))
            if emitted:
                items.append({'file': REL, 'line': s.lineno, 'text': src_of(src, s)})
            if isinstance(s, ast.Assign):
                arr = tgt
            else:
                if stage != 3:
                    raise TranslationError(REL, s, 'return before the result is stacked')
                out.append('GReturn')
                stage = 4
        else:
            raise TranslationError(REL, s, 'unrecognised statement `%s`' % ast.unparse(s).split('\n')[0])
    return out


def _with_open(fn, fname, items, src):
    """[with open(<fname>, <mode>) as f: body]  -> (mode, f, with-body, statements after the with)"""
    body = body_wo_doc(fn)
    if not body or not isinstance(body[0], ast.With) or len(body[0].items) != 1:
        raise TranslationError(REL, fn, 'expected `with open(%s, <mode>) as <f>:`' % fname)
    w = body[0]
    it = w.items[0]
    c = it.context_expr
    if not (_call(c, 'open', 2) and _is_name(c.args[0], fname) and isinstance(c.args[1], ast.Constant)
            and isinstance(c.args[1].value, str) and isinstance(it.optional_vars, ast.Name)):
        raise TranslationError(REL, w, 'expected `with open(%s, <mode>) as <f>:`' % fname)
    items.append({'file': REL, 'line': w.lineno, 'text': 'with %s as %s:' % (src_of(src, c), it.optional_vars.id)})
    return c.args[1].value, it.optional_vars.id, w.body, body[1:]


def _dict_of(node):
    """X.__dict__ or vars(X) -> X"""
    if isinstance(node, ast.Attribute) and node.attr == '__dict__' and isinstance(node.value, ast.Name):
        return node.value.id
    if _call(node, 'vars', 1) and isinstance(node.args[0], ast.Name):
        return node.args[0].id
    return None


def save_descr(cls, tree, src, items):
    fn = find_func(cls, 'save')
    if fn is None or fn.decorator_list:
        raise TranslationError(REL, cls, 'History.save not found (or decorated)')
    _args(fn, ['self', 'file_name'], fn)
    pk = module_alias(tree, 'pickle')
    mode, f, inner, after = _with_open(fn, 'file_name', items, src)
    if after or len(inner) != 1 or not isinstance(inner[0], ast.Expr):
        raise TranslationError(REL, fn, 'save must consist of one pickle.dump inside the with block')
    c = inner[0].value
    if not (_mod_call(c, pk, 'dump') and len(c.args) == 2 and not c.keywords and _is_name(c.args[0], 'self') and _is_name(c.args[1], f)):
        raise TranslationError(REL, inner[0], 'expected %s.dump(self, %s)' % (pk, f))
    items.append({'file': REL, 'line': inner[0].lineno, 'text': src_of(src, inner[0])})
    return ['IOOpen %s' % coq_str(mode), 'IOPickleDump OSelf']


def load_descr(cls, tree, src, items):
    fn = find_func(cls, 'load')
    if fn is None or fn.decorator_list:
        raise TranslationError(REL, cls, 'History.load not found (or decorated)')
    _args(fn, ['self', 'file_name'], fn)
    pk = module_alias(tree, 'pickle')
    mode, f, inner, after = _with_open(fn, 'file_name', items, src)
    out = ['IOOpen %s' % coq_str(mode)]
    loaded = None
    for s in list(inner) + list(after):      # the update may follow the with block: the file is only needed by pickle.load
        if loaded is None:
            v = _assign_name(s)
            if v is None or v in ('self', 'file_name', f) or not (_mod_call(s.value, pk, 'load') and len(s.value.args) == 1
                                                                   and not s.value.keywords and _is_name(s.value.args[0], f)):
                raise TranslationError(REL, s, 'expected <h> = %s.load(%s)' % (pk, f))
            if s in after:
                raise TranslationError(REL, s, 'pickle.load outside the with block')
            loaded = v
            out.append('IOPickleLoad')
        else:
            c = s.value if isinstance(s, ast.Expr) else None
            if not (isinstance(c, ast.Call) and isinstance(c.func, ast.Attribute) and c.func.attr == 'update'
                    and len(c.args) == 1 and not c.keywords):
                raise TranslationError(REL, s, 'expected <a>.__dict__.update(<b>.__dict__)')
            names = {'self': 'OSelf', loaded: 'OLoaded'}
            t, sc = _dict_of(c.func.value), _dict_of(c.args[0])
            if t not in names or sc not in names:
                raise TranslationError(REL, s, 'expected <a>.__dict__.update(<b>.__dict__) over self / %s' % loaded)
            out.append('IODictUpdate %s %s' % (names[t], names[sc]))
        items.append({'file': REL, 'line': s.lineno, 'text': src_of(src, s)})
    return out



def generate(repo):
    """-> (coq text, items, errors)."""
    items, errors = [], []
    out = [HEADER, 'From Coq Require Import ZArith List String.', 'From OV Require Import Base.FloatKey Model.History.',
           'Import ListNotations.', 'Open Scope string_scope.', '']
    try:
        keys = history_keys(repo, items)
        tree, src = parse(repo, REL)
        alias = constants_alias(tree)
        cls = find_class(tree, 'History')
        if cls is None:
            raise TranslationError(REL, tree, 'class History not found')
        for name in ('dump', '_parse'):
            if sum(1 for n in cls.body if isinstance(n, ast.FunctionDef) and n.name == name) != 1:
                raise TranslationError(REL, cls, 'History.%s must be defined exactly once' % name)
        clauses = parse_clauses(cls, src, items)
        d = dump_descr(cls, src, alias, items)
        out.append('Definition history_descr : hdescr := {|')
        out.append('  hd_history_keys := [%s];' % '; '.join(coq_str(k) for k in keys))
        out.append('  hd_member_positive := %s;' % coq_bool(d['member_positive']))
        out.append('  hd_filter_key := %s;' % coq_str(d['filter_key']))
        out.append('  hd_filter_noteq := %s;' % coq_bool(d['filter_noteq']))
        out.append('  hd_filter_flag_positive := %s;' % coq_bool(d['flag_positive']))
        out.append('  hd_clauses := [%s];' % '; '.join('(%s, %s)' % (coq_str(k), p) for k, p in clauses))
        out.append('  hd_else_as_given := true;')
        out.append('  hd_create_or_append := true |}.')
    except TranslationError as ex:
        errors.append({'item': 'history_descr', 'file': ex.file, 'line': ex.line, 'msg': ex.msg})
    except (KeyError, IndexError, AttributeError, SyntaxError, OSError) as ex:
        errors.append({'item': 'history_descr', 'file': REL, 'line': 0, 'msg': 'translator: %r' % ex})
    # get / save / load: new definitions after the (unchanged) clause table; each item fails on its own
    try:
        tree, src = parse(repo, REL)
        cls = find_class(tree, 'History')
    except (TranslationError, SyntaxError, OSError) as ex:
        tree = cls = None
        errors.append({'item': 'get_descr', 'file': REL, 'line': 0, 'msg': 'translator: %r' % ex})
    if cls is not None:
        for item, ty, f in (('get_descr', 'gdescr', get_descr), ('save_descr', 'list iostmt', save_descr),
                            ('load_descr', 'list iostmt', load_descr)):
            try:
                if sum(1 for n in cls.body if isinstance(n, ast.FunctionDef) and n.name == item.split('_')[0]) != 1:
                    raise TranslationError(REL, cls, 'History.%s must be defined exactly once' % item.split('_')[0])
                stmts = f(cls, tree, src, items)
                out.append('')
                out.append('Definition %s : %s :=\n  [ %s ].' % (item, ty, ';\n    '.join(stmts)))
            except TranslationError as ex:
                errors.append({'item': item, 'file': ex.file, 'line': ex.line, 'msg': ex.msg})
            except (KeyError, IndexError, AttributeError, TypeError) as ex:
                errors.append({'item': item, 'file': REL, 'line': 0, 'msg': 'translator: %r' % ex})
    return '\n'.join(out) + '\n', items, errors


if __name__ == '__main__':
    import sys
    text, items, errors = generate(sys.argv[1] if len(sys.argv) > 1 else '/repo')
    sys.stdout.write(text)
    for e in errors:
        sys.stderr.write('ERROR %(file)s:%(line)s: %(msg)s\n' % e)
