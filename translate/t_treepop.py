"""T-treepop: the population-level code of gp.py (GP._reproduction, GP._mutation, GP._crossover, GP._prune_nodes) and
the selection / creation part of TreeSpace.grow as data (Model/TreePopDescr.v : list pstmt / prune_d,
Model/TreeGrowDescr.v : list gstmt).  Pure `ast`, fail closed; emitted into Gen/TreeOps.v by t_treeops.generate.

Calls into g.tournament_selection, g.pairwise, np.argmax, self._prune_nodes, self._mutate, self._cross, space.grow are
opaque (the model's functions); what is captured is WHICH of them are called, on which slots/variables, in which
order, under which conditions, how many individuals are selected (the attribute p_reproduction / p_mutation /
p_crossover, the rounding to an even count) and which slot receives what.  Locals are numbered by first occurrence."""
import ast
from translate.common import TranslationError, parse, find_class, find_func, body_wo_doc, is_logger_call, normalise

GP_REL = 'opytimizer/optimizers/gp.py'
TREE_REL = 'opytimizer/spaces/tree.py'
WHICH = {'p_reproduction': 'WRep', 'p_mutation': 'WMut', 'p_crossover': 'WCross'}


def clean(stmts):
    return [x for x in stmts if not is_logger_call(x) and not isinstance(x, ast.Pass)]


def is_attr_of(node, obj, attr):
    return isinstance(node, ast.Attribute) and node.attr == attr and isinstance(node.value, ast.Name) and node.value.id == obj


class Pop:
    def __init__(self, rel, self_name, space_name):
        self.rel, self.me, self.sp = rel, self_name, space_name
        self.ix = {}

    def err(self, node, msg):
        raise TranslationError(self.rel, node, msg)

    def n(self, node):
        if not isinstance(node, ast.Name) or node.id in (self.me, self.sp):
            self.err(node, 'expected a local name')
        if node.id not in self.ix:
            self.ix[node.id] = len(self.ix)
        return self.ix[node.id]

    def known(self, node):
        if not isinstance(node, ast.Name) or node.id not in self.ix:
            self.err(node, 'use of an undefined local')
        return self.ix[node.id]

    def idx(self, node):
        if isinstance(node, ast.Name) and node.id in getattr(self, 'pair_alias', {}):
            return '(%s %d)' % self.pair_alias[node.id]
        if isinstance(node, ast.Name):
            return '(IVar %d)' % self.known(node)
        if isinstance(node, ast.Subscript) and isinstance(node.slice, ast.Constant) and type(node.slice.value) is int \
                and node.slice.value in (0, 1):
            return '(%s %d)' % ('IFst' if node.slice.value == 0 else 'ISnd', self.known(node.value))
        self.err(node, 'index is not a name or name[0] / name[1]')

    def slot(self, node, lst):
        """space.<lst>[index] -> index text"""
        if isinstance(node, ast.Subscript) and is_attr_of(node.value, self.sp, lst):
            return self.idx(node.slice)
        return None

    def strip(self, v):
        """int(...), np.asarray(...), np.array(...) around an argmax argument / result are identities here"""
        while isinstance(v, ast.Call) and len(v.args) == 1 and not v.keywords and (
                (isinstance(v.func, ast.Name) and v.func.id == 'int')
                or (isinstance(v.func, ast.Attribute) and v.func.attr in ('asarray', 'array'))):
            v = v.args[0]
        return v

    def call_on(self, v, obj, meth, nargs):
        return (isinstance(v, ast.Call) and not v.keywords and len(v.args) == nargs
                and isinstance(v.func, ast.Attribute) and v.func.attr == meth
                and (obj is None or (isinstance(v.func.value, ast.Name) and v.func.value.id == obj)))

    def cond(self, t):
        if isinstance(t, ast.BoolOp) and isinstance(t.op, ast.And):
            cs = [self.cond(x) for x in t.values]
            out = cs[-1]
            for c in reversed(cs[:-1]):
                out = '(PAnd %s %s)' % (c, out)
            return out
        if isinstance(t, ast.Compare) and len(t.ops) == 1:
            a, b, op = t.left, t.comparators[0], t.ops[0]
            if isinstance(op, ast.Gt) and isinstance(b, ast.Constant) and type(b.value) is int and b.value >= 0:
                return '(PGt %d %d)' % (self.known(a), b.value)
            if isinstance(op, ast.Lt) and isinstance(a, ast.Constant) and type(a.value) is int and a.value >= 0:
                return '(PGt %d %d)' % (self.known(b), a.value)
        self.err(t, 'condition is not `v > k` / a conjunction of such')

    def block(self, stmts):
        out = []
        for st in clean(stmts):
            out.append(self.stmt(st))
        return '[' + '; '.join(out) + ']'

    def stmt(self, st):
        if (isinstance(st, ast.For) and not st.orelse and isinstance(st.target, ast.Tuple) and len(st.target.elts) == 2
                and all(isinstance(e, ast.Name) for e in st.target.elts) and isinstance(st.iter, ast.Call)
                and (self.call_on(st.iter, None, 'pairwise', 1) or (isinstance(st.iter.func, ast.Name) and st.iter.func.id == 'pairwise'
                                                                     and len(st.iter.args) == 1))):
            # `for a, b in g.pairwise(l)` is `for s in g.pairwise(l)` with a = s[0], b = s[1] when every chunk is a pair, i.e. when the
            # length of l is even -- which the translator requires to have been established by the rounding statement before
            a, b = st.target.elts[0].id, st.target.elts[1].id
            if not getattr(self, 'evened', False):
                self.err(st, 'tuple-unpacking loop over pairwise() without the rounding of the count to an even number before it')
            if a == b or a in self.ix or b in self.ix or a in (self.me, self.sp) or b in (self.me, self.sp):
                self.err(st, 'the names of the unpacked pair are already in use')
            l = self.known(st.iter.args[0])
            pair = '<pair %s %s>' % (a, b)
            self.ix[pair] = len(self.ix)
            self.pair_alias = {a: ('IFst', self.ix[pair]), b: ('ISnd', self.ix[pair])}
            for n in ast.walk(st):
                if isinstance(n, ast.Name) and n.id in (a, b) and isinstance(n.ctx, ast.Store) and n not in st.target.elts:
                    self.err(n, 'a name of the unpacked pair is re-bound in the loop')
            text = 'PForPairs %d %d %s' % (self.ix[pair], l, self.block(st.body))
            self.pair_alias = {}
            return text
        if isinstance(st, ast.For) and not st.orelse and isinstance(st.target, ast.Name):
            it = st.iter
            if isinstance(it, ast.Name):
                l = self.known(it)
                s = self.n(st.target)
                return 'PFor %d %d %s' % (s, l, self.block(st.body))
            if self.call_on(it, None, 'pairwise', 1) or (isinstance(it, ast.Call) and isinstance(it.func, ast.Name)
                                                          and it.func.id == 'pairwise' and len(it.args) == 1):
                l = self.known(it.args[0])
                s = self.n(st.target)
                return 'PForPairs %d %d %s' % (s, l, self.block(st.body))
            self.err(st, 'loop is not over a local list or g.pairwise(list)')
        if isinstance(st, ast.If):
            t = st.test
            # if n % 2 != 0: n += 1
            if (isinstance(t, ast.Compare) and len(t.ops) == 1 and isinstance(t.left, ast.BinOp)
                    and isinstance(t.left.op, ast.Mod) and isinstance(t.left.right, ast.Constant) and t.left.right.value == 2
                    and isinstance(t.comparators[0], ast.Constant)
                    and ((isinstance(t.ops[0], ast.NotEq) and t.comparators[0].value == 0)
                         or (isinstance(t.ops[0], ast.Eq) and t.comparators[0].value == 1))):
                body = clean(st.body)
                v = self.known(t.left.left)
                ok = (len(body) == 1 and not st.orelse and isinstance(body[0], ast.AugAssign)
                      and isinstance(body[0].op, ast.Add) and isinstance(body[0].target, ast.Name)
                      and self.known(body[0].target) == v and isinstance(body[0].value, ast.Constant)
                      and body[0].value.value == 1 and type(body[0].value.value) is int)
                if not ok:
                    self.err(st, 'parity test that does not just add one')
                self.evened = True
                return 'PEvenUp %d' % v
            c = self.cond(t)
            return 'PIf %s %s %s' % (c, self.block(st.body), self.block(st.orelse))
        if isinstance(st, ast.Assign) and len(st.targets) == 1:
            return self.assign(st, st.targets[0], st.value)
        self.err(st, 'unsupported statement %s' % type(st).__name__)

    def assign(self, st, tg, v):
        # two slots at once: the crossover
        if isinstance(tg, ast.Tuple) and len(tg.elts) == 2:
            i, j = self.slot(tg.elts[0], 'trees'), self.slot(tg.elts[1], 'trees')
            if i and j and self.call_on(v, self.me, '_cross', 4):
                a, b = self.slot(v.args[0], 'trees'), self.slot(v.args[1], 'trees')
                if (a, b) != (i, j):
                    self.err(st, 'the offspring do not go to the slots of their parents')
                return 'PCross %s %s %d %d' % (i, j, self.known(v.args[2]), self.known(v.args[3]))
            self.err(st, 'unsupported tuple assignment')
        i = self.slot(tg, 'trees')
        if i:
            if self.call_on(v, 'copy', 'deepcopy', 1) and self.slot(v.args[0], 'trees'):
                return 'PCopyTree %s %s' % (i, self.slot(v.args[0], 'trees'))
            if self.call_on(v, self.me, '_mutate', 3) and isinstance(v.args[0], ast.Name) and v.args[0].id == self.sp:
                if self.slot(v.args[1], 'trees') != i:
                    self.err(st, 'the mutated tree does not go back to its own slot')
                return 'PMutate %s %d' % (i, self.known(v.args[2]))
            if self.call_on(v, self.sp, 'grow', 2) and is_attr_of(v.args[0], self.sp, 'min_depth') \
                    and is_attr_of(v.args[1], self.sp, 'max_depth'):
                return 'PGrowInto %s' % i
            self.err(st, 'unsupported value stored into space.trees[...]')
        i = self.slot(tg, 'agents')
        if i:
            if self.call_on(v, 'copy', 'deepcopy', 1) and self.slot(v.args[0], 'agents'):
                return 'PCopyAgent %s %s' % (i, self.slot(v.args[0], 'agents'))
            self.err(st, 'unsupported value stored into space.agents[...]')
        if isinstance(tg, ast.Subscript) and isinstance(tg.value, ast.Name):
            if not (isinstance(v, ast.Constant) and type(v.value) is int) and not (
                    isinstance(v, ast.UnaryOp) and isinstance(v.op, ast.USub) and isinstance(v.operand, ast.Constant)
                    and type(v.operand.value) is int):
                self.err(st, 'list element set to something that is not an int literal')
            k = v.value if isinstance(v, ast.Constant) else -v.operand.value
            f = self.known(tg.value)
            return 'PSetFit %d %s (%d)%%Z' % (f, self.idx(tg.slice), k)
        if not isinstance(tg, ast.Name):
            self.err(st, 'unsupported assignment target')
        # x = ...
        if isinstance(v, ast.ListComp):
            g = v.generators
            if (len(g) == 1 and not g[0].ifs and not g[0].is_async and isinstance(g[0].target, ast.Name)
                    and is_attr_of(g[0].iter, self.sp, 'agents') and is_attr_of(v.elt, g[0].target.id, 'fit')):
                return 'PFitness %d' % self.n(tg)
            self.err(st, 'comprehension is not [agent.fit for agent in space.agents]')
        if isinstance(v, ast.Call) and isinstance(v.func, ast.Name) and v.func.id == 'int' and len(v.args) == 1 \
                and isinstance(v.args[0], ast.BinOp) and isinstance(v.args[0].op, ast.Mult):
            a, b = v.args[0].left, v.args[0].right
            for x, y in ((a, b), (b, a)):
                if is_attr_of(x, self.sp, 'n_trees') and isinstance(y, ast.Attribute) and y.attr in WHICH \
                        and isinstance(y.value, ast.Name) and y.value.id == self.me:
                    return 'PCount %d %s' % (self.n(tg), WHICH[y.attr])
            self.err(st, 'count is not int(space.n_trees * self.p_<operator>)')
        if self.call_on(v, None, 'tournament_selection', 2):
            f, k = self.known(v.args[0]), self.known(v.args[1])
            return 'PTournament %d %d %d' % (self.n(tg), f, k)
        w = self.strip(v)
        if self.call_on(w, None, 'argmax', 1):
            f = self.known(self.strip(w.args[0]))
            return 'PArgmax %d %d' % (self.n(tg), f)
        if isinstance(v, ast.Attribute) and v.attr == 'n_nodes' and self.slot(v.value, 'trees'):
            i = self.slot(v.value, 'trees')
            return 'PNNodes %d %s' % (self.n(tg), i)
        if self.call_on(v, self.me, '_prune_nodes', 1):
            s = self.known(v.args[0])
            return 'PPrune %d %d' % (self.n(tg), s)
        self.err(st, 'unsupported right-hand side')


def pop_method(repo, meth):
    tree, src = parse(repo, GP_REL)
    normalise(tree)
    c = find_class(tree, 'GP')
    fn = find_func(c, meth) if c is not None else None
    if fn is None:
        raise TranslationError(GP_REL, None, 'GP.%s not found' % meth)
    ps = [a.arg for a in fn.args.args]
    if len(ps) != 2 or fn.args.vararg or fn.args.kwarg or fn.args.defaults:
        raise TranslationError(GP_REL, fn, '%s does not take (self, space)' % meth)
    p = Pop(GP_REL, ps[0], ps[1])
    text = p.block(body_wo_doc(fn))
    for n in ast.walk(fn):
        if isinstance(n, ast.Return) and n.value is not None:
            raise TranslationError(GP_REL, n, '%s returns a value' % meth)
    return text, fn.lineno


# ---------------------------------------------------------------------------- GP._prune_nodes

def prune_descr(repo):
    tree, src = parse(repo, GP_REL)
    c = find_class(tree, 'GP')
    fn = find_func(c, '_prune_nodes') if c is not None else None
    if fn is None:
        raise TranslationError(GP_REL, None, 'GP._prune_nodes not found')
    ps = [a.arg for a in fn.args.args]
    if len(ps) != 2:
        raise TranslationError(GP_REL, fn, '_prune_nodes does not take (self, n_nodes)')
    me, nn = ps
    body = clean(body_wo_doc(fn))

    def err(node, msg):
        raise TranslationError(GP_REL, node, msg)

    def is_amount(v):
        """int(n_nodes * (1 - self.prunning_ratio)) in either order of the product"""
        if not (isinstance(v, ast.Call) and isinstance(v.func, ast.Name) and v.func.id == 'int' and len(v.args) == 1
                and not v.keywords and isinstance(v.args[0], ast.BinOp) and isinstance(v.args[0].op, ast.Mult)):
            return False
        for x, y in ((v.args[0].left, v.args[0].right), (v.args[0].right, v.args[0].left)):
            if (isinstance(x, ast.Name) and x.id == nn and isinstance(y, ast.BinOp) and isinstance(y.op, ast.Sub)
                    and isinstance(y.left, ast.Constant) and y.left.value == 1 and type(y.left.value) is int
                    and is_attr_of(y.right, me, 'prunning_ratio')):
                return True
        return False

    def const(v):
        return v.value if isinstance(v, ast.Constant) and type(v.value) is int and v.value >= 0 else None

    var = None
    if body and isinstance(body[0], ast.Assign) and len(body[0].targets) == 1 and isinstance(body[0].targets[0], ast.Name) \
            and is_amount(body[0].value):
        var = body[0].targets[0].id
        body = body[1:]

    def amount(v):
        return (var is not None and isinstance(v, ast.Name) and v.id == var) or (var is None and is_amount(v))

    def as_max(v):
        if isinstance(v, ast.Call) and isinstance(v.func, ast.Name) and v.func.id == 'max' and len(v.args) == 2 and not v.keywords:
            for x, y in ((v.args[0], v.args[1]), (v.args[1], v.args[0])):
                if amount(x) and const(y) is not None:
                    return const(y)
        return None
    if len(body) == 1 and isinstance(body[0], ast.Return) and as_max(body[0].value) is not None:
        return '(PruneClampLow %d)' % as_max(body[0].value), fn.lineno
    if (len(body) == 2 and isinstance(body[0], ast.If) and not body[0].orelse and isinstance(body[1], ast.Return)
            and amount(body[1].value)):
        t, th = body[0].test, clean(body[0].body)
        if (isinstance(t, ast.Compare) and len(t.ops) == 1 and amount(t.left) and const(t.comparators[0]) is not None
                and isinstance(t.ops[0], (ast.LtE, ast.Lt)) and len(th) == 1 and isinstance(th[0], ast.Return)
                and const(th[0].value) == const(t.comparators[0])):
            return '(PruneClampLow %d)' % const(th[0].value), fn.lineno
    err(fn, '_prune_nodes is not int(n_nodes * (1 - self.prunning_ratio)) clamped from below by a literal')


# ---------------------------------------------------------------------------- selection / creation part of grow

class Grow:
    def __init__(self, me, pmin, pmax):
        self.me, self.pmin, self.pmax = me, pmin, pmax
        self.ix = {}

    def err(self, node, msg):
        raise TranslationError(TREE_REL, node, msg)

    def var(self, name):
        if name not in self.ix:
            self.ix[name] = len(self.ix)
        return self.ix[name]

    def expr(self, v, lets):
        if is_attr_of(v, self.me, 'n_terminals'):
            return 'GNT'
        if isinstance(v, ast.Call) and isinstance(v.func, ast.Name) and v.func.id == 'len' and len(v.args) == 1 \
                and is_attr_of(v.args[0], self.me, 'functions'):
            return 'GNF'
        if isinstance(v, ast.Name):
            if v.id in lets:
                if lets[v.id][0] != 'e':
                    self.err(v, '%s is not a number' % v.id)
                return lets[v.id][1]
            if v.id in self.ix:
                return '(GVar %d)' % self.ix[v.id]
            self.err(v, 'unknown name %s' % v.id)
        if isinstance(v, ast.BinOp) and isinstance(v.op, (ast.Add, ast.Sub)):
            return '(%s %s %s)' % ('GAdd' if isinstance(v.op, ast.Add) else 'GSub', self.expr(v.left, lets), self.expr(v.right, lets))
        self.err(v, 'unsupported expression')

    def fname(self, v, lets):
        """self.functions[e] (possibly through a local) -> e"""
        if isinstance(v, ast.Name) and v.id in lets and lets[v.id][0] == 'f':
            return lets[v.id][1]
        if isinstance(v, ast.Subscript) and is_attr_of(v.value, self.me, 'functions'):
            return self.expr(v.slice, lets)
        return None

    def node_call(self, v):
        if not (isinstance(v, ast.Call) and isinstance(v.func, ast.Name) and v.func.id == 'Node'):
            return None
        names = ['name', 'type', 'value']
        kw = dict(zip(names, v.args))
        for k in v.keywords:
            if k.arg is None or k.arg in kw or k.arg not in names + ['left', 'right', 'parent']:
                return None
            kw[k.arg] = k.value
        return kw

    def block(self, stmts, lets, link):
        out = []
        lets = dict(lets)
        for st in clean(stmts):
            if isinstance(st, ast.Expr) and isinstance(st.value, ast.Call) and not st.value.args and not st.value.keywords \
                    and is_attr_of(st.value.func, self.me, '_initialize_terminals'):
                out.append('GInit')
            elif isinstance(st, ast.If):
                t = st.test
                if not (isinstance(t, ast.Compare) and len(t.ops) == 1):
                    self.err(st, 'unsupported condition')
                a, b, op = t.left, t.comparators[0], t.ops[0]
                names = sorted(x.id for x in (a, b) if isinstance(x, ast.Name))
                if isinstance(op, ast.Eq) and names == sorted([self.pmin, self.pmax]):
                    out.append('GIfEqDepth %s %s' % (self.block(st.body, lets, link), self.block(st.orelse, lets, link)))
                elif isinstance(op, (ast.GtE, ast.LtE, ast.Lt, ast.Gt)):
                    ea, eb = self.expr(a, lets), self.expr(b, lets)
                    th, el = self.block(st.body, lets, link), self.block(st.orelse, lets, link)
                    if isinstance(op, ast.LtE):
                        ea, eb = eb, ea
                    elif isinstance(op, ast.Lt):          # a < b  ==  not (a >= b)
                        th, el = el, th
                    elif isinstance(op, ast.Gt):          # a > b  ==  not (b >= a)
                        ea, eb, th, el = eb, ea, el, th
                    out.append('GIfGe %s %s %s %s' % (ea, eb, th, el))
                else:
                    self.err(st, 'unsupported condition')
            elif isinstance(st, ast.Assign) and len(st.targets) == 1 and isinstance(st.targets[0], ast.Name):
                name, v = st.targets[0].id, st.value
                kw = self.node_call(v)
                if (isinstance(v, ast.Call) and isinstance(v.func, ast.Name) and v.func.id == 'int' and len(v.args) == 1
                        and isinstance(v.args[0], ast.Subscript)):
                    sub = v.args[0]
                    call = sub.value
                    ok = (isinstance(sub.slice, ast.Constant) and sub.slice.value == 0 and isinstance(call, ast.Call)
                          and not call.keywords and len(call.args) == 2 and isinstance(call.func, ast.Attribute)
                          and call.func.attr == 'generate_uniform_random_number'
                          and isinstance(call.args[0], ast.Constant) and type(call.args[0].value) is int)
                    if not ok:
                        self.err(st, 'draw is not int(<mod>.generate_uniform_random_number(K, high)[0])')
                    hi = self.expr(call.args[1], lets)
                    lets.pop(name, None)
                    out.append('GDraw %d %d %s' % (self.var(name), call.args[0].value, hi))
                elif kw is not None:
                    e = self.fname(kw.get('name'), lets) if 'name' in kw else None
                    ty = kw.get('type')
                    if e is None or not (isinstance(ty, ast.Constant) and ty.value == 'FUNCTION') or set(kw) != {'name', 'type'}:
                        self.err(st, 'a bound Node(...) is not Node(name=self.functions[e], type=\'FUNCTION\')')
                    lets.pop(name, None)
                    out.append('GNewFun %d %s' % (self.var(name), e))
                else:
                    f = self.fname(v, lets)
                    lets[name] = ('f', f) if f is not None else ('e', self.expr(v, lets))
            elif isinstance(st, ast.For):
                it = st.iter
                ar = it.args[0] if (isinstance(it, ast.Call) and isinstance(it.func, ast.Name) and it.func.id == 'range'
                                     and len(it.args) == 1) else None
                e = None
                if isinstance(ar, ast.Subscript) and isinstance(ar.value, ast.Attribute) and ar.value.attr == 'N_ARGS_FUNCTION':
                    e = self.fname(ar.slice, lets)
                if e is None:
                    self.err(st, 'loop is not `for i in range(c.N_ARGS_FUNCTION[self.functions[e]])`')
                if link['fnode'] not in self.ix:
                    self.err(st, 'the node linked in the loop is not the function node created before it')
                out.append('GLoop %d %s grow_link_src' % (self.ix[link['fnode']], e))
            elif isinstance(st, ast.Return):
                v = st.value
                kw = self.node_call(v)
                if kw is not None:
                    ty, val = kw.get('type'), kw.get('value')
                    e = self.expr(kw['name'], lets) if 'name' in kw else None
                    ok = (e is not None and set(kw) == {'name', 'type', 'value'} and isinstance(ty, ast.Constant)
                          and ty.value == 'TERMINAL' and isinstance(val, ast.Attribute) and val.attr == 'position'
                          and isinstance(val.value, ast.Subscript) and is_attr_of(val.value.value, self.me, 'terminals')
                          and self.expr(val.value.slice, lets) == e)
                    if not ok:
                        self.err(st, 'returned Node(...) is not the terminal Node(name=e, type=\'TERMINAL\', value=self.terminals[e].position)')
                    out.append('GRetTerminal %s' % e)
                elif isinstance(v, ast.Name) and v.id in self.ix and v.id not in lets:
                    out.append('GRetVar %d' % self.ix[v.id])
                else:
                    self.err(st, 'unsupported return')
            else:
                self.err(st, 'unsupported statement %s' % type(st).__name__)
        return '[' + '; '.join(out) + ']'


def grow_descr(repo, link_info):
    tree, src = parse(repo, TREE_REL)
    c = find_class(tree, 'TreeSpace')
    fn = find_func(c, 'grow') if c is not None else None
    if fn is None:
        raise TranslationError(TREE_REL, None, 'TreeSpace.grow not found')
    ps = [a.arg for a in fn.args.args]
    if len(ps) != 3:
        raise TranslationError(TREE_REL, fn, 'grow does not take (self, min_depth, max_depth)')
    g = Grow(*ps)
    return g.block(body_wo_doc(fn), {}, link_info), fn.lineno
