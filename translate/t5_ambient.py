"""T5: ambient-state audit of the whole library (C05), pure `ast`, fail-closed in the sense that every finding is reported.

For every function of every module under opytimizer/ (visualization and logging excluded) it reports
  * `global` / `nonlocal` statements;
  * stores into module-level state from inside a function: assignment / augmented assignment / deletion whose target is
    rooted at a module-level name or an imported module alias (`c.TOURNAMENT_SIZE = ...`, `_CACHE[k] = v`), and calls of
    mutating container methods on such names (`_CACHE.append(...)`, `.update`, `.setdefault`, ...);
  * reads of ambient sources: set()/frozenset()/set literals and comprehensions (iteration order depends on the per-process
    string-hash salt), hash(), id(), stdlib random / secrets / uuid / time / datetime / os.environ / os.getpid / os.urandom,
    private NumPy generators (np.random.default_rng / RandomState / Generator / SeedSequence);
  * stores through `self.hyperparams[...]` (the constructor's dictionary, possibly the shared mutable default).
  * state that outlives a call without a visible store: memoising decorators (`lru_cache`, `cache`, ...), mutable class attributes,
    process-wide setters (`np.seterr`, `warnings.filterwarnings`, `sys.setrecursionlimit`, ...).
The two `time.time()` reads of Opytimizer.start are whitelisted (their flow is checked by translate/t2_start.py)."""
import ast
import os
from .common import parse

SKIP = ('opytimizer/visualization/', 'opytimizer/utils/logging.py')
MUTATORS = {'append', 'extend', 'insert', 'remove', 'pop', 'clear', 'update', 'setdefault', 'add', 'discard', 'popitem', 'sort', 'reverse',
            '__setitem__', '__delitem__'}
AMBIENT_MODULES = {'random', 'secrets', 'uuid', 'time', 'datetime', 'os', 'sys', 'threading', 'multiprocessing', 'socket', 'getpass', 'platform'}
AMBIENT_OK_ATTRS = {('sys', 'float_info'), ('os', 'path')}
PROCESS_STATE_SETTERS = {'seterr', 'seterrcall', 'set_printoptions', 'setbufsize', 'set_string_function', 'filterwarnings', 'simplefilter',
                         'setrecursionlimit', 'setswitchinterval', 'set_state', 'setlocale', 'basicConfig', 'setdefault_rng'}
NP_PRIVATE = {'default_rng', 'RandomState', 'Generator', 'SeedSequence', 'PCG64', 'MT19937', 'get_state', 'set_state', 'seed'}


def root_name(node):
    while isinstance(node, (ast.Attribute, ast.Subscript)):
        node = node.value
    return node.id if isinstance(node, ast.Name) else None


def audit_module(repo, rel):
    tree, src = parse(repo, rel)
    out = []
    mod_names = set()
    mod_aliases = {}           # alias -> imported module path
    for n in tree.body:
        if isinstance(n, (ast.Import, ast.ImportFrom)):
            for a in n.names:
                name = a.asname or a.name.split('.')[0]
                mod_aliases[name] = (n.module + '.' if isinstance(n, ast.ImportFrom) and n.module else '') + a.name
        elif isinstance(n, ast.Assign):
            for t in n.targets:
                for x in ast.walk(t):
                    if isinstance(x, ast.Name):
                        mod_names.add(x.id)
        elif isinstance(n, (ast.FunctionDef, ast.ClassDef)):
            mod_names.add(n.name)

    def fn_locals(fn):
        loc = {a.arg for a in fn.args.args + fn.args.kwonlyargs}
        if fn.args.vararg:
            loc.add(fn.args.vararg.arg)
        if fn.args.kwarg:
            loc.add(fn.args.kwarg.arg)
        for x in ast.walk(fn):
            if isinstance(x, ast.Name) and isinstance(x.ctx, ast.Store):
                loc.add(x.id)
            elif isinstance(x, (ast.For, ast.comprehension)):
                for y in ast.walk(x.target):
                    if isinstance(y, ast.Name):
                        loc.add(y.id)
        return loc

    def rep(node, what):
        out.append({'file': rel, 'line': getattr(node, 'lineno', 0), 'what': what,
                    'text': ' '.join((ast.get_source_segment(src, node) or '').split())[:100]})

    # state that outlives a call although no statement "stores" into it
    for cls in ast.walk(tree):
        if isinstance(cls, ast.ClassDef):
            for st in cls.body:
                tg = st.targets if isinstance(st, ast.Assign) else ([st.target] if isinstance(st, ast.AnnAssign) and st.value is not None else [])
                val = getattr(st, 'value', None)
                if tg and isinstance(val, (ast.List, ast.Dict, ast.Set, ast.ListComp, ast.DictComp, ast.SetComp)) or \
                        (tg and isinstance(val, ast.Call) and isinstance(val.func, (ast.Name, ast.Attribute))
                         and (val.func.id if isinstance(val.func, ast.Name) else val.func.attr) in ('list', 'dict', 'set', 'defaultdict', 'OrderedDict', 'deque', 'zeros', 'ones', 'empty', 'array')):
                    rep(st, 'mutable class attribute of %s (one object shared by every instance and every task of the process)' % cls.name)
    for fn in ast.walk(tree):
        if isinstance(fn, (ast.FunctionDef, ast.AsyncFunctionDef)):
            for dec in fn.decorator_list:
                d = dec.func if isinstance(dec, ast.Call) else dec
                name = d.id if isinstance(d, ast.Name) else (d.attr if isinstance(d, ast.Attribute) else '')
                if 'cache' in name.lower() or name in ('memoize', 'memoized', 'singledispatch'):
                    rep(dec, 'memoising decorator @%s on %s (results, possibly mutable arrays, persist across calls and tasks)' % (name, fn.name))
    for fn in ast.walk(tree):
        if not isinstance(fn, (ast.FunctionDef, ast.AsyncFunctionDef, ast.Lambda)):
            continue
        if isinstance(fn, ast.Lambda):
            continue
        loc = fn_locals(fn)
        glob_decl = set()
        for x in ast.walk(fn):
            if isinstance(x, (ast.Global, ast.Nonlocal)):
                rep(x, '%s statement' % type(x).__name__.lower())
                glob_decl |= set(x.names)
        # locals bound directly (no call in between) to module-level state: `params = DEFAULTS`, `row = _TABLE[k]`, `t = c.SOMETHING`
        # are other names of that state -- a store or mutating call through them writes it
        aliases = {}
        for x in ast.walk(fn):
            if isinstance(x, ast.Assign) and len(x.targets) == 1 and isinstance(x.targets[0], ast.Name) \
                    and isinstance(x.value, (ast.Name, ast.Attribute, ast.Subscript)):
                rn = root_name(x.value)
                if rn is not None and rn != 'self' and (rn in mod_aliases or rn in mod_names) and rn not in loc:
                    aliases[x.targets[0].id] = rn
        for x in ast.walk(fn):
            if aliases:
                tg = x.targets if isinstance(x, (ast.Assign, ast.Delete)) else ([x.target] if isinstance(x, (ast.AugAssign, ast.AnnAssign)) else [])
                for t in tg:
                    for tt in (t.elts if isinstance(t, (ast.Tuple, ast.List)) else [t]):
                        if not isinstance(tt, ast.Name) and root_name(tt) in aliases:
                            rep(x, 'store into module-level state rooted at `%s` through the local alias `%s`' % (aliases[root_name(tt)], root_name(tt)))
                if isinstance(x, ast.Call) and isinstance(x.func, ast.Attribute) and x.func.attr in MUTATORS and root_name(x.func.value) in aliases:
                    rn = root_name(x.func.value)
                    rep(x, 'mutating call on module-level state rooted at `%s` through the local alias `%s`' % (aliases[rn], rn))
        for x in ast.walk(fn):
            targets = []
            if isinstance(x, ast.Assign):
                targets = x.targets
            elif isinstance(x, (ast.AugAssign, ast.AnnAssign)):
                targets = [x.target]
            elif isinstance(x, ast.Delete):
                targets = x.targets
            for t in targets:
                for tt in (t.elts if isinstance(t, (ast.Tuple, ast.List)) else [t]):
                    rn = root_name(tt)
                    if rn is None:
                        continue
                    if isinstance(tt, ast.Name):
                        if rn in glob_decl:
                            rep(x, 'store into module-level name `%s`' % rn)
                        continue
                    if (rn in mod_aliases or rn in mod_names or rn in glob_decl) and rn not in loc - glob_decl:
                        rep(x, 'store into module-level state rooted at `%s`' % rn)
                    if rn == 'self' and isinstance(tt, ast.Subscript) and isinstance(tt.value, ast.Attribute) and tt.value.attr == 'hyperparams':
                        rep(x, 'store into self.hyperparams (the constructor\'s dictionary, possibly a shared default)')
            if isinstance(x, ast.Call):
                f = x.func
                if isinstance(f, ast.Attribute) and f.attr in MUTATORS:
                    rn = root_name(f.value)
                    if rn is not None and (rn in mod_aliases or rn in mod_names) and rn not in loc and rn != 'self':
                        rep(x, 'mutating call on module-level state rooted at `%s`' % rn)
                    if rn == 'self' and isinstance(f.value, ast.Attribute) and f.value.attr == 'hyperparams':
                        rep(x, 'mutating call on self.hyperparams')
                if isinstance(f, ast.Name) and f.id in ('set', 'frozenset', 'hash', 'id', 'globals', 'vars', 'input', 'open', 'exec', 'eval') \
                        and f.id not in loc:
                    rep(x, 'ambient builtin %s()' % f.id)
                if isinstance(f, ast.Attribute) and f.attr in PROCESS_STATE_SETTERS:
                    rep(x, 'process-wide setting changed by %s() (leaks into every later task of the process)' % f.attr)
                if isinstance(f, ast.Attribute):
                    rn = root_name(f)
                    target = mod_aliases.get(rn, '')
                    top = target.split('.')[0]
                    if rn not in loc and top in AMBIENT_MODULES and (top, f.attr) not in AMBIENT_OK_ATTRS:
                        if not (rel == 'opytimizer/opytimizer.py' and top == 'time' and f.attr == 'time'):
                            rep(x, 'call into ambient module %s.%s' % (target, f.attr))
                    if f.attr in NP_PRIVATE and isinstance(f.value, ast.Attribute) and f.value.attr == 'random':
                        rep(x, 'private / reseeded NumPy generator np.random.%s' % f.attr)
            if isinstance(x, (ast.Set, ast.SetComp)):
                rep(x, 'set literal / comprehension (unordered iteration)')
            if isinstance(x, ast.Attribute) and isinstance(x.value, ast.Name) and x.value.id not in loc:
                target = mod_aliases.get(x.value.id, '')
                if target == 'os' and x.attr in ('environ', 'getpid', 'urandom', 'times'):
                    rep(x, 'ambient os.%s' % x.attr)
        # mutable default arguments that the function mutates
        for a, d in zip(fn.args.args[len(fn.args.args) - len(fn.args.defaults):], fn.args.defaults):
            if isinstance(d, (ast.Dict, ast.List, ast.Set)):
                for x in ast.walk(fn):
                    if isinstance(x, (ast.Assign, ast.AugAssign)):
                        for t in (x.targets if isinstance(x, ast.Assign) else [x.target]):
                            if isinstance(t, ast.Subscript) and root_name(t) == a.arg:
                                rep(x, 'store into the mutable default argument `%s`' % a.arg)
                    if isinstance(x, ast.Call) and isinstance(x.func, ast.Attribute) and x.func.attr in MUTATORS and root_name(x.func.value) == a.arg:
                        rep(x, 'mutating call on the mutable default argument `%s`' % a.arg)
    return out


def audit(repo):
    findings = []
    files = []
    root = os.path.join(repo, 'opytimizer')
    for d, _, fs in sorted(os.walk(root)):
        for f in sorted(fs):
            if f.endswith('.py'):
                rel = os.path.relpath(os.path.join(d, f), repo)
                if any(rel.startswith(s) or rel == s for s in SKIP):
                    continue
                files.append(rel)
                findings += audit_module(repo, rel)
    return files, findings


if __name__ == '__main__':
    import sys
    fl, fd = audit(sys.argv[1] if len(sys.argv) > 1 else '/repo')
    print(len(fl), 'modules')
    for x in fd:
        print('%s:%s: %s -- %s' % (x['file'], x['line'], x['what'], x['text']))
