(* A small deep-embedded language of real expressions with a GUARDED denotation.
   Used by C10 (operator table of node._evaluate) and C13 (hypercomplex.span); the terms are
   regenerated from /repo by translate/t3_expr.py on every check.

   [den e env : option R] is [None] wherever the real function is undefined: division by zero,
   logarithm of a non-positive number, square root of a negative number.  Coq's totalised
   [x / 0 = 0], [ln 0 = 0], [sqrt (-1) = 0] therefore never make a theorem true for the wrong
   reason: [den_spec] splits [den] into the explicit side condition [dom] and the value [val]. *)
From Coq Require Import Reals List ZArith Bool Lra.
Import ListNotations.
Open Scope R_scope.

Inductive rexpr :=
| EVar (i : nat)
| ECst (n : Z) (d : positive)              (* the exact rational n/d *)
| EAdd (a b : rexpr) | ESub (a b : rexpr) | EMul (a b : rexpr) | EDiv (a b : rexpr)
| ENeg (a : rexpr)
| EPow (a : rexpr) (n : nat)
| EExp (a : rexpr) | ESqrt (a : rexpr) | ELn (a : rexpr) | EAbs (a : rexpr)
| ESin (a : rexpr) | ECos (a : rexpr).

Definition cst (n : Z) (d : positive) : R := IZR n / IZR (Zpos d).

(* value, with Coq's total functions -- meaningful only together with [dom] *)
Fixpoint val (e : rexpr) (env : nat -> R) : R :=
  match e with
  | EVar i => env i
  | ECst n d => cst n d
  | EAdd a b => val a env + val b env
  | ESub a b => val a env - val b env
  | EMul a b => val a env * val b env
  | EDiv a b => val a env / val b env
  | ENeg a => - val a env
  | EPow a n => val a env ^ n
  | EExp a => exp (val a env)
  | ESqrt a => sqrt (val a env)
  | ELn a => ln (val a env)
  | EAbs a => Rabs (val a env)
  | ESin a => sin (val a env)
  | ECos a => cos (val a env)
  end.

(* definedness side condition: every divisor is non-zero, every logarithm argument positive,
   every square-root argument non-negative *)
Fixpoint dom (e : rexpr) (env : nat -> R) : Prop :=
  match e with
  | EVar _ | ECst _ _ => True
  | EAdd a b | ESub a b | EMul a b => dom a env /\ dom b env
  | EDiv a b => dom a env /\ dom b env /\ val b env <> 0
  | ENeg a | EPow a _ | EExp a | EAbs a | ESin a | ECos a => dom a env
  | ESqrt a => dom a env /\ 0 <= val a env
  | ELn a => dom a env /\ 0 < val a env
  end.

Definition bind2 (x y : option R) (f : R -> R -> option R) : option R :=
  match x, y with Some u, Some v => f u v | _, _ => None end.
Definition bind1 (x : option R) (f : R -> option R) : option R :=
  match x with Some u => f u | None => None end.

Fixpoint den (e : rexpr) (env : nat -> R) : option R :=
  match e with
  | EVar i => Some (env i)
  | ECst n d => Some (cst n d)
  | EAdd a b => bind2 (den a env) (den b env) (fun u v => Some (u + v))
  | ESub a b => bind2 (den a env) (den b env) (fun u v => Some (u - v))
  | EMul a b => bind2 (den a env) (den b env) (fun u v => Some (u * v))
  | EDiv a b => bind2 (den a env) (den b env) (fun u v => if Req_EM_T v 0 then None else Some (u / v))
  | ENeg a => bind1 (den a env) (fun u => Some (- u))
  | EPow a n => bind1 (den a env) (fun u => Some (u ^ n))
  | EExp a => bind1 (den a env) (fun u => Some (exp u))
  | ESqrt a => bind1 (den a env) (fun u => if Rle_dec 0 u then Some (sqrt u) else None)
  | ELn a => bind1 (den a env) (fun u => if Rlt_dec 0 u then Some (ln u) else None)
  | EAbs a => bind1 (den a env) (fun u => Some (Rabs u))
  | ESin a => bind1 (den a env) (fun u => Some (sin u))
  | ECos a => bind1 (den a env) (fun u => Some (cos u))
  end.

Lemma den_of_dom e env : dom e env -> den e env = Some (val e env).
Proof.
  induction e; simpl; intros D; try reflexivity.
  all: try (destruct D as [D1 D2]; try (destruct D2 as [D2 D3]);
            rewrite (IHe1 D1), (IHe2 D2); simpl; try reflexivity).
  all: try (rewrite (IHe D); simpl; reflexivity).
  - destruct (Req_EM_T (val e2 env) 0); [contradiction | reflexivity].
  - destruct D as [D1 D2]. rewrite (IHe D1). simpl. destruct (Rle_dec 0 (val e env)); [reflexivity | contradiction].
  - destruct D as [D1 D2]. rewrite (IHe D1). simpl. destruct (Rlt_dec 0 (val e env)); [reflexivity | contradiction].
Qed.

Lemma dom_of_den e env v : den e env = Some v -> dom e env /\ val e env = v.
Proof.
  revert v. induction e; simpl; intros v H.
  1,2: injection H as <-; auto.
  1-4: destruct (den e1 env) as [u1|]; [|discriminate]; destruct (den e2 env) as [u2|]; [|discriminate];
       destruct (IHe1 _ eq_refl) as [D1 V1]; destruct (IHe2 _ eq_refl) as [D2 V2]; simpl in H.
  1-3: injection H as <-; subst; auto.
  - destruct (Req_EM_T u2 0); [discriminate|]. injection H as <-. subst. auto.
  - destruct (den e env) as [u|]; [|discriminate]. destruct (IHe _ eq_refl) as [D V]. injection H as <-. subst; auto.
  - destruct (den e env) as [u|]; [|discriminate]. destruct (IHe _ eq_refl) as [D V]. injection H as <-. subst; auto.
  - destruct (den e env) as [u|]; [|discriminate]. destruct (IHe _ eq_refl) as [D V]. injection H as <-. subst; auto.
  - destruct (den e env) as [u|]; [|discriminate]. destruct (IHe _ eq_refl) as [D V]. simpl in H.
    destruct (Rle_dec 0 u); [|discriminate]. injection H as <-. subst; auto.
  - destruct (den e env) as [u|]; [|discriminate]. destruct (IHe _ eq_refl) as [D V]. simpl in H.
    destruct (Rlt_dec 0 u); [|discriminate]. injection H as <-. subst; auto.
  - destruct (den e env) as [u|]; [|discriminate]. destruct (IHe _ eq_refl) as [D V]. injection H as <-. subst; auto.
  - destruct (den e env) as [u|]; [|discriminate]. destruct (IHe _ eq_refl) as [D V]. injection H as <-. subst; auto.
  - destruct (den e env) as [u|]; [|discriminate]. destruct (IHe _ eq_refl) as [D V]. injection H as <-. subst; auto.
Qed.

Theorem den_spec e env v : den e env = Some v <-> dom e env /\ val e env = v.
Proof.
  split; [apply dom_of_den|]. intros [D <-]. apply den_of_dom; exact D.
Qed.

Lemma den_of_dom_val e env v : dom e env -> val e env = v -> den e env = Some v.
Proof. intros D <-. apply den_of_dom; exact D. Qed.

Lemma den_none e env : den e env = None <-> ~ dom e env.
Proof.
  split.
  - intros H D. rewrite (den_of_dom _ _ D) in H. discriminate.
  - intros H. destruct (den e env) eqn:E; [|reflexivity]. exfalso. apply H. apply (dom_of_den _ _ _ E).
Qed.

(* ---- which variables an expression reads *)
Fixpoint mentions (e : rexpr) (i : nat) : bool :=
  match e with
  | EVar j => Nat.eqb i j
  | ECst _ _ => false
  | EAdd a b | ESub a b | EMul a b | EDiv a b => mentions a i || mentions b i
  | ENeg a | EPow a _ | EExp a | ESqrt a | ELn a | EAbs a | ESin a | ECos a => mentions a i
  end.

Lemma den_ext e env env' : (forall i, mentions e i = true -> env i = env' i) -> den e env = den e env'.
Proof.
  induction e; simpl; intros H; try reflexivity.
  - rewrite (H i); [reflexivity | apply Nat.eqb_refl].
  - rewrite IHe1, IHe2; [reflexivity | |]; intros i Hi; apply H; rewrite Hi; auto using orb_true_r.
  - rewrite IHe1, IHe2; [reflexivity | |]; intros i Hi; apply H; rewrite Hi; auto using orb_true_r.
  - rewrite IHe1, IHe2; [reflexivity | |]; intros i Hi; apply H; rewrite Hi; auto using orb_true_r.
  - rewrite IHe1, IHe2; [reflexivity | |]; intros i Hi; apply H; rewrite Hi; auto using orb_true_r.
  - rewrite IHe; auto.
  - rewrite IHe; auto.
  - rewrite IHe; auto.
  - rewrite IHe; auto.
  - rewrite IHe; auto.
  - rewrite IHe; auto.
  - rewrite IHe; auto.
  - rewrite IHe; auto.
Qed.

(* ---- environments *)
Definition env2 (x y : R) : nat -> R := fun i => match i with O => x | _ => y end.

Definition env_of (l : list R) : nat -> R := fun i => nth i l 0.

(* tactic: decide a goal [den e env = Some v] for a concrete e by splitting it into dom / val *)
Ltac den_some := apply den_spec; split; [cbn [dom val]; repeat split | cbn [val]].
