(* Deep-embedded real expressions for the benchmark functions (C17), with a *guarded* denotation:
   division by zero, square root of a negative number and real powers outside the IEEE/NumPy domain
   are undefined (den = None).  Coq's totalised  x/0 = 0, sqrt(-1) = 0  are never relied upon. *)
From Coq Require Import Reals List ZArith Lra Lia.
Import ListNotations.
Open Scope R_scope.

(* ---- aggregates over the input array *)
Fixpoint sumf (f : R -> R) (l : list R) : R :=
  match l with [] => 0 | t :: r => f t + sumf f r end.
Fixpoint prodf (f : R -> R) (l : list R) : R :=
  match l with [] => 1 | t :: r => f t * prodf f r end.
(* sum over adjacent pairs (x_i, x_{i+1}), i = 1..n-1  (Brown: x[:-1] against x[1:]) *)
Fixpoint sumpairs (f : R -> R -> R) (l : list R) : R :=
  match l with
  | [] => 0
  | t :: r => match r with [] => 0 | u :: _ => f t u + sumpairs f r end
  end.
Fixpoint allf (P : R -> Prop) (l : list R) : Prop :=
  match l with [] => True | t :: r => P t /\ allf P r end.
Fixpoint allpairs (P : R -> R -> Prop) (l : list R) : Prop :=
  match l with
  | [] => True
  | t :: r => match r with [] => True | u :: _ => P t u /\ allpairs P r end
  end.

(* ---- a ** b for floats (NumPy): defined for a > 0; for a = 0 when b >= 0 (0**0 = 1);
        for a < 0 only when b is an integer.  Otherwise NaN / inf = undefined. *)
Definition is_int (b : R) : Prop := b = IZR (Int_part b).
Definition powR_def (a b : R) : Prop :=
  0 < a \/ (a = 0 /\ 0 <= b) \/ (a < 0 /\ is_int b).
Definition powR (a b : R) : R :=
  if Rlt_dec 0 a then Rpower a b
  else if Req_EM_T a 0 then (if Req_EM_T b 0 then 1 else 0)
  else powerRZ a (Int_part b).

Inductive bexpr : Type :=
| BZ (z : Z)                       (* integer literal *)
| BQ (num : Z) (den : positive)    (* decimal literal num/den, exact *)
| BPi | BE                         (* np.pi, np.e *)
| BN                               (* x.shape[0] *)
| BX | BXn                         (* current element x_i / its successor x_{i+1}, bound by the aggregates *)
| BNeg (a : bexpr)
| BAdd (a b : bexpr) | BSub (a b : bexpr) | BMul (a b : bexpr) | BDiv (a b : bexpr)
| BPowN (a : bexpr) (k : nat)      (* literal non-negative integer exponent *)
| BPowR (a b : bexpr)              (* any other exponent *)
| BSqrt (a : bexpr) | BExp (a : bexpr) | BSin (a : bexpr) | BCos (a : bexpr) | BAbs (a : bexpr)
| BSum (a : bexpr) | BProd (a : bexpr) | BSumPairs (a : bexpr).

Fixpoint bval (e : bexpr) (l : list R) (xi xn : R) {struct e} : R :=
  match e with
  | BZ z => IZR z
  | BQ n d => IZR n / IZR (Zpos d)
  | BPi => PI
  | BE => exp 1
  | BN => INR (length l)
  | BX => xi
  | BXn => xn
  | BNeg a => - bval a l xi xn
  | BAdd a b => bval a l xi xn + bval b l xi xn
  | BSub a b => bval a l xi xn - bval b l xi xn
  | BMul a b => bval a l xi xn * bval b l xi xn
  | BDiv a b => bval a l xi xn / bval b l xi xn
  | BPowN a k => bval a l xi xn ^ k
  | BPowR a b => powR (bval a l xi xn) (bval b l xi xn)
  | BSqrt a => sqrt (bval a l xi xn)
  | BExp a => exp (bval a l xi xn)
  | BSin a => sin (bval a l xi xn)
  | BCos a => cos (bval a l xi xn)
  | BAbs a => Rabs (bval a l xi xn)
  | BSum a => sumf (fun t => bval a l t xn) l
  | BProd a => prodf (fun t => bval a l t xn) l
  | BSumPairs a => sumpairs (fun t u => bval a l t u) l
  end.

Fixpoint bdef (e : bexpr) (l : list R) (xi xn : R) {struct e} : Prop :=
  match e with
  | BZ _ | BQ _ _ | BPi | BE | BN | BX | BXn => True
  | BNeg a | BExp a | BSin a | BCos a | BAbs a | BPowN a _ => bdef a l xi xn
  | BAdd a b | BSub a b | BMul a b => bdef a l xi xn /\ bdef b l xi xn
  | BDiv a b => bdef a l xi xn /\ bdef b l xi xn /\ bval b l xi xn <> 0
  | BPowR a b => bdef a l xi xn /\ bdef b l xi xn /\ powR_def (bval a l xi xn) (bval b l xi xn)
  | BSqrt a => bdef a l xi xn /\ 0 <= bval a l xi xn
  | BSum a | BProd a => allf (fun t => bdef a l t xn) l
  | BSumPairs a => allpairs (fun t u => bdef a l t u) l
  end.

(* ---- decidability of definedness (classical reals: Rlt_dec, Req_EM_T) *)
Lemma allf_dec : forall (P : R -> Prop), (forall t, {P t} + {~ P t}) -> forall l, {allf P l} + {~ allf P l}.
Proof.
  intros P D l. induction l as [|t r IH]; simpl.
  - left; exact I.
  - destruct (D t); [destruct IH|]; [left; split; assumption | right; tauto | right; tauto].
Qed.

Lemma allpairs_dec : forall (P : R -> R -> Prop), (forall t u, {P t u} + {~ P t u}) ->
  forall l, {allpairs P l} + {~ allpairs P l}.
Proof.
  intros P D l. induction l as [|t r IH]; simpl.
  - left; exact I.
  - destruct r as [|u r'].
    + left; exact I.
    + destruct (D t u); [destruct IH|]; [left; split; assumption | right; tauto | right; tauto].
Qed.

Lemma and_dec : forall A B : Prop, {A} + {~A} -> {B} + {~B} -> {A /\ B} + {~ (A /\ B)}.
Proof. intros A B [a|a] [b|b]; [left; split; assumption | right; tauto ..]. Qed.

Lemma Rneq_dec : forall a b : R, {a <> b} + {~ a <> b}.
Proof. intros a b. destruct (Req_EM_T a b); [right; tauto | left; assumption]. Qed.

Lemma powR_def_dec : forall a b, {powR_def a b} + {~ powR_def a b}.
Proof.
  intros a b. unfold powR_def, is_int.
  destruct (Rlt_dec 0 a) as [H|H]; [left; left; exact H|].
  destruct (Req_EM_T a 0) as [E|E].
  - destruct (Rle_dec 0 b) as [Hb|Hb]; [left; right; left; split; assumption|].
    right; intros [K|[[_ K]|[K _]]]; [lra | tauto | lra].
  - destruct (Req_EM_T b (IZR (Int_part b))) as [I|I].
    + left; right; right; split; [lra | exact I].
    + right; intros [K|[[K _]|[_ K]]]; [lra | tauto | tauto].
Qed.

Lemma bdef_dec : forall e l xi xn, {bdef e l xi xn} + {~ bdef e l xi xn}.
Proof.
  induction e; intros l xi xn; simpl; try (left; exact I); auto using and_dec.
  - apply and_dec; [auto|]. apply and_dec; [auto|]. apply Rneq_dec.
  - apply and_dec; [auto|]. apply and_dec; [auto|]. apply powR_def_dec.
  - apply and_dec; [auto|]. apply Rle_dec.
  - apply allf_dec; intro t; auto.
  - apply allf_dec; intro t; auto.
  - apply allpairs_dec; intros t u; auto.
Qed.

(* ---- the guarded denotation of a closed benchmark expression on the input array l *)
Definition den (e : bexpr) (l : list R) : option R :=
  if bdef_dec e l 0 0 then Some (bval e l 0 0) else None.

Lemma den_some : forall e l v, den e l = Some v <-> bdef e l 0 0 /\ bval e l 0 0 = v.
Proof.
  intros e l v. unfold den. destruct (bdef_dec e l 0 0) as [D|D]; split.
  - intro H; inversion H; auto.
  - intros [_ H]; rewrite H; reflexivity.
  - discriminate.
  - tauto.
Qed.

Lemma den_none : forall e l, den e l = None <-> ~ bdef e l 0 0.
Proof.
  intros e l. unfold den. destruct (bdef_dec e l 0 0) as [D|D]; split; try discriminate; tauto.
Qed.

(* equality of partial values *)
Definition beq (a b : bexpr) (l : list R) : Prop :=
  (bdef a l 0 0 <-> bdef b l 0 0) /\ (bdef a l 0 0 -> bval a l 0 0 = bval b l 0 0).

Lemma beq_refl : forall a l, beq a a l.
Proof. intros; split; [tauto | reflexivity]. Qed.

Lemma beq_den : forall a b l, beq a b l -> den a l = den b l.
Proof.
  intros a b l [Hd Hv]. unfold den.
  destruct (bdef_dec a l 0 0) as [A|A], (bdef_dec b l 0 0) as [B|B]; try tauto.
  rewrite (Hv A); reflexivity.
Qed.

Lemma den_beq : forall a b l, den a l = den b l -> beq a b l.
Proof.
  intros a b l. unfold den, beq.
  destruct (bdef_dec a l 0 0) as [A|A], (bdef_dec b l 0 0) as [B|B]; intro H; try discriminate.
  - inversion H. split; [tauto | auto].
  - split; tauto.
Qed.

(* ---- facts about the aggregates *)
Lemma sumf_ext : forall f g l, (forall t, In t l -> f t = g t) -> sumf f l = sumf g l.
Proof.
  induction l as [|t r IH]; simpl; intros H; [reflexivity|].
  rewrite (H t), IH; auto.
Qed.

Lemma prodf_ext : forall f g l, (forall t, In t l -> f t = g t) -> prodf f l = prodf g l.
Proof.
  induction l as [|t r IH]; simpl; intros H; [reflexivity|].
  rewrite (H t), IH; auto.
Qed.

Lemma sumpairs_ext : forall f g l, (forall t u, f t u = g t u) -> sumpairs f l = sumpairs g l.
Proof.
  induction l as [|t r IH]; simpl; intros H; [reflexivity|].
  destruct r as [|u r']; [reflexivity|]. rewrite H. f_equal. apply IH, H.
Qed.

Lemma allf_ext : forall (P Q : R -> Prop) l, (forall t, In t l -> (P t <-> Q t)) -> (allf P l <-> allf Q l).
Proof.
  induction l as [|t r IH]; simpl; intros H; [tauto|].
  rewrite (H t) by auto. rewrite IH by auto. tauto.
Qed.

Lemma allpairs_ext : forall (P Q : R -> R -> Prop) l, (forall t u, P t u <-> Q t u) -> (allpairs P l <-> allpairs Q l).
Proof.
  induction l as [|t r IH]; simpl; intros H; [tauto|].
  destruct r as [|u r']; [tauto|]. rewrite H. rewrite IH by auto. tauto.
Qed.

Lemma allf_forall : forall (P : R -> Prop) l, allf P l <-> (forall t, In t l -> P t).
Proof.
  induction l as [|t r IH]; simpl; [tauto|]. rewrite IH. split.
  - intros [H1 H2] u [E|I]; [subst; auto | auto].
  - intros H; split; auto.
Qed.

Lemma allf_true : forall l, allf (fun _ => True) l.
Proof. induction l; simpl; auto. Qed.

Lemma allpairs_true : forall l, allpairs (fun _ _ => True) l.
Proof. induction l as [|t r IH]; simpl; auto. destruct r; auto. Qed.

Lemma sumf_ge : forall f c l, (forall t, In t l -> c <= f t) -> INR (length l) * c <= sumf f l.
Proof.
  induction l as [|t r IH]; intros H.
  - simpl. lra.
  - change (length (t :: r)) with (S (length r)). rewrite S_INR. simpl sumf.
    assert (c <= f t) by (apply H; left; reflexivity).
    assert (INR (length r) * c <= sumf f r) by (apply IH; intros; apply H; right; assumption). lra.
Qed.

Lemma sumf_le : forall f c l, (forall t, In t l -> f t <= c) -> sumf f l <= INR (length l) * c.
Proof.
  induction l as [|t r IH]; intros H.
  - simpl. lra.
  - change (length (t :: r)) with (S (length r)). rewrite S_INR. simpl sumf.
    assert (f t <= c) by (apply H; left; reflexivity).
    assert (sumf f r <= INR (length r) * c) by (apply IH; intros; apply H; right; assumption). lra.
Qed.

Lemma sumf_nonneg : forall f l, (forall t, In t l -> 0 <= f t) -> 0 <= sumf f l.
Proof. intros f l H. pose proof (sumf_ge f 0 l H). lra. Qed.

Lemma sumf_const : forall f c l, (forall t, In t l -> f t = c) -> sumf f l = INR (length l) * c.
Proof.
  intros f c l H. apply Rle_antisym; [apply sumf_le | apply sumf_ge]; intros t I; rewrite (H t I); lra.
Qed.

Lemma sumf_plus : forall f g l, sumf (fun t => f t + g t) l = sumf f l + sumf g l.
Proof. induction l as [|t r IH]; simpl; [lra | rewrite IH; lra]. Qed.

Lemma sumf_scal : forall f c l, sumf (fun t => c * f t) l = c * sumf f l.
Proof. induction l as [|t r IH]; simpl; [lra | rewrite IH; lra]. Qed.

Lemma sumpairs_nonneg : forall f l, (forall t u, In t l -> In u l -> 0 <= f t u) -> 0 <= sumpairs f l.
Proof.
  induction l as [|t r IH]; intros H; simpl; [lra|].
  destruct r as [|u r']; [lra|].
  assert (0 <= f t u) by (apply H; simpl; auto).
  assert (0 <= sumpairs f (u :: r')) by (apply IH; intros; apply H; simpl; simpl in *; tauto). lra.
Qed.

Lemma sumpairs_zero : forall f l, (forall t u, In t l -> In u l -> f t u = 0) -> sumpairs f l = 0.
Proof.
  induction l as [|t r IH]; intros H; simpl; [reflexivity|].
  destruct r as [|u r']; [reflexivity|].
  rewrite (H t u) by (simpl; auto). rewrite IH; [lra|]. intros; apply H; simpl; simpl in *; tauto.
Qed.

Lemma allpairs_forall : forall (P : R -> R -> Prop) l, (forall t u, In t l -> In u l -> P t u) -> allpairs P l.
Proof.
  induction l as [|t r IH]; intros H; simpl; [exact I|].
  destruct r as [|u r']; [exact I|]. split; [apply H; simpl; auto|].
  apply IH. intros; apply H; simpl; simpl in *; tauto.
Qed.

Lemma in_repeat : forall (c t : R) n, In t (repeat c n) -> t = c.
Proof. intros c t n H. apply repeat_spec in H. exact H. Qed.

(* ---- powR *)
Lemma powR_pos : forall a b, 0 < a -> powR a b = Rpower a b.
Proof. intros a b H. unfold powR. destruct (Rlt_dec 0 a); [reflexivity | contradiction]. Qed.

Lemma powR_zero : forall b, b <> 0 -> powR 0 b = 0.
Proof.
  intros b H. unfold powR. destruct (Rlt_dec 0 0); [lra|].
  destruct (Req_EM_T 0 0); [|congruence]. destruct (Req_EM_T b 0); [contradiction | reflexivity].
Qed.

Lemma powR_nonneg : forall a b, 0 <= a -> 0 <= powR a b.
Proof.
  intros a b H. unfold powR. destruct (Rlt_dec 0 a).
  - unfold Rpower. left. apply exp_pos.
  - destruct (Req_EM_T a 0); [|lra]. destruct (Req_EM_T b 0); lra.
Qed.
