(* Float keys: a binary64 value is modelled by the sign-magnitude reading of its
   bit pattern (+0.0 -> 0, -0.0 -> -1, negative x -> -(bits without sign) - 1).
   NaN has no key: [okey = option Z] with [None] for NaN.
   Bit order and numeric order differ only at the two zeros: [nk] identifies them. *)
From Coq Require Import ZArith List Bool Lia ZifyBool.
Import ListNotations.
Open Scope Z_scope.

Definition okey := option Z.
Definition contents := list (list okey).       (* rows (variables) x dimensions *)

Definition nk (k : Z) : Z := if k =? -1 then 0 else k.

Definition klt (a b : Z) : bool := nk a <? nk b.     (* IEEE  a < b  on non-NaN values *)
Definition kle (a b : Z) : bool := nk a <=? nk b.
Definition keq (a b : Z) : bool := nk a =? nk b.     (* IEEE == (so -0.0 == +0.0) *)

Definition KINF : Z := 9218868437227405312.          (* key of +inf; -inf is -KINF-1 *)
Definition KMAX : Z := 9218868437227405311.          (* key of sys.float_info.max *)
Definition kfinite (k : Z) : bool := (- KINF - 1 <? k) && (k <? KINF).

Definition olt (a b : okey) : bool :=                 (* Python  a < b : False when either is NaN *)
  match a, b with Some x, Some y => klt x y | _, _ => false end.

Lemma nk_cases k : (k = -1 /\ nk k = 0) \/ (k <> -1 /\ nk k = k).
Proof. unfold nk. destruct (k =? -1) eqn:E; lia. Qed.

Lemma klt_irrefl a : klt a a = false.
Proof. unfold klt. lia. Qed.

Lemma klt_trans a b c : klt a b = true -> klt b c = true -> klt a c = true.
Proof. unfold klt. lia. Qed.

Lemma kle_refl a : kle a a = true.
Proof. unfold kle. lia. Qed.

Lemma kle_trans a b c : kle a b = true -> kle b c = true -> kle a c = true.
Proof. unfold kle. lia. Qed.

Lemma klt_kle a b : klt a b = false <-> kle b a = true.
Proof. unfold klt, kle. lia. Qed.

Lemma kle_antisym_num a b : kle a b = true -> kle b a = true -> nk a = nk b.
Proof. unfold kle. lia. Qed.

Lemma kle_total a b : kle a b = true \/ kle b a = true.
Proof. unfold kle. lia. Qed.

Lemma klt_le_trans a b c : klt a b = true -> kle b c = true -> klt a c = true.
Proof. unfold klt, kle. lia. Qed.

Lemma kle_lt_trans a b c : kle a b = true -> klt b c = true -> klt a c = true.
Proof. unfold klt, kle. lia. Qed.

(* ---- decidable equalities used by the correspondence runs (cases_*.v) *)
Definition okey_eqb (a b : okey) : bool :=
  match a, b with Some x, Some y => x =? y | None, None => true | _, _ => false end.

Fixpoint list_eqb {A} (eqb : A -> A -> bool) (l1 l2 : list A) : bool :=
  match l1, l2 with
  | [], [] => true
  | x :: t1, y :: t2 => eqb x y && list_eqb eqb t1 t2
  | _, _ => false
  end.

Definition row_eqb := list_eqb okey_eqb.
Definition contents_eqb : contents -> contents -> bool := list_eqb row_eqb.

Fixpoint mismatches_from {A} (n : nat) (f : A -> bool) (l : list A) : list nat :=
  match l with
  | [] => []
  | x :: t => if f x then mismatches_from (S n) f t else n :: mismatches_from (S n) f t
  end.
Definition mismatches {A} := @mismatches_from A 0.

Lemma okey_eqb_eq a b : okey_eqb a b = true <-> a = b.
Proof.
  destruct a, b; simpl; split; intros H; try discriminate; try reflexivity.
  - apply Z.eqb_eq in H. congruence.
  - injection H as ->. apply Z.eqb_refl.
Qed.
