(* C20 -- per-agent records are truthful; greedy optimizers never accept a worse solution.

   Stated over the effect IR (Model/IR.v, semantics Model/IRSem.v) for every program that passes a decidable check
   (Analysis/Truthful.v: abstract interpretation, sound by Analysis/AbsInt.absint_sound), for all boxes, objectives,
   oracles (random draws / arithmetic results), iteration counts and admissible initial states; the hook is an observer
   ([hk = fun x => x]) -- clause 1 is also proved for every hook that only moves agents
   ([c20_truthful_any_position_moving_hook]) -- and arithmetic results are NaN-free and shape preserving ([okc = okc_std]).
   The per-program obligations [c20_check prog_X = true], [c20h_check prog_X = true], [c20_greedy_check prog_X = true] are evaluated on the
   regenerated Gen/Programs.v by the driver at check time. *)
From Coq Require Import String ZArith List Bool Arith Lia.
From OV Require Import Base.FloatKey Model.Clip Model.IR Model.IRSem Analysis.AbsInt Analysis.SemLemmas Analysis.Feasible
  Analysis.Truthful Gen.Programs.
Import ListNotations.
Close Scope Z_scope.
Open Scope nat_scope.
Open Scope list_scope.

(* Clause 1.  At every record every agent's stored fitness is the objective at its stored position; for the
   particle-swarm family (the sweep is PSO._evaluate) at its stored local best:
     truthful f false y = Forall  (fun a => afit a = f (apos a)) (pop y)
     truthful f true  y = Forall2 (fun a c => afit a = f c) (pop y) (loc y). *)
Theorem c20_truthful : forall (lbs ubs : list Z) (f : contents -> Z) (n_iter : nat),
  Forall2 (fun l h => kle l h = true) lbs ubs ->
  forall p : stmt, c20_check p = true ->
  forall o x0 x' evs o', init_ok lbs ubs f (is_pso p) x0 ->
    run lbs ubs f hk n_iter okc p o x0 = Some (x', evs, o') ->
    forall y, In (EvDump y) evs -> truthful f (is_pso p) y.
Proof. exact c20_truthful_of_check. Qed.

(* Clause 1 for hooks that move agents.  The library documents the pre-evaluation hook as something that may modify the space
   before the evaluation; [hook_moves_positions_only lbs h]: for every state x the hook keeps every agent's fitness
   ([map afit (pop (h x)) = map afit (pop x)], hence the population size), the best agent, the trial agent, the shadows and the
   local positions, and leaves the positions well formed (NaN-free, the declared number of rows) whenever they were.
   For every such hook and every program passing [c20h_check] (the analysis in which [Hook] forgets, for every slot, the
   relation between position and fitness -- a Havoc of every slot that keeps the fitnesses) every record is truthful; for the
   swarm family w.r.t. the recorded local best, which such a hook does not touch.
   [c20_truthful] above is the instance for the observer hook.  The monotonicity clause (clause 2) is stated for observer
   hooks only: an agent moved by the hook is re-evaluated by the sweep and its fitness may well increase. *)
Theorem c20_truthful_any_position_moving_hook : forall (lbs ubs : list Z) (f : contents -> Z) (n_iter : nat),
  Forall2 (fun l h => kle l h = true) lbs ubs ->
  forall (h : st -> st) (p : stmt), hook_moves_positions_only lbs h -> c20h_check p = true ->
  forall o x0 x' evs o', init_ok lbs ubs f (is_pso p) x0 ->
    run lbs ubs f h n_iter okc p o x0 = Some (x', evs, o') ->
    forall y, In (EvDump y) evs -> truthful f (is_pso p) y.
Proof. exact c20h_truthful_of_check. Qed.

Theorem c20_position_moving_hook_means : forall lbs (h : st -> st),
  hook_moves_positions_only lbs h <->
  (forall x, map afit (pop (h x)) = map afit (pop x) /\ best (h x) = best x /\ tr (h x) = tr x /\ sh (h x) = sh x /\
             loc (h x) = loc x /\
             ((forall a, In a (pop x) -> wf lbs (apos a)) -> forall a, In a (pop (h x)) -> wf lbs (apos a))).
Proof. intros. reflexivity. Qed.

(* Clause 2, per agent (ABC, CS, FPA; PSO, AIWPSO, RPSO: the stored fitness is the personal best): between two
   consecutive records no agent's fitness increases:
     slot_mono y1 y2 = Forall2 (fun a1 a2 => kle (afit a2) (afit a1) = true) (pop y1) (pop y2). *)
Theorem c20_greedy_slot : forall (lbs ubs : list Z) (f : contents -> Z) (n_iter : nat),
  Forall2 (fun l h => kle l h = true) lbs ubs ->
  forall p : stmt, t_check (is_pso p) GSlot p = true ->
  forall o x0 x' evs o', init_ok lbs ubs f (is_pso p) x0 ->
    run lbs ubs f hk n_iter okc p o x0 = Some (x', evs, o') ->
    forall h1 y1 h2 y2 h3, evs = h1 ++ EvDump y1 :: h2 ++ EvDump y2 :: h3 -> dumps h2 = [] -> slot_mono y1 y2.
Proof. exact c20_greedy_slot_of_check. Qed.

(* Clause 2, per rank (HS, IHS): the k-th best fitness never gets worse:
     rank_mono y1 y2 = Forall2 Z.le (isort (map nk (fits (pop y2)))) (isort (map nk (fits (pop y1)))). *)
Theorem c20_greedy_rank : forall (lbs ubs : list Z) (f : contents -> Z) (n_iter : nat),
  Forall2 (fun l h => kle l h = true) lbs ubs ->
  forall p : stmt, t_check (is_pso p) GRank p = true ->
  forall o x0 x' evs o', init_ok lbs ubs f (is_pso p) x0 ->
    run lbs ubs f hk n_iter okc p o x0 = Some (x', evs, o') ->
    forall h1 y1 h2 y2 h3, evs = h1 ++ EvDump y1 :: h2 ++ EvDump y2 :: h3 -> dumps h2 = [] -> rank_mono y1 y2.
Proof. exact c20_greedy_rank_of_check. Qed.

(* the lemma behind the rank-wise clause: replacing the maximum of a sorted vector by a smaller value lowers every
   order statistic *)
Theorem c20_sorted_dominance : forall l0 m v, sortedk (l0 ++ [m]) -> klt v m = true -> rank_le (l0 ++ [v]) (l0 ++ [m]).
Proof. exact sorted_dominance. Qed.

(* Histories of tasks on one space (optimizers outside the particle-swarm family): for every finite sequence of programs
   each of which passes the C01 restart check, is not of the swarm family and passes the C20 check for the clause [g]
   ([prog20_ok g p = true], evaluated by the driver on the regenerated programs), started on a space left by such a sequence
   (or freshly built: C01_fresh_space_starts_a_history), in EVERY task: every record is truthful, and between two consecutive
   records of the task no individual (g = GSlot) / no rank (g = GRank) gets worse.  The swarm family is excluded on purpose:
   its start condition (every fitness above every objective value) fails in a continued space, and the unchanged code does
   record an inherited personal-best fitness next to a re-created local position (known finding). *)
From OV Require Import Analysis.FeasibleRel Analysis.FeasibleRelSound Analysis.TruthfulHist.

Theorem C20_task_histories : forall (lbs ubs : list Z) (f : contents -> Z) (n_iter : nat) (INIT : list contents),
  Forall2 (fun l h => kle l h = true) lbs ubs ->
  forall (g : gmode) (ps : list stmt), Forall (fun p => prog20_ok g p = true) ps ->
  forall x0 segs x', restart_ok lbs ubs INIT x0 -> tasks20 lbs ubs f n_iter INIT ps x0 segs x' ->
    Forall (task20_ok f g) segs /\ restart_ok lbs ubs INIT x'.
Proof. exact c20_tasks. Qed.

Theorem C20_task_ok_means : forall f g (s : seg),
  task20_ok f g s <->
  ((forall y, In (EvDump y) (seg_evs s) -> Forall (fun a => afit a = f (apos a)) (pop y)) /\
   (forall h1 y1 h2 y2 h3, seg_evs s = h1 ++ EvDump y1 :: h2 ++ EvDump y2 :: h3 -> dumps h2 = [] ->
      match g with GSlot => slot_mono y1 y2 | GRank => rank_mono y1 y2 | GNone => True end)).
Proof. intros. reflexivity. Qed.

(* ---------------------------------------------------------------- witnesses *)
Definition ag (p : Z) (i : nat) (ft : Z) : agent := {| apos := [[Some p]]; aid := i; afit := ft |}.
(* two agents in the box [0,10] (one variable, one dimension), every fitness still the sentinel FLOAT_MAX *)
Definition st0 : st :=
  {| pop := [ag 3 0 KMAX; ag 8 1 KMAX]; best := ag 0 2 KMAX; tr := ag 0 3 KMAX; sh := [];
     loc := [[[Some 0%Z]]; [[Some 0%Z]]]; tmp := 0%Z; idx := []; next := 10; hyp := []; tv := []; btv := [] |}.

Lemma box0 : Forall2 (fun l h => kle l h = true) [0%Z] [10%Z].
Proof. repeat constructor. Qed.

Lemma st0_init ul : init_ok [0%Z] [10%Z] fchk ul st0.
Proof.
  constructor; simpl; try (repeat constructor; fail).
  intros _. repeat constructor; intros c; apply fchk_below_sentinel.
Qed.

Definition o_pso : list answer := [ACont [[Some 5%Z]]; ACont [[Some 12%Z]]; ACont [[Some 1%Z]]; ACont [[Some 9%Z]]].
Definition o_abc : list answer :=
  [ANat 1; ACont [[Some 2%Z]]; ANat 0; ACont [[Some 11%Z]];
   ANat 1; ABool true; ANat 1; ACont [[Some 1%Z]]; ABool false;
   ABool true; ANat 1; ACont [[Some 4%Z]]].
Definition o_hs : list answer := [ANat 0; ABool true; ABool true; ACont [[Some 1%Z]]].

Definition ok_run (r : res) (ndumps : nat) : bool :=
  match r with Some (_, evs, []) => Nat.eqb (length (dumps evs)) ndumps | _ => false end.

(* non-vacuity: the hypotheses of the theorems are satisfiable, the runs succeed and write records *)
Example c20_nonvacuous_PSO :
  init_ok [0%Z] [10%Z] fchk (is_pso prog_PSO) st0 /\ ok_run (run [0%Z] [10%Z] fchk hk 2 okc prog_PSO o_pso st0) 2 = true.
Proof. split; [apply st0_init|vm_compute; reflexivity]. Qed.
Example c20_nonvacuous_ABC :
  init_ok [0%Z] [10%Z] fchk (is_pso prog_ABC) st0 /\ ok_run (run [0%Z] [10%Z] fchk hk 1 okc prog_ABC o_abc st0) 1 = true.
Proof. split; [apply st0_init|vm_compute; reflexivity]. Qed.
Example c20_nonvacuous_HS :
  init_ok [0%Z] [10%Z] fchk (is_pso prog_HS) st0 /\ ok_run (run [0%Z] [10%Z] fchk hk 1 okc prog_HS o_hs st0) 1 = true.
Proof. split; [apply st0_init|vm_compute; reflexivity]. Qed.

(* non-vacuity of the moving-hook theorem: [hook_move0] puts the first agent at key 5 -- it satisfies the hypothesis, it really
   moves an agent of [st0], and runs under it succeed and write records *)
Example c20_nonvacuous_moving_hook :
  hook_moves_positions_only [0%Z] hook_move0 /\ map apos (pop (hook_move0 st0)) <> map apos (pop st0) /\
  init_ok [0%Z] [10%Z] fchk (is_pso prog_ABC) st0 /\ c20h_check prog_ABC = true /\
  ok_run (run [0%Z] [10%Z] fchk hook_move0 1 okc prog_ABC o_abc st0) 1 = true /\
  ok_run (run [0%Z] [10%Z] fchk hook_move0 2 okc prog_PSO o_pso st0) 2 = true.
Proof.
  split; [exact hook_move0_ok|split; [vm_compute; discriminate|split; [apply st0_init|]]].
  split; [vm_compute; reflexivity|split; vm_compute; reflexivity].
Qed.

(* the check separates: a hook between the sweep and the record is rejected, a hook in front of the sweep is accepted -- and
   the rejected program really writes an untruthful record under [hook_move0] (while the observer-hook check accepts it) *)
Example c20h_check_separates :
  c20h_check (Seq base_sweep (Seq Hook Dump)) = false /\ c20h_check (Seq Hook (Seq base_sweep Dump)) = true /\
  c20_check (Seq base_sweep (Seq Hook Dump)) = true /\
  refutes_truthful (run [0%Z] [10%Z] fchk hook_move0 0 okc (Seq base_sweep (Seq Hook Dump)) [] st0) = true /\
  refutes_truthful (run [0%Z] [10%Z] fchk hook_move0 0 okc (Seq Hook (Seq base_sweep Dump)) [] st0) = false.
Proof. vm_compute. repeat split. Qed.

(* non-vacuity of the history theorem: [st0] starts a history and two harmony-search tasks in a row form one *)
Example c20_nonvacuous_two_tasks :
  restart_ok [0%Z] [10%Z] [[[Some 0%Z]]] st0 /\ prog20_ok GRank prog_HS = true /\
  exists segs x2, tasks20 [0%Z] [10%Z] fchk 1 [[[Some 0%Z]]] [prog_HS; prog_HS] st0 segs x2 /\
                  map (fun s => length (dumps (seg_evs s))) segs = [1; 1].
Proof.
  assert (Hlc : Forall (fun c => In c [[[Some 0%Z]]] /\ wf [0%Z] c) [[[Some 0%Z]]; [[Some 0%Z]]]).
  { repeat constructor. }
  split; [|split; [vm_compute; reflexivity|]].
  - apply (fresh_restart_ok [0%Z] [10%Z] fchk).
    + constructor; simpl.
      * intros [|[|[|j]]] a Hn _; simpl in Hn; try discriminate; injection Hn as <-; reflexivity.
      * intros j a Hc; discriminate.
      * right. split; [left; reflexivity|split; reflexivity].
      * split; reflexivity.
      * intros [|j] a Hn; discriminate.
      * intros j a Hc; discriminate.
      * intros c [<-|[<-|[]]]; right; (split; [left; reflexivity|split; reflexivity]).
      * constructor.
    + intros a [<-|[<-|[]]]; reflexivity.
    + reflexivity.
    + left; reflexivity.
  - destruct (run [0%Z] [10%Z] fchk hk 1 okc prog_HS o_hs (with_loc st0 [[[Some 0%Z]]; [[Some 0%Z]]])) as [[[x1 e1] o1]|] eqn:E1;
      [|vm_compute in E1; discriminate].
    destruct (run [0%Z] [10%Z] fchk hk 1 okc prog_HS o_hs (with_loc x1 [[[Some 0%Z]]; [[Some 0%Z]]])) as [[[x2 e2] o2]|] eqn:E2;
      [|vm_compute in E1; injection E1 as <- _ _; vm_compute in E2; discriminate].
    eexists _, x2. split.
    + eapply tasks20_cons; [exact Hlc|exact E1|]. eapply tasks20_cons; [exact Hlc|exact E2|apply tasks20_nil].
    + vm_compute in E1. injection E1 as Hx1 <- _. subst x1. vm_compute in E2. injection E2 as _ <- _. reflexivity.
Qed.

(* ---------------------------------------------------------------- finding (g): WCA
   WCA.run calls _raining_process after the closing sweep and before history.dump: an agent is moved and recorded
   with the fitness of its old position.  Full statement refuted:
     forall ..., init_ok lbs ubs f false x0 -> run lbs ubs f hk n_iter okc prog_WCA o x0 = Some (x', evs, o') ->
                 forall y, In (EvDump y) evs -> truthful f false y. *)
Definition o_wca : list answer :=
  [ANat 0; ANat 0; ANat 0; ANat 0; ANat 1; ANat 0; ABool true; ACont [[Some 7%Z]]].

Theorem wca_c20_refuted :
  exists lbs ubs f n_iter o x0 x' evs o' y,
    Forall2 (fun l h => kle l h = true) lbs ubs /\ init_ok lbs ubs f false x0 /\
    run lbs ubs f hk n_iter okc prog_WCA o x0 = Some (x', evs, o') /\ In (EvDump y) evs /\ ~ truthful f false y.
Proof.
  destruct (refutes_truthful_spec (run [0%Z] [10%Z] fchk hk 1 okc prog_WCA o_wca st0)) as (x' & evs & o' & y & E & Hy & Hn);
    [vm_compute; reflexivity|].
  exists [0%Z], [10%Z], fchk, 1, o_wca, st0, x', evs, o', y.
  split; [exact box0|split; [apply (st0_init false)|split; [exact E|split; [exact Hy|exact Hn]]]].
Qed.

(* ------------------------------------------------------------------ histories in full generality (Analysis/Tasks.v)
   Every task with its OWN non-swarm optimizer, objective, iteration count, greedy clause, local arrays and draw stream
   (observer hook): every record of every task is truthful for THAT task's objective -- in particular after the objective
   of a space was exchanged between two tasks -- and within each task its greedy clause holds. *)
From OV Require Import Analysis.Tasks.

Definition c20_task_ok (lbs : list Z) (INIT : list contents) (g : task -> gmode) (t : task) : Prop :=
  prog20_ok (g t) (tp t) = true /\ thk t = hk /\ Forall (fun c => In c INIT /\ wf lbs c) (tlc t).

Theorem C20_task_histories_general : forall (lbs ubs : list Z) (INIT : list contents),
  Forall2 (fun l h => kle l h = true) lbs ubs ->
  forall (g : task -> gmode) ts x0 rs x', Forall (c20_task_ok lbs INIT g) ts -> restart_ok lbs ubs INIT x0 ->
    thist lbs ubs okc ts x0 rs x' ->
    Forall2 (fun t r => task20_ok (tf t) (g t) r) ts rs /\ restart_ok lbs ubs INIT x'.
Proof.
  intros lbs ubs INIT Hb g ts x0 rs x' HQ H0 Ht. induction Ht as [x|t ts x x1 evs1 o1 rest x2 Hrun Ht IH].
  - split; [constructor|exact H0].
  - destruct (Forall_inv HQ) as (Hc & Hh & Hlc). rewrite Hh in Hrun.
    assert (T1 : tasks20 lbs ubs (tf t) (tn t) INIT [tp t] x [(with_loc x (tlc t), evs1, x1)] x1).
    { eapply tasks20_cons; [exact Hlc|exact Hrun|apply tasks20_nil]. }
    destruct (C20_task_histories lbs ubs (tf t) (tn t) INIT Hb (g t) [tp t] (Forall_cons _ Hc (Forall_nil _)) x _ x1 H0 T1) as [A B].
    destruct (IH (Forall_inv_tail HQ) B) as [C D].
    split; [constructor; [exact (Forall_inv A)|exact C]|exact D].
Qed.

(* ------------------------------------------------------------------ the swarm family over histories: refuted (known finding
   history:PSO-family:record-fit-not-f(local)).  `run()` re-creates local_position = zeros while the personal-best fitnesses
   persist in the agents; until a particle improves on its inherited fitness its record pairs that fitness with the all-zero
   local position.  Full statement refuted:
     forall two PSO tasks on one space, every record y of the second task satisfies truthful f true y.
   Witness: two particles at 3 and 8 in [0,10], f = the checksum fchk (the coordinate itself on [0,10]); task 1 moves them to 10 and 0 (fitnesses
   3 and 0 stay the personal bests); task 2 moves them to 9 and 8 -- nothing improves -- and its record holds the fitnesses
   [3; 0] next to the local positions [0; 0]: 3 <> f(0). *)
Definition pso_t1 : task :=
  {| tp := prog_PSO; tf := fchk; thk := hk; tn := 1; tlc := [[[Some 0%Z]]; [[Some 0%Z]]];
     tor := [ACont [[Some 12%Z]]; ACont [[Some (-5)%Z]]] |}.
Definition pso_t2 : task :=
  {| tp := prog_PSO; tf := fchk; thk := hk; tn := 1; tlc := [[[Some 0%Z]]; [[Some 0%Z]]];
     tor := [ACont [[Some 9%Z]]; ACont [[Some 8%Z]]] |}.

Theorem C20_swarm_history_refuted :
  exists rs x' xs evs xe y,
    init_ok [0%Z] [10%Z] fchk true st0 /\
    thist [0%Z] [10%Z] okc [pso_t1; pso_t2] st0 rs x' /\
    nth_error rs 1 = Some (xs, evs, xe) /\ In (EvDump y) evs /\ ~ truthful fchk true y.
Proof.
  destruct (run [0%Z] [10%Z] fchk hk 1 okc prog_PSO (tor pso_t1) (with_loc st0 (tlc pso_t1))) as [[[x1 e1] o1]|] eqn:E1;
    [|vm_compute in E1; discriminate].
  destruct (run [0%Z] [10%Z] fchk hk 1 okc prog_PSO (tor pso_t2) (with_loc x1 (tlc pso_t2))) as [[[x2 e2] o2]|] eqn:E2;
    [|vm_compute in E1; injection E1 as <- _ _; vm_compute in E2; discriminate].
  assert (D : exists y, In (EvDump y) e2 /\ map afit (pop y) = [3%Z; 0%Z] /\ loc y = [[[Some 0%Z]]; [[Some 0%Z]]]).
  { vm_compute in E1. injection E1 as <- _ _. vm_compute in E2. injection E2 as _ <- _.
    eexists. split; [simpl; repeat (first [left; reflexivity|right])|split; reflexivity]. }
  destruct D as (y & Hy & Hf & Hl).
  exists [(with_loc st0 (tlc pso_t1), e1, x1); (with_loc x1 (tlc pso_t2), e2, x2)], x2, (with_loc x1 (tlc pso_t2)), e2, x2, y.
  split; [|split; [|split; [reflexivity|split; [exact Hy|]]]].
  - apply (st0_init true).
  - eapply thist_cons; [exact E1|]. eapply thist_cons; [exact E2|apply thist_nil].
  - unfold truthful. intros HT. destruct (pop y) as [|a0 [|a1 [|a2 l]]]; try discriminate.
    injection Hf as Ha0 _. rewrite Hl in HT. inversion HT as [|? ? ? ? H0 _]; subst. rewrite Ha0 in H0. discriminate.
Qed.
