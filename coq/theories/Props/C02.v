(* C02 -- the reported best is the best point actually evaluated, with its true fitness.
   Property theorems only; the development is Analysis/BestMin.v (abstract domain, decidable check) and
   Analysis/BestMinSound.v (soundness through the generic abstract interpreter Analysis/AbsInt.v) over the
   semantics Model/IRSem.v of the regenerated programs Gen/Programs.v.  The per-program obligations
   c02_check prog_X = true  are evaluated by the driver at check time on the programs regenerated from the
   current source.

   Reading guide.  [dump_ok y h]  (Analysis/BestMinSound.v) says about a state y and the events h before it:
     (1) afit (best y) <= v for every  EvEval _ v  in h            (numeric order on float keys),
     (2) EvEval (apos (best y)) (afit (best y)) is in h,  OR  afit (best y) = KMAX (the FLOAT_MAX sentinel),
     (3) afit (best y) <= KMAX.
   The second disjunct of (2) is the sentinel corner (DESIGN finding n): the best agent starts as a placeholder
   with fitness FLOAT_MAX and is replaced only by a strictly smaller fitness, so as long as no evaluation is
   numerically below FLOAT_MAX it is never updated and its position is the initial array.  As soon as one
   evaluation is below the sentinel, (1) forces the first disjunct ([C02_best_is_an_evaluated_argmin]). *)
From Coq Require Import String ZArith List Bool Lia.
From OV Require Import Base.FloatKey Model.Clip Model.IR Model.IRSem Analysis.AbsInt Analysis.BestMin Analysis.BestMinSound Gen.Programs.
Import ListNotations.
Open Scope list_scope.

Theorem C02_dump_ok_means : forall y h, dump_ok y h <->
  (forall c v, In (EvEval c v) h -> kle (afit (best y)) v = true) /\
  (In (EvEval (apos (best y)) (afit (best y))) h \/ afit (best y) = KMAX) /\
  kle (afit (best y)) KMAX = true.
Proof. intros; reflexivity. Qed.

(* For every IR program that passes the (decidable) check, every box with lb <= ub, every objective (a function
   into non-NaN keys), every iteration count, every oracle (every sequence of draws and NaN-free shape-preserving
   arithmetic results), every fresh initial space, with the hook an observer:
   at every history record (EvDump) and at return, the best agent satisfies [dump_ok] w.r.t. all evaluations
   made before; and every evaluation event carries the objective's value at its argument. *)
Theorem C02_best_is_min :
  forall (p : stmt), c02_check p = true ->
  forall (lbs ubs : list Z) (f : contents -> Z) (n_iter : nat),
    Forall2 (fun l h => kle l h = true) lbs ubs ->
  forall o x0 x' evs o', c02_init lbs ubs x0 ->
    run lbs ubs f bhk n_iter okc_std p o x0 = Some (x', evs, o') ->
    (forall h1 y h2, evs = h1 ++ EvDump y :: h2 -> dump_ok y h1) /\
    dump_ok x' evs /\
    (forall c v, In (EvEval c v) evs -> v = f c).
Proof. intros p Hc lbs ubs f n_iter Hb. exact (c02_of_check lbs ubs f n_iter Hb p Hc). Qed.

(* once some evaluation is below the sentinel: (best.position, best.fit) is one of the earlier evaluations,
   best.fit is attained and is a lower bound of all evaluation values so far (= their minimum),
   and best.fit = f(best.position) *)
Theorem C02_best_is_an_evaluated_argmin :
  forall y h, dump_ok y h -> (exists c v, In (EvEval c v) h /\ klt v KMAX = true) ->
  In (EvEval (apos (best y)) (afit (best y))) h.
Proof. exact dump_ok_argmin. Qed.

Theorem C02_best_fit_is_the_minimum :
  forall y h, dump_ok y h -> (exists c v, In (EvEval c v) h /\ klt v KMAX = true) ->
  In (afit (best y)) (eval_vals h) /\ forall v, In v (eval_vals h) -> kle (afit (best y)) v = true.
Proof. exact dump_ok_min. Qed.

Theorem C02_best_fit_is_true :
  forall (f : contents -> Z) y h, dump_ok y h -> (forall c v, In (EvEval c v) h -> v = f c) ->
  (exists c v, In (EvEval c v) h /\ klt v KMAX = true) -> afit (best y) = f (apos (best y)).
Proof. exact dump_ok_true_fit. Qed.

(* consequently the recorded best fitness never increases from one record to the next, nor to the return *)
Theorem C02_best_fitness_never_increases :
  forall evs, (forall h1 y h2, evs = h1 ++ EvDump y :: h2 -> dump_ok y h1) ->
  forall h1 y1 h2 y2 h3, evs = h1 ++ EvDump y1 :: h2 ++ EvDump y2 :: h3 ->
  kle (afit (best y2)) (afit (best y1)) = true.
Proof. exact dumps_monotone. Qed.

Theorem C02_returned_best_not_above_records :
  forall evs x', dump_ok x' evs -> (forall h1 y h2, evs = h1 ++ EvDump y :: h2 -> dump_ok y h1) ->
  forall h1 y1 h2, evs = h1 ++ EvDump y1 :: h2 -> kle (afit (best x')) (afit (best y1)) = true.
Proof. exact final_monotone. Qed.

(* ---------------------------------------------------------------- the check separates *)
Definition ex_sweep : stmt := ForSlots (Seq (Eval Cur) (If (FitLt Cur Best) (Seq (CopyPos Best Cur) (CopyFit Best Cur)) Skip)).
Definition ex_trial (accept : stmt) : stmt :=
  ForSlots (Seq (NewTrial Cur) (Seq (Havoc InPlace Tr) (Seq (Clip Tr) (Seq (Eval Tr) accept)))).
Definition ex_prog (upd : stmt) : stmt := Seq ex_sweep (Repeat (Seq upd (Seq ClipAll (Seq ex_sweep Dump)))).

Example C02_check_separates :
  (* greedy trial replacement: accepted *)
  c02_check (ex_prog (ex_trial (If (FitLt Tr Cur) (Seq (CopyPos Cur Tr) (CopyFit Cur Tr)) Skip))) = true /\
  (* trial evaluated without clipping (HS before its repair): rejected *)
  c02_check (ex_prog (ForSlots (Seq (NewTrial Cur) (Seq (Havoc InPlace Tr) (Seq (Eval Tr)
                        (If (FitLt Tr Cur) (Seq (CopyPos Cur Tr) (CopyFit Cur Tr)) Skip)))))) = false /\
  (* inverted acceptance test: rejected *)
  c02_check (ex_prog (ex_trial (If (FitLt Cur Tr) (Seq (CopyPos Cur Tr) (CopyFit Cur Tr)) Skip))) = false /\
  (* position copied without the fitness: rejected *)
  c02_check (ex_prog (ex_trial (If (FitLt Tr Cur) (CopyPos Cur Tr) Skip))) = false /\
  (* best updated on the inverted test in the sweep: rejected *)
  c02_check (Seq (ForSlots (Seq (Eval Cur) (If (FitLt Best Cur) (Seq (CopyPos Best Cur) (CopyFit Best Cur)) Skip))) Dump) = false /\
  (* swap of the positions only (BHA): rejected *)
  c02_check (ex_prog (ForSlots (Seq (Havoc InPlace Cur) (Seq (Clip Cur) (Seq (Eval Cur)
                        (If (FitLt Cur Best) (SwapPos Cur Best) Skip)))))) = false /\
  (* record written before the closing sweep: rejected *)
  c02_check (Seq ex_sweep (Repeat (Seq (ex_trial (If (FitLt Tr Cur) (Seq (CopyPos Cur Tr) (CopyFit Cur Tr)) Skip))
                                       (Seq ClipAll (Seq Dump ex_sweep))))) = false.
Proof. split; [vm_compute; reflexivity|]. split; [vm_compute; reflexivity|]. split; [vm_compute; reflexivity|].
  split; [vm_compute; reflexivity|]. split; [vm_compute; reflexivity|]. split; vm_compute; reflexivity. Qed.

(* ---------------------------------------------------------------- non-vacuity *)
Definition ex_lbs : list Z := [0%Z].
Definition ex_ubs : list Z := [10%Z].
Definition ex_f (c : contents) : Z := match c with [[Some k]] => k | _ => 0%Z end.
Definition ex_zero : contents := [[Some 0%Z]].
Definition ex_ag (k : Z) (i : nat) : agent := {| apos := [[Some k]]; aid := i; afit := KMAX |}.
Definition ex_x0 : st :=
  {| pop := [ex_ag 3 0; ex_ag 7 1]; best := {| apos := ex_zero; aid := 2; afit := KMAX |};
     tr := {| apos := ex_zero; aid := 3; afit := KMAX |}; sh := []; loc := [ex_zero; ex_zero];
     tmp := 0%Z; idx := []; next := 4; hyp := []; tv := []; btv := ex_zero |}.

Lemma ex_init : c02_init ex_lbs ex_ubs ex_x0 /\ Forall2 (fun l h => kle l h = true) ex_lbs ex_ubs.
Proof.
  split; [|repeat constructor]. constructor; simpl.
  - intros ag [<-|[<-|[]]]; split; reflexivity.
  - repeat split; reflexivity.
  - split; reflexivity.
  - intros ag [].
Qed.

(* PSO, one iteration: agents move to 12 (clipped to 10) and to -5 (clipped to 0); the record holds best = (0, 0) *)
Definition ex_oracle_pso : list answer := [ACont [[Some 12%Z]]; ACont [[Some (-5)%Z]]].
Example C02_nonvacuous_PSO :
  c02_check prog_PSO = true /\ c02_init ex_lbs ex_ubs ex_x0 /\
  exists x' evs, run ex_lbs ex_ubs ex_f bhk 1 okc_std prog_PSO ex_oracle_pso ex_x0 = Some (x', evs, []) /\
    eval_vals evs = [3%Z; 7%Z; 10%Z; 0%Z] /\ apos (best x') = [[Some 0%Z]] /\ afit (best x') = 0%Z.
Proof.
  split; [vm_compute; reflexivity|split; [apply ex_init|]].
  eexists; eexists. split; [vm_compute; reflexivity|]. split; [vm_compute; reflexivity|]. split; vm_compute; reflexivity.
Qed.

(* ABC, one iteration: employee trials 2 (accepted into slot 0) and 9 (rejected), no onlooker round, no scout *)
Definition ex_oracle_abc : list answer :=
  [ANat 1; ACont [[Some 2%Z]]; ANat 0; ACont [[Some 9%Z]]; ANat 0; ABool false].
Example C02_nonvacuous_ABC :
  c02_check prog_ABC = true /\
  exists x' evs, run ex_lbs ex_ubs ex_f bhk 1 okc_std prog_ABC ex_oracle_abc ex_x0 = Some (x', evs, []) /\
    eval_vals evs = [3%Z; 7%Z; 2%Z; 9%Z; 2%Z; 7%Z] /\ apos (best x') = [[Some 2%Z]] /\ afit (best x') = 2%Z.
Proof.
  split; [vm_compute; reflexivity|].
  eexists; eexists. split; [vm_compute; reflexivity|]. split; [vm_compute; reflexivity|]. split; vm_compute; reflexivity.
Qed.

(* the sentinel corner (finding n) is real: with an objective that returns FLOAT_MAX everywhere the best agent
   is never updated -- its position stays the placeholder, which is not an evaluated argument *)
Example C02_sentinel_corner_witness :
  exists x' evs, run ex_lbs ex_ubs (fun _ => KMAX) bhk 1 okc_std prog_PSO [ACont [[Some 12%Z]]; ACont [[Some 4%Z]]] ex_x0 = Some (x', evs, []) /\
    afit (best x') = KMAX /\ apos (best x') = ex_zero /\ ~ In ex_zero (eval_args evs) /\ dump_ok x' evs.
Proof.
  eexists; eexists. split; [vm_compute; reflexivity|]. split; [reflexivity|split; [reflexivity|split]].
  - vm_compute. intros [H|[H|[H|[H|[]]]]]; discriminate.
  - split; [|split].
    + intros c v Hin. vm_compute in Hin. repeat (destruct Hin as [Hin|Hin]; [try discriminate; injection Hin as _ <-; reflexivity|]). destruct Hin.
    + right. reflexivity.
    + reflexivity.
Qed.
