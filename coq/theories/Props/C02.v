(* C02 -- the reported best is the best point actually evaluated, with its true fitness.
   Property theorems only; the development is Analysis/BestMin.v (abstract domain, decidable check) and
   Analysis/BestMinSound.v (soundness through the generic abstract interpreter Analysis/AbsInt.v) over the
   semantics Model/IRSem.v of the regenerated programs Gen/Programs.v.  The per-program obligations
   c02_check prog_X = true  are evaluated by the driver at check time on the programs regenerated from the
   current source.

   Reading guide.  [dump_ok y h]  (Analysis/BestMinSound.v) says about a state y and the events h before it:
     (1) afit (best y) <= v for every  EvEval _ v  in h            (numeric order on float keys),
     (2) EvEval (apos (best y)) (afit (best y)) is in h,  OR  afit (best y) = KMAX (the FLOAT_MAX sentinel),
     (3) afit (best y) <= KMAX.
   The second disjunct of (2) is the sentinel corner (DESIGN finding n): the best agent starts as a placeholder
   with fitness FLOAT_MAX and is replaced only by a strictly smaller fitness, so as long as no evaluation is
   numerically below FLOAT_MAX it is never updated and its position is the initial array.  As soon as one
   evaluation is below the sentinel, (1) forces the first disjunct ([C02_best_is_an_evaluated_argmin]).

   Second part of the file (HISTORIES OF TASKS ON ONE SPACE): the same for a task started in any start state, w.r.t.
   the best agent it inherited ([dump_ok_from], [C02_best_is_min_from]), and for every finite history of tasks on one
   space ([C02_task_histories], [C02_task_histories_spelled_out], [C02_task_histories_on_a_fresh_space]); the
   per-program obligation for histories is  c02r_check prog_X = true  (it implies c02_check prog_X = true). *)
From Coq Require Import String ZArith List Bool Lia.
From OV Require Import Base.FloatKey Model.Clip Model.IR Model.IRSem Analysis.AbsInt Analysis.BestMin Analysis.BestMinSound Gen.Programs.
Import ListNotations.
Open Scope list_scope.

Theorem C02_dump_ok_means : forall y h, dump_ok y h <->
  (forall c v, In (EvEval c v) h -> kle (afit (best y)) v = true) /\
  (In (EvEval (apos (best y)) (afit (best y))) h \/ afit (best y) = KMAX) /\
  kle (afit (best y)) KMAX = true.
Proof. intros; reflexivity. Qed.

(* For every IR program that passes the (decidable) check, every box with lb <= ub, every objective (a function
   into non-NaN keys), every iteration count, every oracle (every sequence of draws and NaN-free shape-preserving
   arithmetic results), every fresh initial space, with the hook an observer:
   at every history record (EvDump) and at return, the best agent satisfies [dump_ok] w.r.t. all evaluations
   made before; and every evaluation event carries the objective's value at its argument. *)
Theorem C02_best_is_min :
  forall (p : stmt), c02_check p = true ->
  forall (lbs ubs : list Z) (f : contents -> Z) (n_iter : nat),
    Forall2 (fun l h => kle l h = true) lbs ubs ->
  forall o x0 x' evs o', c02_init lbs ubs x0 ->
    run lbs ubs f bhk n_iter okc_std p o x0 = Some (x', evs, o') ->
    (forall h1 y h2, evs = h1 ++ EvDump y :: h2 -> dump_ok y h1) /\
    dump_ok x' evs /\
    (forall c v, In (EvEval c v) evs -> v = f c).
Proof. intros p Hc lbs ubs f n_iter Hb. exact (c02_of_check lbs ubs f n_iter Hb p Hc). Qed.

(* once some evaluation is below the sentinel: (best.position, best.fit) is one of the earlier evaluations,
   best.fit is attained and is a lower bound of all evaluation values so far (= their minimum),
   and best.fit = f(best.position) *)
Theorem C02_best_is_an_evaluated_argmin :
  forall y h, dump_ok y h -> (exists c v, In (EvEval c v) h /\ klt v KMAX = true) ->
  In (EvEval (apos (best y)) (afit (best y))) h.
Proof. exact dump_ok_argmin. Qed.

Theorem C02_best_fit_is_the_minimum :
  forall y h, dump_ok y h -> (exists c v, In (EvEval c v) h /\ klt v KMAX = true) ->
  In (afit (best y)) (eval_vals h) /\ forall v, In v (eval_vals h) -> kle (afit (best y)) v = true.
Proof. exact dump_ok_min. Qed.

Theorem C02_best_fit_is_true :
  forall (f : contents -> Z) y h, dump_ok y h -> (forall c v, In (EvEval c v) h -> v = f c) ->
  (exists c v, In (EvEval c v) h /\ klt v KMAX = true) -> afit (best y) = f (apos (best y)).
Proof. exact dump_ok_true_fit. Qed.

(* consequently the recorded best fitness never increases from one record to the next, nor to the return *)
Theorem C02_best_fitness_never_increases :
  forall evs, (forall h1 y h2, evs = h1 ++ EvDump y :: h2 -> dump_ok y h1) ->
  forall h1 y1 h2 y2 h3, evs = h1 ++ EvDump y1 :: h2 ++ EvDump y2 :: h3 ->
  kle (afit (best y2)) (afit (best y1)) = true.
Proof. exact dumps_monotone. Qed.

Theorem C02_returned_best_not_above_records :
  forall evs x', dump_ok x' evs -> (forall h1 y h2, evs = h1 ++ EvDump y :: h2 -> dump_ok y h1) ->
  forall h1 y1 h2, evs = h1 ++ EvDump y1 :: h2 -> kle (afit (best x')) (afit (best y1)) = true.
Proof. exact final_monotone. Qed.

(* ---------------------------------------------------------------- the check separates *)
Definition ex_sweep : stmt := ForSlots (Seq (Eval Cur) (If (FitLt Cur Best) (Seq (CopyPos Best Cur) (CopyFit Best Cur)) Skip)).
Definition ex_trial (accept : stmt) : stmt :=
  ForSlots (Seq (NewTrial Cur) (Seq (Havoc InPlace Tr) (Seq (Clip Tr) (Seq (Eval Tr) accept)))).
Definition ex_prog (upd : stmt) : stmt := Seq ex_sweep (Repeat (Seq upd (Seq ClipAll (Seq ex_sweep Dump)))).

Example C02_check_separates :
  (* greedy trial replacement: accepted *)
  c02_check (ex_prog (ex_trial (If (FitLt Tr Cur) (Seq (CopyPos Cur Tr) (CopyFit Cur Tr)) Skip))) = true /\
  (* trial evaluated without clipping (HS before its repair): rejected *)
  c02_check (ex_prog (ForSlots (Seq (NewTrial Cur) (Seq (Havoc InPlace Tr) (Seq (Eval Tr)
                        (If (FitLt Tr Cur) (Seq (CopyPos Cur Tr) (CopyFit Cur Tr)) Skip)))))) = false /\
  (* inverted acceptance test: rejected *)
  c02_check (ex_prog (ex_trial (If (FitLt Cur Tr) (Seq (CopyPos Cur Tr) (CopyFit Cur Tr)) Skip))) = false /\
  (* position copied without the fitness: rejected *)
  c02_check (ex_prog (ex_trial (If (FitLt Tr Cur) (CopyPos Cur Tr) Skip))) = false /\
  (* best updated on the inverted test in the sweep: rejected *)
  c02_check (Seq (ForSlots (Seq (Eval Cur) (If (FitLt Best Cur) (Seq (CopyPos Best Cur) (CopyFit Best Cur)) Skip))) Dump) = false /\
  (* swap of the positions only (BHA): rejected *)
  c02_check (ex_prog (ForSlots (Seq (Havoc InPlace Cur) (Seq (Clip Cur) (Seq (Eval Cur)
                        (If (FitLt Cur Best) (SwapPos Cur Best) Skip)))))) = false /\
  (* record written before the closing sweep: rejected *)
  c02_check (Seq ex_sweep (Repeat (Seq (ex_trial (If (FitLt Tr Cur) (Seq (CopyPos Cur Tr) (CopyFit Cur Tr)) Skip))
                                       (Seq ClipAll (Seq Dump ex_sweep))))) = false.
Proof. split; [vm_compute; reflexivity|]. split; [vm_compute; reflexivity|]. split; [vm_compute; reflexivity|].
  split; [vm_compute; reflexivity|]. split; [vm_compute; reflexivity|]. split; vm_compute; reflexivity. Qed.

(* ---------------------------------------------------------------- non-vacuity *)
Definition ex_lbs : list Z := [0%Z].
Definition ex_ubs : list Z := [10%Z].
Definition ex_f (c : contents) : Z := match c with [[Some k]] => k | _ => 0%Z end.
Definition ex_zero : contents := [[Some 0%Z]].
Definition ex_ag (k : Z) (i : nat) : agent := {| apos := [[Some k]]; aid := i; afit := KMAX |}.
Definition ex_x0 : st :=
  {| pop := [ex_ag 3 0; ex_ag 7 1]; best := {| apos := ex_zero; aid := 2; afit := KMAX |};
     tr := {| apos := ex_zero; aid := 3; afit := KMAX |}; sh := []; loc := [ex_zero; ex_zero];
     tmp := 0%Z; idx := []; next := 4; hyp := []; tv := []; btv := ex_zero |}.

Lemma ex_init : c02_init ex_lbs ex_ubs ex_x0 /\ Forall2 (fun l h => kle l h = true) ex_lbs ex_ubs.
Proof.
  split; [|repeat constructor]. constructor; simpl.
  - intros ag [<-|[<-|[]]]; split; reflexivity.
  - repeat split; reflexivity.
  - split; reflexivity.
  - intros ag [].
Qed.

(* PSO, one iteration: agents move to 12 (clipped to 10) and to -5 (clipped to 0); the record holds best = (0, 0) *)
Definition ex_oracle_pso : list answer := [ACont [[Some 12%Z]]; ACont [[Some (-5)%Z]]].
Example C02_nonvacuous_PSO :
  c02_check prog_PSO = true /\ c02_init ex_lbs ex_ubs ex_x0 /\
  exists x' evs, run ex_lbs ex_ubs ex_f bhk 1 okc_std prog_PSO ex_oracle_pso ex_x0 = Some (x', evs, []) /\
    eval_vals evs = [3%Z; 7%Z; 10%Z; 0%Z] /\ apos (best x') = [[Some 0%Z]] /\ afit (best x') = 0%Z.
Proof.
  split; [vm_compute; reflexivity|split; [apply ex_init|]].
  eexists; eexists. split; [vm_compute; reflexivity|]. split; [vm_compute; reflexivity|]. split; vm_compute; reflexivity.
Qed.

(* ABC, one iteration: employee trials 2 (accepted into slot 0) and 9 (rejected), no onlooker round, no scout *)
Definition ex_oracle_abc : list answer :=
  [ANat 1; ACont [[Some 2%Z]]; ANat 0; ACont [[Some 9%Z]]; ANat 0; ABool false].
Example C02_nonvacuous_ABC :
  c02_check prog_ABC = true /\
  exists x' evs, run ex_lbs ex_ubs ex_f bhk 1 okc_std prog_ABC ex_oracle_abc ex_x0 = Some (x', evs, []) /\
    eval_vals evs = [3%Z; 7%Z; 2%Z; 9%Z; 2%Z; 7%Z] /\ apos (best x') = [[Some 2%Z]] /\ afit (best x') = 2%Z.
Proof.
  split; [vm_compute; reflexivity|].
  eexists; eexists. split; [vm_compute; reflexivity|]. split; [vm_compute; reflexivity|]. split; vm_compute; reflexivity.
Qed.

(* the sentinel corner (finding n) is real: with an objective that returns FLOAT_MAX everywhere the best agent
   is never updated -- its position stays the placeholder, which is not an evaluated argument *)
Example C02_sentinel_corner_witness :
  exists x' evs, run ex_lbs ex_ubs (fun _ => KMAX) bhk 1 okc_std prog_PSO [ACont [[Some 12%Z]]; ACont [[Some 4%Z]]] ex_x0 = Some (x', evs, []) /\
    afit (best x') = KMAX /\ apos (best x') = ex_zero /\ ~ In ex_zero (eval_args evs) /\ dump_ok x' evs.
Proof.
  eexists; eexists. split; [vm_compute; reflexivity|]. split; [reflexivity|split; [reflexivity|split]].
  - vm_compute. intros [H|[H|[H|[H|[]]]]]; discriminate.
  - split; [|split].
    + intros c v Hin. vm_compute in Hin. repeat (destruct Hin as [Hin|Hin]; [try discriminate; injection Hin as _ <-; reflexivity|]). destruct Hin.
    + right. reflexivity.
    + reflexivity.
Qed.

(* ================================================================ HISTORIES OF TASKS ON ONE SPACE
   The theorems above speak about ONE task on a freshly built space.  A second task on the same space inherits the
   agents (positions AND fitnesses) and the best agent of the first; run() re-creates only its local arrays (PSO
   family).  The statements below are about a task started in ANY start state [c02_start]: positions clipped and no
   agent's fitness below the best agent's (on a fresh space every fitness is the sentinel; a program that passes
   [c02r_check] = [c02_check] + "ends with every position clipped and no agent below the best agent" re-establishes it),
   w.r.t. the best agent B0 the task starts with, and about every finite history of such tasks.

   [dump_ok_from B0 y h] says about a state y and the events h OF THE TASK before it:
     (1) afit (best y) <= v for every  EvEval _ v  in h,
     (2) EvEval (apos (best y)) (afit (best y)) is in h,  OR  best y = B0 (the inherited best agent, untouched),
     (3) afit (best y) <= afit B0.
   With B0 the placeholder of a fresh space (fitness KMAX) this is [dump_ok]. *)
Theorem C02_dump_ok_from_means : forall B0 y h, dump_ok_from B0 y h <->
  (forall c v, In (EvEval c v) h -> kle (afit (best y)) v = true) /\
  (In (EvEval (apos (best y)) (afit (best y))) h \/ best y = B0) /\
  kle (afit (best y)) (afit B0) = true.
Proof. intros; reflexivity. Qed.

Theorem C02_start_means : forall lbs ubs x, c02_start lbs ubs x <->
  (forall ag, In ag (pop x) -> feasible lbs ubs (apos ag) = true /\ kle (afit (best x)) (afit ag) = true) /\
  Feasible.wf lbs (apos (best x)) /\ Feasible.wf lbs (apos (tr x)) /\ (forall ag, In ag (sh x) -> Feasible.wf lbs (apos ag)).
Proof.
  intros. split.
  - intros [H1 H2 H3 H4]. auto.
  - intros (H1 & H2 & H3 & H4). constructor; assumption.
Qed.

Theorem C02_fresh_space_is_a_start : forall lbs ubs x, c02_init lbs ubs x -> c02_start lbs ubs x.
Proof. exact c02_init_start. Qed.

Theorem C02_on_a_fresh_space_from_is_dump_ok : forall B0 y h, afit B0 = KMAX -> dump_ok_from B0 y h -> dump_ok y h.
Proof. exact dump_ok_from_fresh. Qed.

Theorem C02_restart_check_implies_check : forall p, c02r_check p = true -> c02_check p = true.
Proof. exact c02r_check_c02. Qed.

(* ONE TASK, started in any start state x0 (B0 := best x0): at every record and at return the best agent satisfies
   [dump_ok_from (best x0)] w.r.t. the evaluations of this task; evaluations are truthful; with the end-of-task
   condition of [c02r_check] the task ends in a start state again. *)
Theorem C02_best_is_min_from :
  forall (p : stmt), c02_check p = true ->
  forall (lbs ubs : list Z) (f : contents -> Z) (n_iter : nat),
    Forall2 (fun l h => kle l h = true) lbs ubs ->
  forall o x0 x' evs o', c02_start lbs ubs x0 ->
    run lbs ubs f bhk n_iter okc_std p o x0 = Some (x', evs, o') ->
    (forall h1 y h2, evs = h1 ++ EvDump y :: h2 -> dump_ok_from (best x0) y h1) /\
    dump_ok_from (best x0) x' evs /\
    (forall c v, In (EvEval c v) evs -> v = f c).
Proof. intros p Hc lbs ubs f n_iter Hb. exact (c02_of_check_from lbs ubs f n_iter Hb p Hc). Qed.

Theorem C02_task_ends_in_a_start :
  forall (p : stmt), c02r_check p = true ->
  forall (lbs ubs : list Z) (f : contents -> Z) (n_iter : nat),
    Forall2 (fun l h => kle l h = true) lbs ubs ->
  forall o x0 x' evs o', c02_start lbs ubs x0 ->
    run lbs ubs f bhk n_iter okc_std p o x0 = Some (x', evs, o') ->
    c02_start lbs ubs x'.
Proof.
  intros p Hc lbs ubs f n_iter Hb o x0 x' evs o' H0 Hr.
  exact (proj2 (proj2 (proj2 (c02r_of_check_from lbs ubs f n_iter Hb p Hc o x0 x' evs o' H0 Hr)))).
Qed.

(* once the best agent is strictly below the inherited one it is an evaluated pair OF THIS TASK, its fitness is the
   objective's value at its position, and it is the minimum of the values returned in this task *)
Theorem C02_from_best_is_an_evaluated_argmin :
  forall B0 y h, dump_ok_from B0 y h -> klt (afit (best y)) (afit B0) = true ->
  In (EvEval (apos (best y)) (afit (best y))) h.
Proof. exact dump_ok_from_argmin. Qed.

Theorem C02_from_best_is_an_evaluated_argmin_ev :
  forall B0 y h, dump_ok_from B0 y h -> (exists c v, In (EvEval c v) h /\ klt v (afit B0) = true) ->
  In (EvEval (apos (best y)) (afit (best y))) h.
Proof. exact dump_ok_from_argmin_ev. Qed.

(* HISTORIES.  [tasks02 lbs ubs f n_iter ps x0 segs x']: the programs ps are run one after the other on one space,
   each task started on [with_loc x lc] (its local arrays re-created, any contents), everything else inherited;
   segs records, task by task, (state the task started in, its events, state it ended in); [hist segs] is the
   concatenation of the events of all tasks.

   For every finite list of programs passing [c02r_check], every box, objective, iteration count, oracles, every
   start state x0:
   (a) every task satisfies the one-task claim w.r.t. the best agent THAT TASK started with, and starts and ends in
       a start state;
   (b) the whole history satisfies the one-task claim w.r.t. the best agent the HISTORY started with: at every record
       of every task and at the end, the best fitness is <= every value returned so far in the whole history and
       <= the initial best fitness, and the best agent is an evaluated (argument, value) pair of some task so far or
       still the best agent the history started with;
   (c) every evaluation event of the history carries the objective's value at its argument. *)
Theorem C02_task_histories :
  forall (ps : list stmt), Forall (fun p => c02r_check p = true) ps ->
  forall (lbs ubs : list Z) (f : contents -> Z) (n_iter : nat),
    Forall2 (fun l h => kle l h = true) lbs ubs ->
  forall x0 segs x', c02_start lbs ubs x0 -> tasks02 lbs ubs f n_iter ps x0 segs x' ->
    Forall (task_ok lbs ubs f) segs /\
    (forall h1 y h2, hist segs = h1 ++ EvDump y :: h2 -> dump_ok_from (best x0) y h1) /\
    dump_ok_from (best x0) x' (hist segs) /\
    (forall c v, In (EvEval c v) (hist segs) -> v = f c) /\
    c02_start lbs ubs x'.
Proof.
  intros ps Hps lbs ubs f n_iter Hb x0 segs x' H0 Ht.
  split; [exact (proj1 (c02_tasks_each lbs ubs f n_iter Hb ps Hps x0 segs x' H0 Ht))|].
  exact (c02_tasks lbs ubs f n_iter Hb ps Hps x0 segs x' H0 Ht).
Qed.

Theorem C02_task_ok_means : forall lbs ubs f xs evs xe, task_ok lbs ubs f (xs, evs, xe) <->
  c02_start lbs ubs xs /\
  (forall h1 y h2, evs = h1 ++ EvDump y :: h2 -> dump_ok_from (best xs) y h1) /\
  dump_ok_from (best xs) xe evs /\
  (forall c v, In (EvEval c v) evs -> v = f c) /\
  c02_start lbs ubs xe.
Proof. intros; reflexivity. Qed.

(* the same, spelled out *)
Theorem C02_task_histories_spelled_out :
  forall (ps : list stmt), Forall (fun p => c02r_check p = true) ps ->
  forall (lbs ubs : list Z) (f : contents -> Z) (n_iter : nat),
    Forall2 (fun l h => kle l h = true) lbs ubs ->
  forall x0 segs x', c02_start lbs ubs x0 -> tasks02 lbs ubs f n_iter ps x0 segs x' ->
    (* every task, started in xs with the inherited best agent B0 = best xs, ended in xe, with events evs *)
    (forall xs evs xe, In (xs, evs, xe) segs ->
       (* no agent starts below the inherited best agent *)
       (forall ag, In ag (pop xs) -> kle (afit (best xs)) (afit ag) = true) /\
       (* at every record y of the task, h1 the events of the task before it *)
       (forall h1 y h2, evs = h1 ++ EvDump y :: h2 ->
          (forall c v, In (EvEval c v) h1 -> kle (afit (best y)) v = true) /\
          kle (afit (best y)) (afit (best xs)) = true /\
          (In (EvEval (apos (best y)) (afit (best y))) h1 \/
           (apos (best y) = apos (best xs) /\ afit (best y) = afit (best xs)))) /\
       (* and when it returns *)
       (forall c v, In (EvEval c v) evs -> kle (afit (best xe)) v = true) /\
       kle (afit (best xe)) (afit (best xs)) = true /\
       (In (EvEval (apos (best xe)) (afit (best xe))) evs \/
        (apos (best xe) = apos (best xs) /\ afit (best xe) = afit (best xs)))) /\
    (* the whole history: the recorded best fitness never increases, across tasks *)
    (forall h1 y1 h2 y2 h3, hist segs = h1 ++ EvDump y1 :: h2 ++ EvDump y2 :: h3 ->
       kle (afit (best y2)) (afit (best y1)) = true) /\
    (forall h1 y1 h2, hist segs = h1 ++ EvDump y1 :: h2 -> kle (afit (best x')) (afit (best y1)) = true) /\
    kle (afit (best x')) (afit (best x0)) = true /\
    (* at the end the best agent is an evaluated pair of SOME task of the history, or still the initial one *)
    (In (EvEval (apos (best x')) (afit (best x'))) (hist segs) \/ best x' = best x0) /\
    (* and its fitness is a lower bound of everything any task of the history evaluated; evaluations are truthful *)
    (forall c v, In (EvEval c v) (hist segs) -> kle (afit (best x')) v = true /\ v = f c).
Proof.
  intros ps Hps lbs ubs f n_iter Hb x0 segs x' H0 Ht.
  destruct (C02_task_histories ps Hps lbs ubs f n_iter Hb x0 segs x' H0 Ht) as (A & B1 & B2 & B3 & _).
  split; [|split; [|split; [|split; [|split]]]].
  - intros xs evs xe Hin. rewrite Forall_forall in A. destruct (A _ Hin) as (T1 & T2 & T3 & _).
    unfold seg_start, seg_evs, seg_end in *; simpl in *.
    assert (Hw : forall y h, dump_ok_from (best xs) y h ->
              (forall c v, In (EvEval c v) h -> kle (afit (best y)) v = true) /\
              kle (afit (best y)) (afit (best xs)) = true /\
              (In (EvEval (apos (best y)) (afit (best y))) h \/
               (apos (best y) = apos (best xs) /\ afit (best y) = afit (best xs)))).
    { intros y h (D1 & D2 & D3). split; [exact D1|split; [exact D3|]].
      destruct D2 as [D2|D2]; [left; exact D2|right; rewrite D2; split; reflexivity]. }
    split; [intros ag Hag; exact (proj2 (s_pop _ _ _ T1 ag Hag))|].
    split; [intros h1 y h2 E; apply Hw; eapply T2; exact E|]. apply Hw. exact T3.
  - exact (dumps_monotone_from (best x0) (hist segs) B1).
  - exact (final_monotone_from (best x0) (hist segs) x' B2 B1).
  - exact (proj2 (proj2 B2)).
  - exact (proj1 (proj2 B2)).
  - intros c v Hin. split; [exact (proj1 B2 c v Hin)|exact (B3 c v Hin)].
Qed.

(* a history that starts on a FRESH space: the original claim [dump_ok] (sentinel form) holds at every record of every
   task and at the end w.r.t. the evaluations of the WHOLE history, so C02_best_is_an_evaluated_argmin,
   C02_best_fit_is_the_minimum, C02_best_fit_is_true, C02_best_fitness_never_increases and
   C02_returned_best_not_above_records apply to histories verbatim *)
Theorem C02_task_histories_on_a_fresh_space :
  forall (ps : list stmt), Forall (fun p => c02r_check p = true) ps ->
  forall (lbs ubs : list Z) (f : contents -> Z) (n_iter : nat),
    Forall2 (fun l h => kle l h = true) lbs ubs ->
  forall x0 segs x', c02_init lbs ubs x0 -> tasks02 lbs ubs f n_iter ps x0 segs x' ->
    (forall h1 y h2, hist segs = h1 ++ EvDump y :: h2 -> dump_ok y h1) /\
    dump_ok x' (hist segs) /\
    (forall c v, In (EvEval c v) (hist segs) -> v = f c).
Proof.
  intros ps Hps lbs ubs f n_iter Hb x0 segs x' H0 Ht.
  destruct (C02_task_histories ps Hps lbs ubs f n_iter Hb x0 segs x' (c02_init_start _ _ _ H0) Ht) as (_ & B1 & B2 & B3 & _).
  pose proof (proj1 (i_best _ _ _ H0)) as HB.
  split; [|split; [|exact B3]].
  - intros h1 y h2 E. eapply dump_ok_from_fresh; [exact HB|eapply B1; exact E].
  - eapply dump_ok_from_fresh; eassumption.
Qed.

(* the histories of C01_task_histories (Analysis/FeasibleRelSound.v: [tasks], local arrays re-created as placeholders
   out of INIT) are histories in the sense above, with the same concatenated events: C01 and C02 speak about the
   same runs *)
From OV Require Analysis.FeasibleRelSound.

Lemma C01_histories_are_C02_histories :
  forall lbs ubs f n_iter INIT ps x0 evs x',
    FeasibleRelSound.tasks lbs ubs f n_iter INIT ps x0 evs x' ->
    exists segs, tasks02 lbs ubs f n_iter ps x0 segs x' /\ hist segs = evs.
Proof.
  intros lbs ubs f n_iter INIT ps x0 evs x' Ht.
  induction Ht as [x|p ps x lc o x1 evs1 o1 evs2 x2 Hlc Hrun Ht (segs & IH1 & IH2)].
  - exists []. split; [constructor|reflexivity].
  - exists ((x, evs1, x1) :: segs). split.
    + econstructor; [exact Hrun|exact IH1].
    + change (hist ((x, evs1, x1) :: segs)) with (evs1 ++ hist segs). rewrite IH2. reflexivity.
Qed.

Theorem C02_on_C01_histories :
  forall (ps : list stmt), Forall (fun p => c02r_check p = true) ps ->
  forall (lbs ubs : list Z) (f : contents -> Z) (n_iter : nat) (INIT : list contents),
    Forall2 (fun l h => kle l h = true) lbs ubs ->
  forall x0 evs x', c02_start lbs ubs x0 -> FeasibleRelSound.tasks lbs ubs f n_iter INIT ps x0 evs x' ->
    (forall h1 y h2, evs = h1 ++ EvDump y :: h2 -> dump_ok_from (best x0) y h1) /\
    dump_ok_from (best x0) x' evs /\
    (forall c v, In (EvEval c v) evs -> v = f c) /\
    c02_start lbs ubs x'.
Proof.
  intros ps Hps lbs ubs f n_iter INIT Hb x0 evs x' H0 Ht.
  destruct (C01_histories_are_C02_histories _ _ _ _ _ _ _ _ _ Ht) as (segs & Ht2 & <-).
  exact (proj2 (C02_task_histories ps Hps lbs ubs f n_iter Hb x0 segs x' H0 Ht2)).
Qed.

(* ---------------------------------------------------------------- the end-of-task condition separates *)
Definition ex_greedy : stmt := ex_prog (ex_trial (If (FitLt Tr Cur) (Seq (CopyPos Cur Tr) (CopyFit Cur Tr)) Skip)).
Example C02_restart_check_separates :
  (* greedy trial replacement: a task that can be followed by another *)
  c02r_check ex_greedy = true /\
  (* ... followed by a move of the agents that is not clipped: fine for this task, but the next one would start
     by evaluating unclipped positions *)
  c02_check (Seq ex_greedy (ForSlots (Havoc InPlace Cur))) = true /\
  c02r_check (Seq ex_greedy (ForSlots (Havoc InPlace Cur))) = false /\
  (* ... followed by a re-evaluation that the best agent does not see: an agent may end below the best agent, and the
     next task's "no agent below the inherited best" would fail *)
  c02r_check (Seq ex_greedy (ForSlots (Seq (Havoc InPlace Cur) (Seq (Clip Cur) (Eval Cur))))) = false /\
  (* moving and clipping one indexed slot (WCA's raining process) keeps the other slots clipped *)
  c02r_check (Seq ex_greedy (RepeatAny (Seq (ChooseIdx 1) (Seq (Havoc Fresh (Slot 1)) (Clip (Slot 1)))))) = true.
Proof. repeat split; vm_compute; reflexivity. Qed.

(* ---------------------------------------------------------------- non-vacuity: two PSO tasks on one space *)
Definition ex_oracle_pso2 : list answer := [ACont [[Some 5%Z]]; ACont [[Some 1%Z]]].
Example C02_nonvacuous_two_tasks :
  Forall (fun p => c02r_check p = true) [prog_PSO; prog_PSO] /\ c02_start ex_lbs ex_ubs ex_x0 /\
  exists x1 evs1 x2 evs2,
    tasks02 ex_lbs ex_ubs ex_f 1 [prog_PSO; prog_PSO] ex_x0 [(ex_x0, evs1, x1); (x1, evs2, x2)] x2 /\
    eval_vals evs1 = [3%Z; 7%Z; 10%Z; 0%Z] /\ afit (best x1) = 0%Z /\
    (* the second task starts with the fitnesses 3 and 0 (PSO keeps the best value seen at a slot) and the best
       agent (0, 0) of the first: nothing is below the inherited best *)
    map afit (pop x1) = [3%Z; 0%Z] /\
    eval_vals evs2 = [10%Z; 0%Z; 5%Z; 1%Z] /\ apos (best x2) = [[Some 0%Z]] /\ afit (best x2) = 0%Z.
Proof.
  split; [repeat constructor; vm_compute; reflexivity|]. split; [apply c02_init_start, ex_init|].
  eexists; eexists; eexists; eexists. split.
  - eapply tasks02_cons with (lc := [ex_zero; ex_zero]) (o := ex_oracle_pso); [vm_compute; reflexivity|].
    eapply tasks02_cons with (lc := [ex_zero; ex_zero]) (o := ex_oracle_pso2); [vm_compute; reflexivity|]. apply tasks02_nil.
  - repeat split; vm_compute; reflexivity.
Qed.

Print Assumptions C02_task_histories.
Print Assumptions C02_task_histories_spelled_out.
Print Assumptions C02_task_histories_on_a_fresh_space.
Print Assumptions C02_on_C01_histories.
Print Assumptions C02_best_is_min_from.
Print Assumptions C02_task_ends_in_a_start.
Print Assumptions C02_best_is_min.

(* ------------------------------------------------------------------ histories in full generality (Analysis/Tasks.v)
   Every task of the history with its OWN optimizer, objective, iteration count, local arrays and draw stream (observer
   hook).  The start condition [c02_start] does not mention the objective; each task satisfies the one-task claim for ITS
   objective w.r.t. the best agent it inherited (which may stem from another objective), and leaves a start state. *)
From OV Require Import Analysis.Tasks.

Definition c02_task_ok (t : task) : Prop := c02r_check (tp t) = true /\ thk t = bhk.

Theorem C02_task_histories_general :
  forall (lbs ubs : list Z), Forall2 (fun l h => kle l h = true) lbs ubs ->
  forall ts x0 rs x', Forall c02_task_ok ts -> c02_start lbs ubs x0 -> thist lbs ubs okc_std ts x0 rs x' ->
    Forall2 (fun t r => task_ok lbs ubs (tf t) r) ts rs /\ c02_start lbs ubs x'.
Proof.
  intros lbs ubs Hb ts x0 rs x' HQ H0 Ht.
  apply (thist_inv lbs ubs okc_std (c02_start lbs ubs) c02_task_ok (fun t r => task_ok lbs ubs (tf t) r)) with (x0 := x0); try assumption.
  - intros x lc H. apply c02_start_with_loc. exact H.
  - intros t xs x1 evs o1 [Hc Hh] HI Hr. rewrite Hh in Hr.
    destruct (c02r_of_check_from lbs ubs (tf t) (tn t) Hb (tp t) Hc (tor t) xs x1 evs o1 HI Hr) as (K1 & K2 & K3 & K4).
    split; [|exact K4]. split; [exact HI|split; [exact K1|split; [exact K2|split; [exact K3|exact K4]]]].
Qed.
