(* C10 -- a tree's position is the value of the expression it denotes.
   Property theorems only.  The items of Gen/NodeOps.v (EPSILON, N_ARGS_FUNCTION, the if/elif chain of
   node._evaluate with x = left child, y = right child) are regenerated from /repo on every check; the
   obligations on them are closed by computation / ring / field with the definedness side conditions kept;
   the theorems about the evaluator are instances of Model/NodeEval.v. *)
From Coq Require Import String.
From Coq Require Import Reals List ZArith Bool Lra.
From OV Require Import Base.RExprC10 Model.TreeDef Model.NodeEval Gen.NodeOps.
Import ListNotations.
Open Scope R_scope.

(* the protection constant, an exact rational *)
Definition eps : R := cst eps_num eps_den.

(* value of the chain branch taken for node name [name] when the left child is x and the right child is y *)
Definition op_den (name : string) (x y : R) : option R :=
  match lookup name chain with Some e => den e (env2 x y) | None => None end.

Ltac op_unfold :=
  unfold op_den;
  match goal with |- context [lookup ?n chain] =>
    let e := eval vm_compute in (lookup n chain) in change (lookup n chain) with e end;
  cbv iota beta.

Theorem C10_eps_value : eps = 1 / 10000000000 /\ 0 < eps.
Proof. split; [reflexivity | unfold eps, cst, eps_num, eps_den; lra]. Qed.

Ltac eps_norm := unfold eps, eps_num, eps_den in *.
Ltac doc_side :=
  try exact I; try apply Rabs_pos; try assumption;
  try (pose proof (proj2 C10_eps_value) as Heps; eps_norm;
       repeat match goal with |- context [Rabs ?x] => pose proof (Rabs_pos x); generalize dependent (Rabs x); intros end; lra).
Ltac op_some := op_unfold; apply den_of_dom_val; [cbn [dom val env2]; repeat split; doc_side | cbn [val env2]; eps_norm; doc_value].
Ltac op_none H := op_unfold; apply den_none; cbn [dom val env2]; eps_norm;
  let D := fresh in intros D; repeat match type of D with _ /\ _ => destruct D as [_ D] end; apply D; first [exact H | lra].

(* ---- the ten operators: the regenerated branch denotes the documented operator, for all real x y *)
Theorem C10_SUM : forall x y, op_den "SUM" x y = Some (x + y).
Proof. intros. op_some. Qed.

Theorem C10_SUB : forall x y, op_den "SUB" x y = Some (x - y).
Proof. intros. op_some. Qed.

Theorem C10_MUL : forall x y, op_den "MUL" x y = Some (x * y).
Proof. intros. op_some. Qed.

(* protected division: defined exactly where y + eps <> 0 (never Coq's x / 0 = 0) *)
Theorem C10_DIV : forall x y,
  (y + eps <> 0 -> op_den "DIV" x y = Some (x / (y + eps))) /\ (y + eps = 0 -> op_den "DIV" x y = None).
Proof.
  intros x y. split; intros H.
  - op_unfold. apply den_of_dom_val; [cbn [dom val env2]; repeat split; eps_norm; first [exact H | intros Q; apply H; lra] | cbn [val env2]; eps_norm; doc_value].
  - op_none H.
Qed.

Theorem C10_EXP : forall x y, op_den "EXP" x y = Some (exp x).
Proof. intros. op_some. Qed.

Theorem C10_SQRT : forall x y, 0 <= Rabs x /\ op_den "SQRT" x y = Some (sqrt (Rabs x)).
Proof. intros. split; [apply Rabs_pos | op_some]. Qed.

(* protected logarithm: its argument |x| + eps is positive, so it is defined everywhere *)
Theorem C10_LOG : forall x y, 0 < Rabs x + eps /\ op_den "LOG" x y = Some (ln (Rabs x + eps)).
Proof. intros. split; [apply doc_log_defined; apply C10_eps_value | op_some]. Qed.

Theorem C10_ABS : forall x y, op_den "ABS" x y = Some (Rabs x).
Proof. intros. op_some. Qed.

Theorem C10_SIN : forall x y, op_den "SIN" x y = Some (sin x).
Proof. intros. op_some. Qed.

Theorem C10_COS : forall x y, op_den "COS" x y = Some (cos x).
Proof. intros. op_some. Qed.

(* ---- the tables *)
Theorem C10_ten_operators : length n_args = 10%nat /\ NoDup (map fst n_args) /\ NoDup (map fst chain).
Proof. split; [reflexivity|]. split; apply nodup_str_spec; vm_compute; reflexivity. Qed.

Theorem C10_tables_same_keys : forall s, In s (map fst n_args) <-> In s (map fst chain).
Proof. apply same_keys_spec. vm_compute. reflexivity. Qed.

Theorem C10_arities :
  forall name ar, In (name, ar) n_args -> exists f, lookup name (doc_table eps) = Some (ar, f).
Proof.
  intros name ar H. unfold n_args in H. simpl in H.
  repeat (destruct H as [H|H]; [injection H as <- <-; eexists; reflexivity|]). contradiction.
Qed.

(* unary entries do not read y *)
Theorem C10_unary_ignore_y : forall name, In (name, 1%nat) n_args ->
  (exists e, lookup name chain = Some e /\ mentions e 1 = false) /\ forall x y y', op_den name x y = op_den name x y'.
Proof.
  intros name H. unfold n_args in H. simpl in H.
  repeat (destruct H as [H|H]; [first [discriminate H | injection H as <-;
    split; [eexists; split; [vm_compute; reflexivity | reflexivity]
           | intros x y y'; op_unfold; apply den_ext; intros [|i] Hi; [reflexivity | vm_compute in Hi; discriminate Hi]]]|]).
  contradiction.
Qed.

Ltac entry_den :=
  intros x y; cbv beta;
  first
  [ solve [apply den_of_dom_val; [cbn [dom val env2]; repeat split; doc_side | cbn [val env2]; eps_norm; doc_value]]
  | (* protected division *)
    match goal with |- _ = (if Req_EM_T ?d 0 then _ else _) =>
      destruct (Req_EM_T d 0) as [Q|Q];
      [ apply den_none; cbn [dom val env2]; eps_norm;
        let D := fresh in intros D; repeat match type of D with _ /\ _ => destruct D as [_ D] end; apply D; first [exact Q | lra]
      | apply den_of_dom_val; [cbn [dom val env2]; repeat split; eps_norm; first [exact Q | intros Q'; apply Q; lra] | cbn [val env2]; eps_norm; doc_value] ] end
  | (* protected logarithm *)
    match goal with |- _ = (if Rlt_dec 0 ?d then _ else _) =>
      destruct (Rlt_dec 0 d) as [Q|Q];
      [ apply den_of_dom_val; [cbn [dom val env2]; repeat split; doc_side | cbn [val env2]; eps_norm; doc_value]
      | exfalso; apply Q; apply doc_log_defined; apply C10_eps_value ] end ].

Ltac entry :=
  unfold entry_ok; cbn [fst snd]; eexists; eexists;
  split; [reflexivity |
  split; [vm_compute; reflexivity |
  split; [reflexivity |
  split; [reflexivity | entry_den ]]]].

(* every name of N_ARGS_FUNCTION has a documented operator of that arity and the first chain branch for
   it denotes that operator, reads x, and reads y exactly when binary *)
Theorem C10_table_ok : table_ok eps n_args chain.
Proof. unfold table_ok, n_args. repeat (apply Forall_cons; [entry|]). apply Forall_nil. Qed.

(* ---- the evaluator *)
Theorem C10_evaluate_fold : forall tv s t, wf eps n_args t -> terms_shape tv s t ->
  exists a, value_of eps n_args tv t = Some a /\
            eval_code n_args chain ev_children_first tv t = Ok (PArr a) /\ shape a = s.
Proof. intros tv. exact (evaluate_fold eps n_args chain ev_children_first tv C10_table_ok). Qed.

Theorem C10_evaluate_shape : forall tv s t, wf eps n_args t -> terms_shape tv s t ->
  exists a, eval_code n_args chain ev_children_first tv t = Ok (PArr a) /\ shape a = s.
Proof. intros tv. exact (evaluate_shape eps n_args chain ev_children_first tv C10_table_ok). Qed.

(* terminals yield their stored array *)
Theorem C10_terminal_yields_stored_array : forall tv i k,
  eval_code n_args chain ev_children_first tv (N i (Term k) None None) = Ok (PArr (tv i k)).
Proof. reflexivity. Qed.

(* what harness/c10.py observes at every node: the node's value is the documented operator applied
   element-wise to the values its children report *)
Theorem C10_node_unary : forall tv s i op l r f u,
  wf eps n_args (N i (Fun op) (Some l) r) -> terms_shape tv s (N i (Fun op) (Some l) r) ->
  doc_entry eps n_args op = Some (1%nat, f) -> eval_code n_args chain ev_children_first tv l = Ok (PArr u) ->
  eval_code n_args chain ev_children_first tv (N i (Fun op) (Some l) r) = Ok (PArr (ew1 (fun x => f x 0) u)).
Proof. intros tv. exact (evaluate_node_unary eps n_args chain ev_children_first tv C10_table_ok). Qed.

Theorem C10_node_binary : forall tv s i op l r f u v,
  wf eps n_args (N i (Fun op) (Some l) (Some r)) -> terms_shape tv s (N i (Fun op) (Some l) (Some r)) ->
  doc_entry eps n_args op = Some (2%nat, f) ->
  eval_code n_args chain ev_children_first tv l = Ok (PArr u) -> eval_code n_args chain ev_children_first tv r = Ok (PArr v) ->
  eval_code n_args chain ev_children_first tv (N i (Fun op) (Some l) (Some r)) = Ok (PArr (ew2 f u v)) /\ shape u = shape v.
Proof. intros tv. exact (evaluate_node_binary eps n_args chain ev_children_first tv C10_table_ok). Qed.

(* element (j, k) of the result is the operator applied to elements (j, k) *)
Theorem C10_elementwise_unary : forall f a j k, (j < length a)%nat -> (k < length (nth j a []))%nat ->
  nth k (nth j (ew1 f a) []) None = bind1 (nth k (nth j a []) None) f.
Proof. exact ew1_nth. Qed.

Theorem C10_elementwise_binary : forall f a b j k, shape a = shape b -> (j < length a)%nat -> (k < length (nth j a []))%nat ->
  nth k (nth j (ew2 f a b) []) None = bind2 (nth k (nth j a []) None) (nth k (nth j b []) None) f.
Proof. exact ew2_nth. Qed.

(* purity: _evaluate stores nothing outside its two locals and calls only itself and NumPy ufuncs (T3's audit
   of the current source); in the model the evaluator is a function of the tree and the stored arrays *)
Theorem C10_evaluate_no_stores : ev_stores = [].
Proof. reflexivity. Qed.

(* ---- non-vacuity: DIV(SUB(t0, t1), LOG(t0)) over 1 x 2 arrays is well formed and has a value *)
Example C10_nonvacuous :
  let t := N 0 (Fun 3) (Some (N 1 (Fun 1) (Some (N 2 (Term 0) None None)) (Some (N 3 (Term 1) None None))))
                       (Some (N 4 (Fun 6) (Some (N 5 (Term 0) None None)) None)) in
  let tv := fun (_ k : nat) => match k with O => [[Some 0; Some (-3)]] | _ => [[Some 1; None]] end in
  wf eps n_args t /\ terms_shape tv [2%nat] t /\
  exists a, eval_code n_args chain ev_children_first tv t = Ok (PArr a) /\ shape a = [2%nat].
Proof.
  cbv zeta.
  match goal with |- ?W /\ ?S /\ _ => assert (HW : W); [|assert (HS : S); [|split; [exact HW|split; [exact HS|]]]] end.
  - cbn. repeat split; discriminate.
  - cbn. repeat split.
  - exact (C10_evaluate_shape _ _ _ HW HS).
Qed.
