(* C01 -- the objective is only ever evaluated at feasible points.
   Property theorems only; the development is Analysis/Feasible.v (domain + soundness through the generic
   abstract interpreter Analysis/AbsInt.v) over the semantics Model/IRSem.v of the regenerated programs
   Gen/Programs.v.  The per-program obligations  c01_check prog_X = true  are evaluated by the driver at
   check time on the programs regenerated from the current source. *)
From Coq Require Import String ZArith List Bool Lia.
From OV Require Import Base.FloatKey Model.Clip Model.IR Model.IRSem Analysis.AbsInt Analysis.Feasible Gen.Programs.
Import ListNotations.

(* For every IR program that passes the (decidable) check, every box with lb <= ub, every objective,
   every iteration count, every oracle (= every sequence of random draws and arithmetic results that are
   NaN-free and shape-preserving, [okc_std]) and every initial state of a freshly built space:
   every argument handed to the objective is feasible, and the best position at every hook call,
   at every history record and at return is feasible or still the initial placeholder array. *)
Theorem C01_evaluations_feasible :
  forall (p : stmt), c01_check p = true ->
  forall (lbs ubs : list Z) (f : contents -> Z) (n_iter : nat) (INIT : list contents),
    Forall2 (fun l h => kle l h = true) lbs ubs ->
  forall o x0 x' evs o', init_ok lbs ubs INIT x0 ->
    run lbs ubs f hk n_iter okc p o x0 = Some (x', evs, o') ->
    Forall (fun c => feasible lbs ubs c = true) (eval_args evs) /\
    Forall (fun e => match e with EvHook y | EvDump y => lv_ok lbs ubs INIT Okp (apos (best y)) | _ => True end) evs /\
    lv_ok lbs ubs INIT Okp (apos (best x')).
Proof. intros p Hc lbs ubs f n_iter INIT Hb. exact (c01_of_check lbs ubs f n_iter INIT Hb p Hc). Qed.

(* feasible = inside the box, hence NaN-free, with one row per variable; finite when the bounds are *)
Theorem C01_feasible_means :
  forall lbs ubs c, feasible lbs ubs c = true ->
    no_nan c = true /\ length c = length lbs /\ clip_rows (map Some lbs) (map Some ubs) c = c.
Proof.
  intros lbs ubs c H. split; [eapply feasible_no_nan; eassumption|split].
  - apply feasible_length in H. tauto.
  - apply clip_rows_fix; assumption.
Qed.

Theorem C01_in_box_finite :
  forall l h v, kfinite l = true -> kfinite h = true -> in_box l h (Some v) = true -> kfinite v = true.
Proof.
  intros l h v Hl Hh H. unfold in_box in H. apply andb_true_iff in H as [H1 H2].
  unfold kfinite, kle, nk, KINF in *.
  destruct (l =? -1)%Z eqn:E1, (v =? -1)%Z eqn:E2, (h =? -1)%Z eqn:E3; lia.
Qed.

(* the check separates: a sweep that evaluates before clipping is rejected *)
Example C01_check_rejects_unclipped_eval :
  c01_check (Seq (ForSlots (Havoc Fresh Cur)) (ForSlots (Eval Cur))) = false /\
  c01_check (Seq (ForSlots (Havoc Fresh Cur)) (Seq ClipAll (ForSlots (Eval Cur)))) = true.
Proof. split; vm_compute; reflexivity. Qed.

(* non-vacuity: a concrete fresh two-agent space and oracle on which the regenerated PSO program runs *)
Definition ex_lbs : list Z := [0%Z].
Definition ex_ubs : list Z := [10%Z].
Definition ex_f (c : contents) : Z := match c with [[Some k]] => k | _ => 0%Z end.
Definition ex_zero : contents := [[Some 0%Z]].
Definition ex_ag (k : Z) (i : nat) : agent := {| apos := [[Some k]]; aid := i; afit := KMAX |}.
Definition ex_x0 : st :=
  {| pop := [ex_ag 3 0; ex_ag 7 1]; best := {| apos := ex_zero; aid := 2; afit := KMAX |};
     tr := {| apos := ex_zero; aid := 3; afit := KMAX |}; sh := []; loc := [ex_zero; ex_zero];
     tmp := 0%Z; idx := []; next := 4; hyp := []; tv := []; btv := ex_zero |}.
Definition ex_oracle : list answer := [ACont [[Some 12%Z]]; ACont [[Some (-5)%Z]]].

Example C01_nonvacuous :
  init_ok ex_lbs ex_ubs [ex_zero] ex_x0 /\
  Forall2 (fun l h => kle l h = true) ex_lbs ex_ubs /\
  exists x' evs, run ex_lbs ex_ubs ex_f hk 1 okc prog_PSO ex_oracle ex_x0 = Some (x', evs, []) /\
                 eval_args evs = [[[Some 3%Z]]; [[Some 7%Z]]; [[Some 10%Z]]; [[Some 0%Z]]].
Proof.
  split; [|split].
  - constructor; simpl.
    + intros [|[|[|j]]] ag H _; simpl in H; try discriminate; injection H as <-; reflexivity.
    + intros j ag H; discriminate.
    + right. split; [left; reflexivity|split; reflexivity].
    + split; reflexivity.
    + intros [|j] ag H; discriminate.
    + intros j ag H; discriminate.
    + intros c [<-|[<-|[]]]; right; (split; [left; reflexivity|split; reflexivity]).
    + constructor.
  - repeat constructor.
  - eexists; eexists. split; vm_compute; reflexivity.
Qed.
