(* C15, frame part -- a run writes no hyperparameter other than the ones its optimizer adapts.
   (The range part -- the adapted values stay in range -- is Props/C15ranges.v over Gen/Schedules.v.)
   The per-program obligation  wset prog_X = <expected write set>  is evaluated by the driver on the
   regenerated programs: {} for all optimizers but AIWPSO {w}, IHS {PAR, bw}, SA {T}, FA {alpha}, WCA {d_max}. *)
From Coq Require Import String ZArith List Bool Arith Lia.
From OV Require Import Base.FloatKey Model.Clip Model.IR Model.IRSem Analysis.AbsInt Analysis.SemLemmas Analysis.Counts Gen.Programs.
Import ListNotations.
Close Scope Z_scope.
Close Scope string_scope.
Open Scope list_scope.

(* For every IR program, box, objective, oracle, iteration count, initial state and every hook that writes no
   hyperparameter: the log of hyperparameter writes of the run only contains names of [wset p]. *)
Theorem C15_only_adaptive_hyperparameters_are_written :
  forall p lbs ubs f hk n_iter okc, (forall x, hyp (hk x) = hyp x) ->
  forall o x0 x' evs o', run lbs ubs f hk n_iter okc p o x0 = Some (x', evs, o') ->
    exists added, hyp x' = added ++ hyp x0 /\ forall h, In h added -> In h (wset p).
Proof.
  intros p lbs ubs f hk n_iter okc Hh o x0 x' evs o' Hr.
  exact (wset_sound lbs ubs f hk n_iter okc Hh p None o x0 x' evs o' Hr).
Qed.

(* in particular a program whose write set is empty leaves every hyperparameter alone *)
Corollary C15_empty_write_set_means_untouched :
  forall p, wset p = [] ->
  forall lbs ubs f hk n_iter okc, (forall x, hyp (hk x) = hyp x) ->
  forall o x0 x' evs o', run lbs ubs f hk n_iter okc p o x0 = Some (x', evs, o') -> hyp x' = hyp x0.
Proof.
  intros p Hw lbs ubs f hk n_iter okc Hh o x0 x' evs o' Hr.
  destruct (C15_only_adaptive_hyperparameters_are_written p lbs ubs f hk n_iter okc Hh o x0 x' evs o' Hr) as (added & E & Hin).
  rewrite Hw in Hin. destruct added as [|h t]; [exact E|]. exfalso. apply (Hin h). left. reflexivity.
Qed.

Example C15_wset_sees_nested_writes :
  wset (Repeat (Seq (ForSlots (If Opaque (SetHyper "c1") Skip)) (SetHyper "w"))) = ["c1"%string; "w"%string].
Proof. reflexivity. Qed.
