(* C15, frame part -- a run writes no hyperparameter other than the ones its optimizer adapts.
   (The range part -- the adapted values stay in range -- is Props/C15ranges.v over Gen/Schedules.v.)
   The per-program obligation  wset prog_X = <expected write set>  is evaluated by the driver on the
   regenerated programs: {} for all optimizers but AIWPSO {w}, IHS {PAR, bw}, SA {T}, FA {alpha}, WCA {d_max}. *)
From Coq Require Import String ZArith List Bool Arith Lia.
From OV Require Import Base.FloatKey Model.Clip Model.IR Model.IRSem Analysis.AbsInt Analysis.SemLemmas Analysis.Counts Gen.Programs.
Import ListNotations.
Close Scope Z_scope.
Close Scope string_scope.
Open Scope list_scope.

(* For every IR program, box, objective, oracle, iteration count, initial state and every hook that writes no
   hyperparameter: the log of hyperparameter writes of the run only contains names of [wset p]. *)
Theorem C15_only_adaptive_hyperparameters_are_written :
  forall p lbs ubs f hk n_iter okc, (forall x, hyp (hk x) = hyp x) ->
  forall o x0 x' evs o', run lbs ubs f hk n_iter okc p o x0 = Some (x', evs, o') ->
    exists added, hyp x' = added ++ hyp x0 /\ forall h, In h added -> In h (wset p).
Proof.
  intros p lbs ubs f hk n_iter okc Hh o x0 x' evs o' Hr.
  exact (wset_sound lbs ubs f hk n_iter okc Hh p None o x0 x' evs o' Hr).
Qed.

(* in particular a program whose write set is empty leaves every hyperparameter alone *)
Corollary C15_empty_write_set_means_untouched :
  forall p, wset p = [] ->
  forall lbs ubs f hk n_iter okc, (forall x, hyp (hk x) = hyp x) ->
  forall o x0 x' evs o', run lbs ubs f hk n_iter okc p o x0 = Some (x', evs, o') -> hyp x' = hyp x0.
Proof.
  intros p Hw lbs ubs f hk n_iter okc Hh o x0 x' evs o' Hr.
  destruct (C15_only_adaptive_hyperparameters_are_written p lbs ubs f hk n_iter okc Hh o x0 x' evs o' Hr) as (added & E & Hin).
  rewrite Hw in Hin. destruct added as [|h t]; [exact E|]. exfalso. apply (Hin h). left. reflexivity.
Qed.

Example C15_wset_sees_nested_writes :
  wset (Repeat (Seq (ForSlots (If Opaque (SetHyper "c1") Skip)) (SetHyper "w"))) = ["c1"%string; "w"%string].
Proof. reflexivity. Qed.

(* ------------------------------------------------------------------ histories of tasks on one optimizer/space
   The frame theorem holds from every start state; over a finite history of tasks (Analysis/Tasks.v; each task with its own
   program, objective, iteration count, draw stream and a hook that writes no hyperparameter) the log of hyperparameter
   writes only grows by names of the write sets of the programs that ran -- a hyperparameter outside all of them has, after
   the whole history, the value it had before it. *)
From OV Require Import Analysis.Tasks.

Theorem C15_task_histories :
  forall lbs ubs okc ts x0 rs x', Forall (fun t => forall x, hyp (thk t x) = hyp x) ts ->
    thist lbs ubs okc ts x0 rs x' ->
    exists added, hyp x' = added ++ hyp x0 /\ forall h, In h added -> exists t, In t ts /\ In h (wset (tp t)).
Proof.
  intros lbs ubs okc ts x0 rs x' HQ Ht. induction Ht as [x|t ts x x1 evs1 o1 rest x2 Hrun Ht IH].
  - exists []. split; [reflexivity|intros h []].
  - destruct (IH (Forall_inv_tail HQ)) as (a2 & E2 & H2).
    destruct (C15_only_adaptive_hyperparameters_are_written (tp t) lbs ubs (tf t) (thk t) (tn t) okc (Forall_inv HQ) (tor t) _ x1 evs1 o1 Hrun)
      as (a1 & E1 & H1).
    exists (a2 ++ a1). split.
    + rewrite E2, E1. simpl. rewrite app_assoc. reflexivity.
    + intros h Hin. apply in_app_or in Hin as [Hin|Hin].
      * destruct (H2 h Hin) as (t' & A & B). exists t'. split; [right; exact A|exact B].
      * exists t. split; [left; reflexivity|apply H1; exact Hin].
Qed.

Corollary C15_task_histories_untouched :
  forall lbs ubs okc ts x0 rs x', Forall (fun t => (forall x, hyp (thk t x) = hyp x) /\ wset (tp t) = []) ts ->
    thist lbs ubs okc ts x0 rs x' -> hyp x' = hyp x0.
Proof.
  intros lbs ubs okc ts x0 rs x' HQ Ht.
  destruct (C15_task_histories lbs ubs okc ts x0 rs x') as (added & E & Hin); [|exact Ht|].
  - eapply Forall_impl; [|exact HQ]. intros t [A _]. exact A.
  - destruct added as [|h a]; [exact E|]. exfalso. destruct (Hin h (or_introl eq_refl)) as (t & A & B).
    rewrite Forall_forall in HQ. destruct (HQ t A) as [_ W]. rewrite W in B. exact B.
Qed.
