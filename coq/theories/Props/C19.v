(* C19 -- histories survive save/load unchanged and get() returns the requested series.
   Property theorems only: each is closed by `exact` of a lemma of Model/HistoryProofs.v about the
   executable model Model/History.v, or is an obligation on the clause table regenerated from
   /repo (Gen/HistoryDescr.v) closed by computation.  The model is tied to the source by T4-history
   (dump/_parse) and by the correspondence run of props/C19.py (get, load, save, dump on real runs).

   Partial by nature: pickle is not modelled; `C19_save_load_identity*` carry the round-trip contract
   `unpickle (pickle h) = h` as an explicit hypothesis. *)
From Coq Require Import ZArith List Bool String.
From OV Require Import Base.FloatKey Model.History Model.HistoryProofs Gen.HistoryDescr.
Import ListNotations.
Open Scope string_scope.
Open Scope list_scope.

(* ---- the source's dump/_parse is the modelled one (descriptor regenerated on every check) *)
Theorem C19_source_clause_table : descr_ok history_descr = true.
Proof. vm_compute. reflexivity. Qed.

Theorem C19_source_dump_is_model : forall kw h, dump_d history_descr h kw = dump h kw.
Proof. exact (dump_d_ok history_descr C19_source_clause_table). Qed.

(* ---- the source's get / save / load are the modelled ones: their statement sequences (guards in order,
        exception classes and messages, the asarray / object-array fallback, the subscript, the stacking call;
        the open mode, what is pickled, the dictionary update) are regenerated on every check and must be
        literally the descriptors the model functions are proved to implement *)
Theorem C19_source_get_descr : get_descr = model_get_descr.
Proof. reflexivity. Qed.

Theorem C19_source_get_is_model : forall h key index, get_d get_descr h key index = Some (get h key index).
Proof. exact (get_d_of_descr get_descr C19_source_get_descr). Qed.

Theorem C19_source_save_descr : save_descr = model_save_descr.
Proof. reflexivity. Qed.

Theorem C19_source_load_descr : load_descr = model_load_descr.
Proof. reflexivity. Qed.

Theorem C19_source_save_is_model : forall (bytes : Type) (pickle : hist -> bytes) h,
  save_d bytes pickle save_descr h = Some (save bytes pickle h).
Proof. intros bytes pickle. exact (save_d_of_descr bytes pickle save_descr C19_source_save_descr). Qed.

Theorem C19_source_load_is_model : forall (bytes : Type) (unpickle : bytes -> hist) s f,
  load_d bytes unpickle load_descr s f = Some (load_file bytes unpickle s f).
Proof. intros bytes unpickle. exact (load_d_of_descr bytes unpickle load_descr C19_source_load_descr). Qed.

(* ---- what a run leaves in its History (dump_spec instantiated at the optimizers' dump site) *)
Theorem C19_run_history : forall b (iters : list iteration), iters <> [] ->
  exists h, dumps (fresh b) (map run_kwargs iters) = Some h /\
    lookup FLAG h = Some (VBool b) /\
    lookup "best_agent" h = Some (best_series (map snd iters)) /\
    lookup "agents" h = if b then None else Some (agents_series (map fst iters)).
Proof. exact run_history_spec. Qed.

Theorem C19_dump_spec : forall b keys (l : list kwargs),
  NoDup keys -> ~ In FLAG keys -> Forall (dump_ok keys) l ->
  exists h, dumps (fresh b) l = Some h /\
    lookup FLAG h = Some (VBool b) /\
    forall k, In k keys ->
      (kept (VBool b) k = true -> l <> [] -> lookup k h = Some (VList (map (rec_at k) l))) /\
      (kept (VBool b) k = true -> series k h = map (rec_at k) l /\ List.length (series k h) = List.length l) /\
      (kept (VBool b) k = false -> lookup k h = None).
Proof. exact dump_spec. Qed.

Theorem C19_dump_append_only : forall h l d h2, dumps h (l ++ [d]) = Some h2 ->
  exists h1, dumps h l = Some h1 /\
    forall k, firstn (List.length (series k h1)) (series k h2) = series k h1 /\
              (List.length (series k h1) <= List.length (series k h2))%nat.
Proof. exact dump_append_only. Qed.

Theorem C19_store_best_only : forall l h, dumps (fresh true) l = Some h ->
  forall k, In k HISTORY_KEYS -> k <> BEST -> lookup k h = None.
Proof. exact store_best_only_spec. Qed.

(* ---- get: typed rejections, checked before anything is sliced *)
Theorem C19_get_rejects_non_tuple : forall h key, get h key INotTuple = Err TypeErr.
Proof. exact get_not_tuple. Qed.

Theorem C19_get_rejects_wrong_size : forall h key a idx, lookup key h = Some a ->
  (ndim a - 1 <> Z.of_nat (List.length idx))%Z -> get h key (ITuple idx) = Err SizeErr.
Proof. exact get_wrong_size. Qed.

Theorem C19_get_agents_wrong_size : forall h ha n idx,
  lookup "agents" h = Some (agents_series ha) -> ha <> [] -> (1 <= n)%nat ->
  Forall (fun ags => List.length ags = n) ha -> List.length idx <> 2%nat ->
  get h "agents" (ITuple idx) = Err SizeErr.
Proof. exact get_agents_wrong_size. Qed.

Theorem C19_get_best_agent_wrong_size : forall h hb idx,
  lookup "best_agent" h = Some (best_series hb) -> hb <> [] -> List.length idx <> 1%nat ->
  get h "best_agent" (ITuple idx) = Err SizeErr.
Proof. exact get_best_wrong_size. Qed.

Theorem C19_get_local_wrong_size : forall h hl n nv nd idx,
  lookup "local" h = Some (local_series hl) -> hl <> [] -> (1 <= n)%nat -> (1 <= nv)%nat ->
  Forall (fun ls => List.length ls = n /\ Forall (rect nv nd) ls) hl -> List.length idx <> 3%nat ->
  get h "local" (ITuple idx) = Err SizeErr.
Proof. exact get_local_wrong_size. Qed.

(* ---- get: the per-iteration series, in order.  T = length of the history, any T >= 1;
        `norm_index` is Python's index normalisation (negative components count from the end). *)
Theorem C19_get_agent_position : forall h ha n nv nd i c i',
  lookup "agents" h = Some (agents_series ha) -> ha <> [] -> (1 <= n)%nat -> (1 <= nv)%nat ->
  uniform_agents n nv nd ha -> norm_index i n = Some i' -> norm_index c 2 = Some 0%nat ->
  get h "agents" (ITuple [i; c]) = Ok (hstack_rows nv (positions_of i' ha)).
Proof. exact get_agents_position. Qed.

Theorem C19_get_agent_fitness : forall h ha n i c i',
  lookup "agents" h = Some (agents_series ha) -> ha <> [] -> (1 <= n)%nat ->
  Forall (fun ags => List.length ags = n) ha -> norm_index i n = Some i' -> norm_index c 2 = Some 1%nat ->
  get h "agents" (ITuple [i; c]) = Ok (VList (map VNum (fits_of i' ha))).
Proof. exact get_agents_fit. Qed.

Theorem C19_get_best_position : forall h hb nv nd c,
  lookup "best_agent" h = Some (best_series hb) -> hb <> [] -> (1 <= nv)%nat ->
  Forall (fun a => rect nv nd (fst a)) hb -> norm_index c 2 = Some 0%nat ->
  get h "best_agent" (ITuple [c]) = Ok (hstack_rows nv (map fst hb)).
Proof. exact get_best_position. Qed.

Theorem C19_get_best_fitness : forall h hb c,
  lookup "best_agent" h = Some (best_series hb) -> hb <> [] -> norm_index c 2 = Some 1%nat ->
  get h "best_agent" (ITuple [c]) = Ok (VList (map VNum (map snd hb))).
Proof. exact get_best_fit. Qed.

Theorem C19_get_local_coordinate : forall h hl n nv nd i j k i' j' k',
  lookup "local" h = Some (local_series hl) -> hl <> [] -> (1 <= n)%nat -> (1 <= nv)%nat ->
  Forall (fun ls => List.length ls = n /\ Forall (rect nv nd) ls) hl ->
  norm_index i n = Some i' -> norm_index j nv = Some j' -> norm_index k nd = Some k' ->
  get h "local" (ITuple [i; j; k]) = Ok (VList (map (fun ls => VNum (coord_of i' j' k' ls)) hl)).
Proof. exact get_local. Qed.

Theorem C19_get_scalar_series : forall h key recs, lookup key h = Some (VList recs) -> recs <> [] ->
  Forall (fun v => is_seq v = false) recs -> get h key (ITuple []) = Ok (VList recs).
Proof. exact get_scalar_series. Qed.

Theorem C19_index_nonnegative : forall i n : nat, (i < n)%nat -> norm_index (Z.of_nat i) n = Some i.
Proof. exact norm_index_nonneg. Qed.

Theorem C19_index_negative : forall i n : nat, (i < n)%nat -> norm_index (Z.of_nat i - Z.of_nat n) n = Some i.
Proof. exact norm_index_negative. Qed.

(* ---- load: dictionary update; a fresh History ends up with exactly the file's attributes *)
Theorem C19_load_is_dict_update : forall s file, load s file = dict_update s file.
Proof. exact load_is_dict_update. Qed.

Theorem C19_load_spec : forall s file, NoDup (map fst file) -> dom_sub s file -> heq (load s file) file.
Proof. exact load_spec. Qed.

Theorem C19_load_fresh_literal : forall b v rest, NoDup (map fst ((FLAG, v) :: rest)) ->
  load (fresh b) ((FLAG, v) :: rest) = (FLAG, v) :: rest.
Proof. exact load_fresh_literal. Qed.

Theorem C19_load_after_any_run : forall b l h b', dumps (fresh b) l = Some h -> heq (load (fresh b') h) h.
Proof. exact load_after_dumps. Qed.

(* ---- save then load, under the pickle contract (hypothesis, not a theorem about pickle) *)
Theorem C19_save_load_identity :
  forall (bytes : Type) (pickle : hist -> bytes) (unpickle : bytes -> hist),
  (forall h, unpickle (pickle h) = h) ->
  forall s h, NoDup (map fst h) -> dom_sub s h ->
  heq (load_file bytes unpickle s (save bytes pickle h)) h.
Proof. exact save_load_identity. Qed.

Theorem C19_save_load_identity_run :
  forall (bytes : Type) (pickle : hist -> bytes) (unpickle : bytes -> hist),
  (forall h, unpickle (pickle h) = h) ->
  forall b l h b', dumps (fresh b) l = Some h ->
  heq (load_file bytes unpickle (fresh b') (save bytes pickle h)) h.
Proof. exact save_load_identity_run. Qed.

(* ---- non-vacuity: a two-iteration run with two agents of two variables *)
Definition ex_iters : list iteration :=
  [ ([([[Some 1; Some 2]; [Some 3; Some 4]], Some 10); ([[Some 5; Some 6]; [Some 7; Some 8]], Some 11)],
     ([[Some 1; Some 2]; [Some 3; Some 4]], Some 10));
    ([([[Some 21; Some 22]; [Some 23; Some 24]], Some 30); ([[Some 25; Some 26]; [Some 27; Some 28]], None)],
     ([[Some 1; Some 2]; [Some 3; Some 4]], Some 10)) ]%Z.

Definition ex_hist : hist :=
  match dumps (fresh false) (map run_kwargs ex_iters) with Some h => h | None => [] end.

Example C19_example_position :
  get ex_hist "agents" (ITuple [1; 0]%Z) =
  Ok (VList [VList [VNum (Some 5); VNum (Some 6); VNum (Some 25); VNum (Some 26)];
             VList [VNum (Some 7); VNum (Some 8); VNum (Some 27); VNum (Some 28)]]%Z).
Proof. vm_compute. reflexivity. Qed.

Example C19_example_fitness_negative_index :
  get ex_hist "agents" (ITuple [-1; -1]%Z) = Ok (VList [VNum (Some 11%Z); VNum None]).
Proof. vm_compute. reflexivity. Qed.

Example C19_example_typed_errors :
  get ex_hist "agents" INotTuple = Err TypeErr /\
  get ex_hist "agents" (ITuple [99]%Z) = Err SizeErr /\
  get ex_hist "agents" (ITuple [99; 0; 0]%Z) = Err SizeErr /\
  get ex_hist "best_agent" (ITuple []) = Err SizeErr /\
  get ex_hist "agents" (ITuple [2; 0]%Z) = Err IndexErr.
Proof. vm_compute. repeat split. Qed.

Example C19_example_hypotheses_hold :
  lookup "agents" ex_hist = Some (agents_series (map fst ex_iters)) /\
  uniform_agents 2 2 2 (map fst ex_iters) /\
  heq (load (fresh true) ex_hist) ex_hist.
Proof.
  split; [vm_compute; reflexivity|]. split.
  - unfold uniform_agents, rect. simpl. repeat constructor.
  - apply (load_after_dumps false (map run_kwargs ex_iters)). vm_compute. reflexivity.
Qed.

Example C19_example_store_best_only :
  match dumps (fresh true) (map run_kwargs ex_iters) with
  | Some h => map fst h = [FLAG; "best_agent"]
  | None => False
  end.
Proof. vm_compute. reflexivity. Qed.
