(* C03 -- every task completes in exactly n_iterations iterations, on budget, hook first.
   Property theorems only (developments: Analysis/Counts.v, Analysis/Sweep.v, Analysis/Shape.v,
   Analysis/Iterations.v over Model/IRSem.v).  The per-program obligations  c03_check k prog_X = true  and
   cmaxl KEval prog_X = Some <budget>  are evaluated by the driver on the regenerated programs.
   What the IR cannot express -- runtime exceptions of the arithmetic, the number of passes of ABC's onlooker
   `while` loop (its count is an oracle answer here) -- is searched for by the run monitor; see DESIGN.md. *)
From Coq Require Import String ZArith List Bool Arith Lia.
From OV Require Import Base.FloatKey Model.Clip Model.IR Model.IRSem Analysis.AbsInt Analysis.SemLemmas
  Analysis.Sweep Analysis.Counts Analysis.Shape Analysis.Iterations Gen.Programs.
Import ListNotations.
Close Scope Z_scope.
Close Scope string_scope.
Open Scope list_scope.

Definition opt_pair_eqb (a b : option (nat * nat)) : bool :=
  match a, b with
  | Some (x, y), Some (x', y') => Nat.eqb x x' && Nat.eqb y y'
  | None, None => true
  | _, _ => false
  end.

Definition c03_check (k : sweep_kind) (p : stmt) : bool :=
  shape_check k p && opt_pair_eqb (cexactl KHook p) (Some (1, 1)) && opt_pair_eqb (cexactl KDump p) (Some (0, 1))
  && records_check p.

Lemma opt_pair_eqb_eq a x y : opt_pair_eqb a (Some (x, y)) = true -> a = Some (x, y).
Proof.
  destruct a as [[x0 y0]|]; simpl; [|discriminate]. intros H. apply andb_true_iff in H as [H1 H2].
  apply Nat.eqb_eq in H1, H2. subst. reflexivity.
Qed.

(* For every program passing the check, every box, objective, oracle, iteration count, initial state, and
   every hook that keeps the population size (it may move agents arbitrarily):
   - the hook is called exactly n_iterations + 1 times and there are exactly n_iterations history records,
     one at the end of each iteration (the recorded states are the iteration-end states, in order);
   - every hook call is followed at once by the evaluation sweep, which evaluates, in population order, exactly
     the state the hook left behind: one objective call per agent, at that agent's position
     (for GP: at its tree's value limited to the bounds). *)
Theorem C03_iterations_hooks_sweeps :
  forall k p, c03_check k p = true ->
  forall lbs ubs f hk n_iter okc, (forall x, length (pop (hk x)) = length (pop x)) ->
  forall o x0 x' evs o', run lbs ubs f hk n_iter okc p o x0 = Some (x', evs, o') ->
    cnt KHook evs = 1 + n_iter /\
    cnt KDump evs = n_iter /\
    (exists xs, length xs = n_iter /\ dumps_of evs = xs /\ (n_iter > 0 -> last xs x0 = x')) /\
    (forall e1 y e2, evs = e1 ++ EvHook y :: e2 ->
       exists cs e3, sweep_args lbs ubs k y = Some cs /\ length cs = length (pop y) /\ e2 = evals_of f cs ++ e3).
Proof.
  intros k p Hc lbs ubs f hk n_iter okc Hlen o x0 x' evs o' Hr.
  unfold c03_check in Hc. apply andb_true_iff in Hc as [Hc Hrec]. apply andb_true_iff in Hc as [Hc Hd].
  apply andb_true_iff in Hc as [Hs Hh].
  apply opt_pair_eqb_eq in Hh, Hd.
  split; [|split; [|split]].
  - rewrite (cexact_sound lbs ubs f hk n_iter okc KHook p _ (cexactl_cexact KHook n_iter p _ _ Hh) None o x0 x' evs o' Hr). lia.
  - rewrite (cexact_sound lbs ubs f hk n_iter okc KDump p _ (cexactl_cexact KDump n_iter p _ _ Hd) None o x0 x' evs o' Hr). lia.
  - destruct (records_are_iteration_ends lbs ubs f hk n_iter okc p Hrec o x0 x' evs o' Hr) as (pre & body & x1 & xs & _ & Hl & Hch & Hdm).
    exists xs. split; [exact Hl|split; [exact Hdm|]]. intros Hpos.
    clear -Hch Hl Hpos. revert Hl Hpos. generalize n_iter. induction Hch as [x|x o y e o' ys z Hb Hch IH]; intros n Hl Hpos.
    + simpl in Hl. lia.
    + destruct ys as [|y2 ys].
      * inversion Hch; subst. reflexivity.
      * simpl in Hl. destruct n as [|n]; [discriminate|]. injection Hl as Hl.
        change (last (y :: y2 :: ys) x0) with (last (y2 :: ys) x0). eapply (IH n); [exact Hl|lia].
  - intros e1 y e2 He. eapply (hook_then_sweep lbs ubs f hk n_iter okc k p Hs o x0 x' evs o' Hr); exact He.
Qed.

(* base and PSO sweeps: the arguments are exactly the positions of the population the hook left, in order *)
Theorem C03_sweep_arguments_are_positions :
  forall lbs ubs k y cs, k <> KTree -> sweep_args lbs ubs k y = Some cs -> cs = map apos (pop y).
Proof. intros; eapply sweep_args_positions; eassumption. Qed.

(* Budget: the number of objective calls of a whole task is at most the polynomial read off the program,
   c0 + c1*N + c2*T + c3*N*T with N = n_agents, T = n_iterations (e.g. PSO: N + N*T; CS: N + 3*N*T; HS: N + T + N*T). *)
Theorem C03_evaluation_budget :
  forall p c, cmaxl KEval p = Some c ->
  forall lbs ubs f hk n_iter okc, (forall x, length (pop (hk x)) = length (pop x)) ->
  forall o x0 x' evs o', run lbs ubs f hk n_iter okc p o x0 = Some (x', evs, o') ->
    cnt KEval evs <= pv c (length (pop x0)) n_iter /\ length (pop x') = length (pop x0).
Proof.
  intros p c Hc lbs ubs f hk n_iter okc Hlen o x0 x' evs o' Hr.
  destruct (cmaxl_cmax KEval n_iter p c Hc (length (pop x0))) as (m & Hm & Hle).
  destruct (cmax_sound lbs ubs f hk n_iter okc Hlen KEval (length (pop x0)) p m Hm None o x0 x' evs o' eq_refl Hr) as [A B].
  split; [lia|exact A].
Qed.

(* the checks separate: hook after the sweep, a statement between hook and sweep, range(n_iterations - 1)-style
   double dump are all rejected *)
Example C03_check_rejects :
  c03_check KBase (Seq Hook (Seq (ForSlots sweep_base) (Repeat (Seq (ForSlots sweep_base) (Seq Hook Dump))))) = false /\
  c03_check KBase (Seq Hook (Seq (ForSlots sweep_base) (Repeat (Seq Hook (Seq ClipAll (Seq (ForSlots sweep_base) Dump)))))) = false /\
  c03_check KBase (Seq Hook (Seq (ForSlots sweep_base) (Repeat (Seq Hook (Seq (ForSlots sweep_base) (Seq Dump Dump)))))) = false /\
  c03_check KBase (Seq Hook (Seq (ForSlots sweep_base) (Repeat (Seq ClipAll (Seq Hook (Seq (ForSlots sweep_base) Dump)))))) = true.
Proof. repeat split; vm_compute; reflexivity. Qed.

(* ------------------------------------------------------------------ ABC's onlooker loop (finding e)
   The IR takes the number of passes of `while k < len(agents)` from the oracle, so termination of that loop is
   NOT covered by the theorems above.  On the regenerated selection probability (Gen/Onlooker.v) it is in fact
   refuted: the total is computed once before the loop, a greedy acceptance can push a fitness below it, and once
   every food source has fit/(total+eps)+0.1 <= 0 no draw of [0,1) selects anything any more. *)
From Coq Require Import QArith.
From OV Require Import Model.Onlooker Gen.Onlooker.

Definition abc_prob (total : Q) (fit : Q) : Q := onl_prob fit total onl_eps.

(* whatever the stream of draws >= the lower end of the draw range: if no source has a probability above that end
   and fewer than n selections have been made, the loop never returns *)
Theorem C03_onlooker_stuck_when_no_source_selectable :
  forall total fits k, (k < length fits)%nat -> (forall f, In f fits -> (abc_prob total f <= onl_lo)%Q) ->
  forall fuel s, (forall d, In d s -> (onl_lo <= fst d)%Q) -> forall fs k' r, loop (abc_prob total) fuel fits k s <> Done fs k' r.
Proof. intros total fits k Hk Hp. apply stuck_forever with (lo := onl_lo); assumption. Qed.

(* witness: fitnesses 10, -3, -3 (sum 4); the first onlooker improves source 0 to -5; from then on nothing is selectable *)
Definition onl_fits0 : list Q := [10 # 1; -3 # 1; -3 # 1]%Q.
Definition onl_total0 : Q := (4 # 1)%Q.
Definition onl_stream0 : list (Q * Q) := [(0 # 1, -5 # 1); (0 # 1, 0 # 1); (0 # 1, 0 # 1)]%Q.

Theorem C03_onlooker_refuted :
  pass (abc_prob onl_total0) onl_fits0 0 onl_stream0 = Some ([-5 # 1; -3 # 1; -3 # 1]%Q, 1%nat, []) /\
  forall fuel s, (forall d, In d s -> (onl_lo <= fst d)%Q) ->
  forall fs k' r, loop (abc_prob onl_total0) fuel [-5 # 1; -3 # 1; -3 # 1]%Q 1 s <> Done fs k' r.
Proof.
  split; [vm_compute; reflexivity|].
  apply C03_onlooker_stuck_when_no_source_selectable; [simpl; lia|].
  intros f [<-|[<-|[<-|[]]]]; vm_compute; discriminate.
Qed.

(* and it does terminate, in one pass, when every source is certain to be selected *)
Theorem C03_onlooker_one_pass_when_all_selectable :
  forall total fits s r, (forall f, In f fits -> (onl_hi <= abc_prob total f)%Q) -> (forall d, In d s -> (fst d < onl_hi)%Q) ->
  pass (abc_prob total) fits 0 s = Some r -> snd (fst r) = length fits.
Proof. intros total fits s r Hp Hd H. exact (pass_all_selected (abc_prob total) onl_hi fits 0 s r Hp Hd H). Qed.

(* For objectives of constant sign the regenerated probability never drops below its 1/10 floor, so every food source
   stays selectable (each visit selects with probability >= 1/10 under a uniform stream), and a pass whose draws are
   all below 1/10 completes the loop.  A change of the formula that loses the floor breaks this proof. *)
Lemma Qdiv_same_sign_nonneg (a d : Q) : ((0 <= a /\ 0 < d) \/ (a <= 0 /\ d < 0))%Q -> (0 <= a / d)%Q.
Proof.
  destruct a as [an ad], d as [dn dd]. unfold Qle, Qlt, Qdiv, Qmult, Qinv. simpl.
  intros [[H1 H2]|[H1 H2]]; destruct dn as [|p|p]; simpl in *; try lia; nia.
Qed.

Theorem C03_onlooker_probability_floor :
  forall fit total, ((0 <= fit /\ 0 < total + onl_eps) \/ (fit <= 0 /\ total + onl_eps < 0))%Q ->
  ((1 # 10) <= abc_prob total fit)%Q.
Proof.
  intros fit total H. unfold abc_prob, onl_prob.
  pose proof (Qdiv_same_sign_nonneg fit (total + onl_eps) H) as Hd.
  setoid_replace (1 # 10)%Q with (0 + (1 # 10))%Q at 1 by ring.
  apply Qplus_le_compat; [exact Hd|apply Qle_refl].
Qed.

Theorem C03_onlooker_completes_for_constant_sign_objectives :
  forall total fits s r,
    (forall f, In f fits -> ((0 <= f /\ 0 < total + onl_eps) \/ (f <= 0 /\ total + onl_eps < 0))%Q) ->
    (forall d, In d s -> (fst d < 1 # 10)%Q) ->
    pass (abc_prob total) fits 0 s = Some r -> snd (fst r) = length fits.
Proof.
  intros total fits s r Hs Hd H.
  apply (pass_all_selected (abc_prob total) (1 # 10)%Q fits 0 s r); [|exact Hd|exact H].
  intros f Hf. apply C03_onlooker_probability_floor. apply Hs. exact Hf.
Qed.

(* ------------------------------------------------------------------ the validation of T2 cannot raise a false alarm by itself
   Trace inclusion (props/_ir.py: trace_inclusion) rejects a real trace when Analysis/Accept.v's matcher finds no execution of
   the regenerated program that produces it.  The matcher is COMPLETE w.r.t. the semantics: every run of every IR program (any
   oracle, objective, box; any hook keeping the population size) is accepted, with the draw events or with them filtered out
   (GP).  So a rejected real trace always means that the program (the translator) or the semantics misdescribes the code. *)
From OV Require Import Analysis.Accept Analysis.AcceptSound.

Theorem C03_every_run_is_accepted_by_the_trace_matcher : forall p lbs ubs f hk n_iter okc o x x' evs o',
  (forall y, length (pop (hk y)) = length (pop y)) ->
  run lbs ubs f hk n_iter okc p o x = Some (x', evs, o') ->
  exists tr, tr_run lbs ubs f hk n_iter okc p o x = Some (x', evs, o', tr) /\
             obs evs = visible tr /\
             accepts (length (pop x)) n_iter true p tr = true /\
             accepts (length (pop x)) n_iter false p (filter (fun e => negb (oev_eqb e OR)) tr) = true.
Proof. exact run_accepted. Qed.

(* ------------------------------------------------------------------ histories of tasks on one space
   The three theorems above hold from EVERY start state, so they hold of every task of every finite history of tasks on
   one space -- each task with its own optimizer, objective, hook (keeping the population size), iteration count, draw
   stream and freshly created run-local arrays (Analysis/Tasks.v): in every task the hook is called n+1 times, there are n
   records (the iteration-end states, the last one being the state the task leaves), every hook call is followed at once
   by the sweep over the state the hook left, and the task spends at most its budget; the population size of the space
   never changes over the whole history. *)
From OV Require Import Analysis.Tasks.

Definition c03_task_ok (k : sweep_kind) (t : task) : Prop :=
  c03_check k (tp t) = true /\ (forall x, length (pop (thk t x)) = length (pop x)).

Definition c03_task_claim (lbs ubs : list Z) (k : sweep_kind) (t : task) (r : trec) : Prop :=
  let '(xs, evs, xe) := r in
  cnt KHook evs = 1 + tn t /\
  cnt KDump evs = tn t /\
  (exists ds, length ds = tn t /\ dumps_of evs = ds /\ (tn t > 0 -> last ds xs = xe)) /\
  (forall e1 y e2, evs = e1 ++ EvHook y :: e2 ->
     exists cs e3, sweep_args lbs ubs k y = Some cs /\ length cs = length (pop y) /\ e2 = evals_of (tf t) cs ++ e3) /\
  (forall c, cmaxl KEval (tp t) = Some c -> cnt KEval evs <= pv c (length (pop xs)) (tn t)) /\
  length (pop xe) = length (pop xs).

Theorem C03_task_histories :
  forall lbs ubs okc k ts x0 rs x', Forall (c03_task_ok k) ts -> thist lbs ubs okc ts x0 rs x' ->
    Forall2 (c03_task_claim lbs ubs k) ts rs /\ length (pop x') = length (pop x0).
Proof.
  intros lbs ubs okc k ts x0 rs x' HQ Ht.
  destruct (thist_inv lbs ubs okc (fun x => length (pop x) = length (pop x0)) (c03_task_ok k) (c03_task_claim lbs ubs k)) with (ts := ts) (x0 := x0) (rs := rs) (x' := x') as [A B]; try assumption; try reflexivity.
  - intros x lc H. exact H.
  - intros t xs x1 evs o1 [Hc Hlen] HI Hr.
    destruct (C03_iterations_hooks_sweeps k (tp t) Hc lbs ubs (tf t) (thk t) (tn t) okc Hlen (tor t) xs x1 evs o1 Hr) as (A1 & A2 & A3 & A4).
    assert (L : length (pop x1) = length (pop xs)) by exact (exec_len lbs ubs (tf t) (thk t) (tn t) okc Hlen (tp t) None (tor t) xs x1 evs o1 Hr).
    split; [|congruence].
    unfold c03_task_claim. split; [exact A1|split; [exact A2|split; [exact A3|split; [exact A4|split; [|exact L]]]]].
    intros c Hcm. exact (proj1 (C03_evaluation_budget (tp t) c Hcm lbs ubs (tf t) (thk t) (tn t) okc Hlen (tor t) xs x1 evs o1 Hr)).
  - split; assumption.
Qed.

(* non-vacuity: a history of two PSO tasks with different iteration counts and objectives on a two-agent space *)
Definition h_ag (k : Z) (i : nat) : agent := {| apos := [[Some k]]; aid := i; afit := KMAX |}.
Definition h_zero : contents := [[Some 0%Z]].
Definition h_x0 : st :=
  {| pop := [h_ag 3 0; h_ag 7 1]; best := {| apos := h_zero; aid := 2; afit := KMAX |};
     tr := {| apos := h_zero; aid := 3; afit := KMAX |}; sh := []; loc := [h_zero; h_zero];
     tmp := 0%Z; idx := []; next := 4; hyp := []; tv := []; btv := h_zero |}.
Definition h_f1 (c : contents) : Z := match c with [[Some k]] => k | _ => 0%Z end.
Definition h_f2 (c : contents) : Z := match c with [[Some k]] => (- k)%Z | _ => 0%Z end.
Definition h_t1 : task :=
  {| tp := prog_PSO; tf := h_f1; thk := fun x => x; tn := 1; tlc := [h_zero; h_zero];
     tor := [ACont [[Some 12%Z]]; ACont [[Some (-5)%Z]]] |}.
Definition h_t2 : task :=
  {| tp := prog_PSO; tf := h_f2; thk := fun x => x; tn := 2; tlc := [h_zero; h_zero];
     tor := [ACont [[Some 1%Z]]; ACont [[Some 2%Z]]; ACont [[Some 4%Z]]; ACont [[Some 6%Z]]] |}.

Example C03_nonvacuous_two_tasks :
  Forall (c03_task_ok KPso) [h_t1; h_t2] /\
  exists rs x', thist [0%Z] [10%Z] okc_std [h_t1; h_t2] h_x0 rs x' /\
                map (fun r => cnt KHook (snd (fst r))) rs = [2; 3] /\ map (fun r => cnt KEval (snd (fst r))) rs = [4; 6].
Proof.
  split.
  - repeat constructor; vm_compute; reflexivity.
  - destruct (run [0%Z] [10%Z] h_f1 (fun x => x) 1 okc_std prog_PSO (tor h_t1) (with_loc h_x0 (tlc h_t1))) as [[[x1 e1] o1]|] eqn:E1;
      [|vm_compute in E1; discriminate].
    destruct (run [0%Z] [10%Z] h_f2 (fun x => x) 2 okc_std prog_PSO (tor h_t2) (with_loc x1 (tlc h_t2))) as [[[x2 e2] o2]|] eqn:E2;
      [|vm_compute in E1; injection E1 as <- _ _; vm_compute in E2; discriminate].
    eexists; exists x2. split; [|split].
    + eapply thist_cons; [exact E1|]. eapply thist_cons; [exact E2|apply thist_nil].
    + vm_compute in E1. injection E1 as <- <- _. vm_compute in E2. injection E2 as _ <- _. reflexivity.
    + vm_compute in E1. injection E1 as <- <- _. vm_compute in E2. injection E2 as _ <- _. reflexivity.
Qed.
