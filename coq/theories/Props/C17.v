(* C17 -- benchmark functions compute their documented formulas and respect their minima.

   code_f / doc_f (Gen/Bench.v) are regenerated on every check from the body / the docstring formula of
   f in /repo/opytimizer/math/benchmark.py.  [den e x : option R] is the guarded denotation
   (Base/RExprBench.v): division by 0, sqrt of a negative number, 0 ** negative and negative ** non-integer
   are undefined (None) -- Coq's totalised x/0 = 0 is never used.  [x] is the input array (a list of reals of
   any length: every statement is for every dimension).  [in_box lo hi x]: every coordinate is in [lo, hi].
   One theorem per function (Print Assumptions is run on each):
     (formula)  den code_f x = den doc_f x     -- both sides undefined together or not at all;
     (lower)    defined and never below the documented minimum;   (min) attained at the known minimiser.
   Property theorems only; the lemmas are in Model/BenchProofs.v and are transferred to the regenerated code
   term by the one-line tactics bench_* (syntactic identity first, semantic comparison otherwise). *)
From Coq Require Import Strings.String.
From Coq Require Import Reals List ZArith Lia Lra.
From OV Require Import Base.RExprBench Model.BenchProofs Gen.Bench.
Import ListNotations.
Open Scope R_scope.

(* the table regenerated from the source lists exactly the 17 functions below *)
Theorem C17_all_active_functions_covered :
  bench_functions = ["ackley1"; "alpine1"; "alpine2"; "brown"; "chung_reynolds"; "cosine_mixture"; "csendes"; "deb1"; "deb2";
                     "exponential"; "quintic"; "rastringin"; "salomon"; "schumer_steiglitz"; "schwefel"; "sphere";
                     "styblinski_tang"]%string.
Proof. reflexivity. Qed.

(* ================================================================= 1. coherent documented minima *)

(* sphere, box [-5.12, 5.12]: minimum 0 at the origin (bound and formula hold for every real array) *)
Theorem C17_sphere :
  (forall n x, length x = n -> (1 <= n)%nat -> den code_sphere x = den doc_sphere x) /\
  (forall x, exists v, den code_sphere x = Some v /\ 0 <= v) /\
  (forall n, den code_sphere (repeat 0 n) = Some 0).
Proof. split; [bench_formula | split; [bench_lower ref_sphere sphere_lower | bench_value ref_sphere sphere_min]]. Qed.

(* chung_reynolds, box [-100, 100]: minimum 0 at the origin *)
Theorem C17_chung_reynolds :
  (forall n x, length x = n -> (1 <= n)%nat -> den code_chung_reynolds x = den doc_chung_reynolds x) /\
  (forall x, exists v, den code_chung_reynolds x = Some v /\ 0 <= v) /\
  (forall n, den code_chung_reynolds (repeat 0 n) = Some 0).
Proof.
  split; [bench_formula | split; [bench_lower ref_chung_reynolds chung_reynolds_lower | bench_value ref_chung_reynolds chung_reynolds_min]].
Qed.

(* schumer_steiglitz, box [-100, 100]: minimum 0 at the origin *)
Theorem C17_schumer_steiglitz :
  (forall n x, length x = n -> (1 <= n)%nat -> den code_schumer_steiglitz x = den doc_schumer_steiglitz x) /\
  (forall x, exists v, den code_schumer_steiglitz x = Some v /\ 0 <= v) /\
  (forall n, den code_schumer_steiglitz (repeat 0 n) = Some 0).
Proof.
  split; [bench_formula | split; [bench_lower ref_schumer_steiglitz schumer_steiglitz_lower
                                 | bench_value ref_schumer_steiglitz schumer_steiglitz_min]].
Qed.

(* alpine1, box [-10, 10]: minimum 0 at the origin *)
Theorem C17_alpine1 :
  (forall n x, length x = n -> (1 <= n)%nat -> den code_alpine1 x = den doc_alpine1 x) /\
  (forall x, exists v, den code_alpine1 x = Some v /\ 0 <= v) /\
  (forall n, den code_alpine1 (repeat 0 n) = Some 0).
Proof. split; [bench_formula | split; [bench_lower ref_alpine1 alpine1_lower | bench_value ref_alpine1 alpine1_min]]. Qed.

(* quintic, box [-10, 10]: minimum value 0, attained at every array whose coordinates are the roots -1 / 2
   (at the origin the value is 4 n: "minimum at 0" is the minimum value, as in the other docstrings) *)
Theorem C17_quintic :
  (forall n x, length x = n -> (1 <= n)%nat -> den code_quintic x = den doc_quintic x) /\
  (forall x, exists v, den code_quintic x = Some v /\ 0 <= v) /\
  (forall x, (forall t, In t x -> t = -1 \/ t = 2) -> den code_quintic x = Some 0) /\
  (forall n, den code_quintic (repeat 0 n) = Some (4 * INR n)).
Proof.
  split; [bench_formula | split; [bench_lower ref_quintic quintic_lower | split;
    [bench_value ref_quintic quintic_min | bench_value ref_quintic quintic_at_origin]]].
Qed.

(* rastringin, box [-5.12, 5.12]: minimum 0 at the origin *)
Theorem C17_rastringin :
  (forall n x, length x = n -> (1 <= n)%nat -> den code_rastringin x = den doc_rastringin x) /\
  (forall x, exists v, den code_rastringin x = Some v /\ 0 <= v) /\
  (forall n, den code_rastringin (repeat 0 n) = Some 0).
Proof. split; [bench_formula | split; [bench_lower ref_rastringin rastringin_lower | bench_value ref_rastringin rastringin_min]]. Qed.

(* salomon, box [-100, 100]: minimum 0 at the origin *)
Theorem C17_salomon :
  (forall n x, length x = n -> (1 <= n)%nat -> den code_salomon x = den doc_salomon x) /\
  (forall x, exists v, den code_salomon x = Some v /\ 0 <= v) /\
  (forall n, den code_salomon (repeat 0 n) = Some 0).
Proof. split; [bench_formula | split; [bench_lower ref_salomon salomon_lower | bench_value ref_salomon salomon_min]]. Qed.

(* ackley1, box [-35, 35]: minimum 0 at the origin (n >= 1 because of 1/n) *)
Theorem C17_ackley1 :
  (forall n x, length x = n -> (1 <= n)%nat -> den code_ackley1 x = den doc_ackley1 x) /\
  (forall x, (1 <= length x)%nat -> exists v, den code_ackley1 x = Some v /\ 0 <= v) /\
  (forall n, (1 <= n)%nat -> den code_ackley1 (repeat 0 n) = Some 0).
Proof. split; [bench_formula | split; [bench_lower ref_ackley1 ackley1_lower | bench_value ref_ackley1 ackley1_min]]. Qed.

(* brown, box [-1, 4], n >= 2: minimum 0 at the origin; 0 ** (0 + 1) = 0 in the float power semantics *)
Theorem C17_brown :
  (forall n x, length x = n -> (2 <= n)%nat -> den code_brown x = den doc_brown x) /\
  (forall x, exists v, den code_brown x = Some v /\ 0 <= v) /\
  (forall n, den code_brown (repeat 0 n) = Some 0).
Proof. split; [bench_formula | split; [bench_lower ref_brown brown_lower | bench_value ref_brown brown_min]]. Qed.

(* exponential, box [-1, 1]: minimum -1 at the origin *)
Theorem C17_exponential :
  (forall n x, length x = n -> (1 <= n)%nat -> den code_exponential x = den doc_exponential x) /\
  (forall x, exists v, den code_exponential x = Some v /\ -1 <= v) /\
  (forall n, den code_exponential (repeat 0 n) = Some (-1)).
Proof. split; [bench_formula | split; [bench_lower ref_exponential exponential_lower | bench_value ref_exponential exponential_min]]. Qed.

(* deb1, box [-1, 1]: minimum -1 at 0.1 * ones *)
Theorem C17_deb1 :
  (forall n x, length x = n -> (1 <= n)%nat -> den code_deb1 x = den doc_deb1 x) /\
  (forall x, (1 <= length x)%nat -> exists v, den code_deb1 x = Some v /\ -1 <= v) /\
  (forall n, (1 <= n)%nat -> den code_deb1 (repeat (1 / 10) n) = Some (-1)).
Proof. split; [bench_formula | split; [bench_lower ref_deb1 deb1_lower | bench_value ref_deb1 deb1_min]]. Qed.

(* schwefel, box [-500, 500]: never below the documented 0.  The constant 418.9829 is the maximum of x sin sqrt|x|
   rounded up to 4 decimals, so at the known minimiser 420.9687 the value is within 1.3e-5 n of 0, and 0 itself is
   never attained (value >= 1e-5 n). *)
Theorem C17_schwefel :
  (forall n x, length x = n -> (1 <= n)%nat -> den code_schwefel x = den doc_schwefel x) /\
  (forall x, in_box (-500) 500 x -> exists v, den code_schwefel x = Some v /\ 0 <= v) /\
  (forall n, exists v, den code_schwefel (repeat (4209687 / 10000) n) = Some v /\ 0 <= v <= 13 / 1000000 * INR n) /\
  (forall x v, (1 <= length x)%nat -> in_box (-500) 500 x -> den code_schwefel x = Some v -> 0 < v).
Proof.
  split; [bench_formula | split; [bench_lower ref_schwefel schwefel_lower | split;
    [bench_between ref_schwefel schwefel_near_min | intros x v Hn B E; bench_positive_if_defined ref_schwefel schwefel_positive]]].
Qed.

(* ================================================================= 2. the unchanged code contradicts the
   property on part of its documented box (known findings csendes:zero-coordinate, deb2:negative-coordinate) *)

(* csendes, box [-1, 1], documented minimum 0 "at 0":  x^6 (2 + sin(1/x)) is undefined (NaN) as soon as a coordinate
   is 0.  Statement that does NOT hold:  forall n, 1 <= n -> den code_csendes (repeat 0 n) = Some 0.
   Proved instead: (formula); undefined with a zero coordinate, in particular at the documented minimiser;
   wherever defined the value is >= 0, and even > 0: the documented minimum is never attained. *)
Theorem C17_csendes :
  (forall n x, length x = n -> (1 <= n)%nat -> den code_csendes x = den doc_csendes x) /\
  (forall x, In 0 x -> den code_csendes x = None) /\
  (forall x v, den code_csendes x = Some v -> 0 <= v) /\
  (forall x v, (1 <= length x)%nat -> den code_csendes x = Some v -> 0 < v).
Proof.
  split; [bench_formula | split; [bench_undef ref_csendes csendes_undefined_zero | split;
    [intros x v E; bench_lower_if_defined ref_csendes csendes_lower
    | intros x v Hn E; bench_positive_if_defined ref_csendes csendes_positive]]].
Qed.
Theorem C17_csendes_min_refuted : forall n, (1 <= n)%nat -> den code_csendes (repeat 0 n) = None.
Proof. intros n Hn. apply (proj1 (proj2 C17_csendes)). destruct n; [lia | left; reflexivity]. Qed.

(* deb2, box [-1, 1], documented minimum -1:  x ** (3/4) is NaN for x < 0.  Statement that does NOT hold:
     forall x, 1 <= length x -> in_box (-1) 1 x -> exists v, den code_deb2 x = Some v /\ -1 <= v.
   Proved instead: (formula); undefined with a negative coordinate; on the non-negative half [0, 1] the documented
   minimum -1 is a lower bound and is attained at 0.15^(4/3) * ones (about 0.0797), which lies in the box. *)
Theorem C17_deb2 :
  (forall n x, length x = n -> (1 <= n)%nat -> den code_deb2 x = den doc_deb2 x) /\
  (forall x t, (1 <= length x)%nat -> In t x -> t < 0 -> den code_deb2 x = None) /\
  (forall x, (1 <= length x)%nat -> in_box 0 1 x -> exists v, den code_deb2 x = Some v /\ -1 <= v) /\
  (forall n, (1 <= n)%nat -> den code_deb2 (repeat (Rpower (3 / 20) (4 / 3)) n) = Some (-1)) /\
  0 <= Rpower (3 / 20) (4 / 3) <= 1.
Proof.
  split; [bench_formula | split; [bench_undef ref_deb2 deb2_undefined_negative | split;
    [bench_lower ref_deb2 deb2_lower | split; [bench_value ref_deb2 deb2_min | exact deb2_argmin_in_box]]]].
Qed.
Theorem C17_deb2_documented_box_refuted : exists x, (1 <= length x)%nat /\ in_box (-1) 1 x /\ den code_deb2 x = None.
Proof.
  exists [-1 / 2]. split; [simpl; lia|]. split; [intros t [E|[]]; subst; lra|].
  apply (proj1 (proj2 C17_deb2) [-1 / 2] (-1 / 2)); [simpl; lia | left; reflexivity | lra].
Qed.

(* ================================================================= 3. documented minima that are not coherent
   (formula proved; the documented minimum is shown not to be the minimum and the true bound is proved instead) *)

(* alpine2, box [0, 10]: "-2.808^n" is a rounded constant: the function goes below it (n = 1, x = 7.917);
   the true bound is -(2.8082)^n *)
Theorem C17_alpine2 :
  (forall n x, length x = n -> (1 <= n)%nat -> den code_alpine2 x = den doc_alpine2 x) /\
  (forall x, in_box 0 10 x -> exists v, den code_alpine2 x = Some v /\ - (28082 / 10000) ^ length x <= v) /\
  (exists x, (in_box 0 10 x /\ (1 <= length x)%nat) /\ exists v, den code_alpine2 x = Some v /\ v < - (2808 / 1000) ^ length x).
Proof.
  split; [bench_formula | split; [bench_lower ref_alpine2 alpine2_lower |
    exists alpine2_witness; split; [exact alpine2_witness_box | bench_below ref_alpine2 alpine2_witness_below]]].
Qed.

(* styblinski_tang, box [-5, 5]: "-78.332" is the n = 2 value: violated for n = 3 (x = -2.9 * ones), not attained for
   n = 1; the true bound is -39.1662 n (for every real array) *)
Theorem C17_styblinski_tang :
  (forall n x, length x = n -> (1 <= n)%nat -> den code_styblinski_tang x = den doc_styblinski_tang x) /\
  (forall x, exists v, den code_styblinski_tang x = Some v /\ -391662 / 10000 * INR (length x) <= v) /\
  (exists x, (in_box (-5) 5 x /\ (1 <= length x)%nat) /\ exists v, den code_styblinski_tang x = Some v /\ v < -78332 / 1000) /\
  (forall t, exists v, den code_styblinski_tang [t] = Some v /\ -78332 / 1000 < v).
Proof.
  split; [bench_formula | split; [bench_lower ref_styblinski_tang styblinski_tang_lower | split;
    [exists styblinski_tang_witness; split; [exact styblinski_tang_witness_box
                                            | bench_below ref_styblinski_tang styblinski_tang_witness_below]
    | bench_above ref_styblinski_tang styblinski_tang_doc_min_not_attained_n1]]].
Qed.

(* cosine_mixture, box [-1, 1]: "0.1 n" is the MAXIMUM of the coded (and documented) expression, attained at the
   origin; it is not a lower bound (x = [1]) *)
Theorem C17_cosine_mixture :
  (forall n x, length x = n -> (1 <= n)%nat -> den code_cosine_mixture x = den doc_cosine_mixture x) /\
  (forall x, exists v, den code_cosine_mixture x = Some v /\ v <= 1 / 10 * INR (length x)) /\
  (forall n, den code_cosine_mixture (repeat 0 n) = Some (1 / 10 * INR n)) /\
  (exists x, (in_box (-1) 1 x /\ (1 <= length x)%nat) /\ exists v, den code_cosine_mixture x = Some v /\ v < 1 / 10 * INR (length x)).
Proof.
  split; [bench_formula | split; [bench_upper ref_cosine_mixture cosine_mixture_upper | split;
    [bench_value ref_cosine_mixture cosine_mixture_at_origin
    | exists cosine_mixture_witness; split; [exact cosine_mixture_witness_box
                                            | bench_below ref_cosine_mixture cosine_mixture_witness_below]]]].
Qed.

(* ================================================================= non-vacuity *)
Example C17_nonvacuous : den code_brown [0; 0] = Some 0 /\ den code_sphere [3; 4] = Some 25 /\
  den (BDiv (BZ 1) (BZ 0)) [] = None /\ den (BSqrt (BZ (-1))) [] = None.
Proof.
  split; [exact (proj2 (proj2 C17_brown) 2%nat)|]. split.
  - apply den_some. unfold code_sphere. cbn [bdef bval sumf allf]. split; [tauto | lra].
  - split; apply den_none; cbn [bdef bval]; intros H.
    + destruct H as [_ [_ H]]. apply H. reflexivity.
    + destruct H as [_ H]. lra.
Qed.
