(* C17 -- benchmark functions compute their documented formulas and respect their minima.

   code_f / doc_f (Gen/Bench.v) are regenerated on every check from the body / the docstring formula of
   f in /repo/opytimizer/math/benchmark.py.  [den e x : option R] is the guarded denotation
   (Base/RExprBench.v): division by 0, sqrt of a negative number, 0 ** negative and negative ** non-integer
   are undefined (None) -- Coq's totalised x/0 = 0 is never used.  [x] is the input array (any length).
   Property theorems only; the lemmas are in Model/BenchProofs.v and are transferred to the regenerated
   code term by the one-line tactics bench_* (syntactic identity first, semantic comparison otherwise). *)
From Coq Require Import Strings.String.
From Coq Require Import Reals List ZArith Lia Lra.
From OV Require Import Base.RExprBench Model.BenchProofs Gen.Bench.
Import ListNotations.
Open Scope R_scope.

(* ================================================================= 1. code = documented formula, all 17,
   every dimension n >= 1 (n >= 2 for Brown), every real input; both sides undefined together or not at all *)
Theorem C17_formula_ackley1 : forall n x, length x = n -> (1 <= n)%nat -> den code_ackley1 x = den doc_ackley1 x.
Proof. bench_formula. Qed.
Theorem C17_formula_alpine1 : forall n x, length x = n -> (1 <= n)%nat -> den code_alpine1 x = den doc_alpine1 x.
Proof. bench_formula. Qed.
Theorem C17_formula_alpine2 : forall n x, length x = n -> (1 <= n)%nat -> den code_alpine2 x = den doc_alpine2 x.
Proof. bench_formula. Qed.
Theorem C17_formula_brown : forall n x, length x = n -> (2 <= n)%nat -> den code_brown x = den doc_brown x.
Proof. bench_formula. Qed.
Theorem C17_formula_chung_reynolds : forall n x, length x = n -> (1 <= n)%nat -> den code_chung_reynolds x = den doc_chung_reynolds x.
Proof. bench_formula. Qed.
Theorem C17_formula_cosine_mixture : forall n x, length x = n -> (1 <= n)%nat -> den code_cosine_mixture x = den doc_cosine_mixture x.
Proof. bench_formula. Qed.
Theorem C17_formula_csendes : forall n x, length x = n -> (1 <= n)%nat -> den code_csendes x = den doc_csendes x.
Proof. bench_formula. Qed.
Theorem C17_formula_deb1 : forall n x, length x = n -> (1 <= n)%nat -> den code_deb1 x = den doc_deb1 x.
Proof. bench_formula. Qed.
Theorem C17_formula_deb2 : forall n x, length x = n -> (1 <= n)%nat -> den code_deb2 x = den doc_deb2 x.
Proof. bench_formula. Qed.
Theorem C17_formula_exponential : forall n x, length x = n -> (1 <= n)%nat -> den code_exponential x = den doc_exponential x.
Proof. bench_formula. Qed.
Theorem C17_formula_quintic : forall n x, length x = n -> (1 <= n)%nat -> den code_quintic x = den doc_quintic x.
Proof. bench_formula. Qed.
Theorem C17_formula_rastringin : forall n x, length x = n -> (1 <= n)%nat -> den code_rastringin x = den doc_rastringin x.
Proof. bench_formula. Qed.
Theorem C17_formula_salomon : forall n x, length x = n -> (1 <= n)%nat -> den code_salomon x = den doc_salomon x.
Proof. bench_formula. Qed.
Theorem C17_formula_schumer_steiglitz : forall n x, length x = n -> (1 <= n)%nat -> den code_schumer_steiglitz x = den doc_schumer_steiglitz x.
Proof. bench_formula. Qed.
Theorem C17_formula_schwefel : forall n x, length x = n -> (1 <= n)%nat -> den code_schwefel x = den doc_schwefel x.
Proof. bench_formula. Qed.
Theorem C17_formula_sphere : forall n x, length x = n -> (1 <= n)%nat -> den code_sphere x = den doc_sphere x.
Proof. bench_formula. Qed.
Theorem C17_formula_styblinski_tang : forall n x, length x = n -> (1 <= n)%nat -> den code_styblinski_tang x = den doc_styblinski_tang x.
Proof. bench_formula. Qed.

(* the table regenerated from the source lists exactly these 17 functions *)
Theorem C17_all_active_functions_covered :
  bench_functions = ["ackley1"; "alpine1"; "alpine2"; "brown"; "chung_reynolds"; "cosine_mixture"; "csendes"; "deb1"; "deb2";
                     "exponential"; "quintic"; "rastringin"; "salomon"; "schumer_steiglitz"; "schwefel"; "sphere";
                     "styblinski_tang"]%string.
Proof. reflexivity. Qed.

(* ================================================================= 2. coherent documented minima:
   defined and never below the minimum (for every array; inside the documented box where the box matters),
   and the minimum is attained at the known minimiser, in every dimension *)

(* sphere: minimum 0 at the origin *)
Theorem C17_sphere_lower : forall x, exists v, den code_sphere x = Some v /\ 0 <= v.
Proof. bench_lower ref_sphere sphere_lower. Qed.
Theorem C17_sphere_min : forall n, den code_sphere (repeat 0 n) = Some 0.
Proof. bench_value ref_sphere sphere_min. Qed.

(* chung_reynolds: minimum 0 at the origin *)
Theorem C17_chung_reynolds_lower : forall x, exists v, den code_chung_reynolds x = Some v /\ 0 <= v.
Proof. bench_lower ref_chung_reynolds chung_reynolds_lower. Qed.
Theorem C17_chung_reynolds_min : forall n, den code_chung_reynolds (repeat 0 n) = Some 0.
Proof. bench_value ref_chung_reynolds chung_reynolds_min. Qed.

(* schumer_steiglitz: minimum 0 at the origin *)
Theorem C17_schumer_steiglitz_lower : forall x, exists v, den code_schumer_steiglitz x = Some v /\ 0 <= v.
Proof. bench_lower ref_schumer_steiglitz schumer_steiglitz_lower. Qed.
Theorem C17_schumer_steiglitz_min : forall n, den code_schumer_steiglitz (repeat 0 n) = Some 0.
Proof. bench_value ref_schumer_steiglitz schumer_steiglitz_min. Qed.

(* alpine1: minimum 0 at the origin *)
Theorem C17_alpine1_lower : forall x, exists v, den code_alpine1 x = Some v /\ 0 <= v.
Proof. bench_lower ref_alpine1 alpine1_lower. Qed.
Theorem C17_alpine1_min : forall n, den code_alpine1 (repeat 0 n) = Some 0.
Proof. bench_value ref_alpine1 alpine1_min. Qed.

(* quintic: minimum value 0, attained at every array of roots -1 / 2 (at the origin the value is 4 n) *)
Theorem C17_quintic_lower : forall x, exists v, den code_quintic x = Some v /\ 0 <= v.
Proof. bench_lower ref_quintic quintic_lower. Qed.
Theorem C17_quintic_min : forall x, (forall t, In t x -> t = -1 \/ t = 2) -> den code_quintic x = Some 0.
Proof. bench_value ref_quintic quintic_min. Qed.
Theorem C17_quintic_at_origin : forall n, den code_quintic (repeat 0 n) = Some (4 * INR n).
Proof. bench_value ref_quintic quintic_at_origin. Qed.

(* rastringin: minimum 0 at the origin *)
Theorem C17_rastringin_lower : forall x, exists v, den code_rastringin x = Some v /\ 0 <= v.
Proof. bench_lower ref_rastringin rastringin_lower. Qed.
Theorem C17_rastringin_min : forall n, den code_rastringin (repeat 0 n) = Some 0.
Proof. bench_value ref_rastringin rastringin_min. Qed.

(* salomon: minimum 0 at the origin *)
Theorem C17_salomon_lower : forall x, exists v, den code_salomon x = Some v /\ 0 <= v.
Proof. bench_lower ref_salomon salomon_lower. Qed.
Theorem C17_salomon_min : forall n, den code_salomon (repeat 0 n) = Some 0.
Proof. bench_value ref_salomon salomon_min. Qed.

(* ackley1: minimum 0 at the origin (n >= 1: 1/n) *)
Theorem C17_ackley1_lower : forall x, (1 <= length x)%nat -> exists v, den code_ackley1 x = Some v /\ 0 <= v.
Proof. bench_lower ref_ackley1 ackley1_lower. Qed.
Theorem C17_ackley1_min : forall n, (1 <= n)%nat -> den code_ackley1 (repeat 0 n) = Some 0.
Proof. bench_value ref_ackley1 ackley1_min. Qed.

(* brown: minimum 0 at the origin; 0 ** (0 + 1) = 0 in the float power semantics *)
Theorem C17_brown_lower : forall x, exists v, den code_brown x = Some v /\ 0 <= v.
Proof. bench_lower ref_brown brown_lower. Qed.
Theorem C17_brown_min : forall n, den code_brown (repeat 0 n) = Some 0.
Proof. bench_value ref_brown brown_min. Qed.

(* exponential: minimum -1 at the origin *)
Theorem C17_exponential_lower : forall x, exists v, den code_exponential x = Some v /\ -1 <= v.
Proof. bench_lower ref_exponential exponential_lower. Qed.
Theorem C17_exponential_min : forall n, den code_exponential (repeat 0 n) = Some (-1).
Proof. bench_value ref_exponential exponential_min. Qed.

(* deb1: minimum -1 at 0.1 * ones *)
Theorem C17_deb1_lower : forall x, (1 <= length x)%nat -> exists v, den code_deb1 x = Some v /\ -1 <= v.
Proof. bench_lower ref_deb1 deb1_lower. Qed.
Theorem C17_deb1_min : forall n, (1 <= n)%nat -> den code_deb1 (repeat (1 / 10) n) = Some (-1).
Proof. bench_value ref_deb1 deb1_min. Qed.

(* schwefel on [-500, 500]: never below the documented 0; the constant 418.9829 is the maximum of
   x sin sqrt|x| rounded up, so 0 is approached to 1.3e-5 n at the known minimiser 420.9687 but never attained *)
Theorem C17_schwefel_lower : forall x, in_box (-500) 500 x -> exists v, den code_schwefel x = Some v /\ 0 <= v.
Proof. bench_lower ref_schwefel schwefel_lower. Qed.
Theorem C17_schwefel_near_min : forall n,
  exists v, den code_schwefel (repeat (4209687 / 10000) n) = Some v /\ 0 <= v <= 13 / 1000000 * INR n.
Proof. bench_between ref_schwefel schwefel_near_min. Qed.
Theorem C17_schwefel_never_exactly_zero : forall x v, (1 <= length x)%nat -> in_box (-500) 500 x ->
  den code_schwefel x = Some v -> 0 < v.
Proof. intros x v Hn B E. bench_positive_if_defined ref_schwefel schwefel_positive. Qed.

(* ================================================================= 3. the unchanged code contradicts the
   property on part of its documented box (known findings csendes:zero-coordinate, deb2:negative-coordinate) *)

(* csendes, documented box [-1, 1], documented minimum 0 "at 0":  x^6 (2 + sin(1/x)) is undefined (NaN) as soon as a
   coordinate is 0.  Full statement that does NOT hold:
     forall n, 1 <= n -> den code_csendes (repeat 0 n) = Some 0 *)
Theorem C17_csendes_undefined_with_zero_coordinate : forall x, In 0 x -> den code_csendes x = None.
Proof. bench_undef ref_csendes csendes_undefined_zero. Qed.
Theorem C17_csendes_min_refuted : forall n, (1 <= n)%nat -> den code_csendes (repeat 0 n) = None.
Proof. intros n Hn. apply C17_csendes_undefined_with_zero_coordinate. destruct n; [lia | left; reflexivity]. Qed.
Theorem C17_csendes_lower_where_defined : forall x v, den code_csendes x = Some v -> 0 <= v.
Proof. intros x v E. bench_lower_if_defined ref_csendes csendes_lower. Qed.
Theorem C17_csendes_never_attains_zero : forall x v, (1 <= length x)%nat -> den code_csendes x = Some v -> 0 < v.
Proof. intros x v Hn E. bench_positive_if_defined ref_csendes csendes_positive. Qed.

(* deb2, documented box [-1, 1], documented minimum -1:  x ** (3/4) is NaN for x < 0.  Full statement that does NOT hold:
     forall x, 1 <= length x -> in_box (-1) 1 x -> exists v, den code_deb2 x = Some v /\ -1 <= v *)
Theorem C17_deb2_undefined_with_negative_coordinate : forall x t, (1 <= length x)%nat -> In t x -> t < 0 ->
  den code_deb2 x = None.
Proof. bench_undef ref_deb2 deb2_undefined_negative. Qed.
Theorem C17_deb2_documented_box_refuted : exists x, (1 <= length x)%nat /\ in_box (-1) 1 x /\ den code_deb2 x = None.
Proof.
  exists [-1 / 2]. split; [simpl; lia|]. split; [intros t [E|[]]; subst; lra|].
  apply (C17_deb2_undefined_with_negative_coordinate [-1 / 2] (-1 / 2)); [simpl; lia | left; reflexivity | lra].
Qed.
(* on the non-negative half [0, 1] the documented minimum -1 is coherent *)
Theorem C17_deb2_lower_on_nonnegative_box : forall x, (1 <= length x)%nat -> in_box 0 1 x ->
  exists v, den code_deb2 x = Some v /\ -1 <= v.
Proof. bench_lower ref_deb2 deb2_lower. Qed.
Theorem C17_deb2_min : forall n, (1 <= n)%nat -> den code_deb2 (repeat deb2_argmin n) = Some (-1).
Proof. bench_value ref_deb2 deb2_min. Qed.
Theorem C17_deb2_argmin_in_box : 0 <= deb2_argmin <= 1 /\ deb2_argmin = Rpower (3 / 20) (4 / 3).
Proof. split; [exact deb2_argmin_in_box | reflexivity]. Qed.

(* ================================================================= 4. documented minima that are not coherent
   (formula proved above; the documented minimum is shown not to be the minimum, the true bound is proved instead) *)

(* alpine2 on [0, 10]: "-2.808^n" is a rounded constant: the function goes below it; the true bound is -(2.8082)^n *)
Theorem C17_alpine2_true_lower : forall x, in_box 0 10 x ->
  exists v, den code_alpine2 x = Some v /\ - (28082 / 10000) ^ length x <= v.
Proof. bench_lower ref_alpine2 alpine2_lower. Qed.
Theorem C17_alpine2_documented_min_refuted :
  exists x, (in_box 0 10 x /\ (1 <= length x)%nat) /\ exists v, den code_alpine2 x = Some v /\ v < - (2808 / 1000) ^ length x.
Proof. exists alpine2_witness. split; [exact alpine2_witness_box | bench_below ref_alpine2 alpine2_witness_below]. Qed.

(* styblinski_tang on [-5, 5]: "-78.332" is the n = 2 value: not attained for n = 1, violated for n = 3;
   the true bound is -39.1662 n *)
Theorem C17_styblinski_tang_true_lower : forall x, in_box (-5) 5 x ->
  exists v, den code_styblinski_tang x = Some v /\ -391662 / 10000 * INR (length x) <= v.
Proof. bench_lower ref_styblinski_tang styblinski_tang_lower. Qed.
Theorem C17_styblinski_tang_documented_min_refuted :
  exists x, (in_box (-5) 5 x /\ (1 <= length x)%nat) /\ exists v, den code_styblinski_tang x = Some v /\ v < -78332 / 1000.
Proof. exists styblinski_tang_witness. split; [exact styblinski_tang_witness_box | bench_below ref_styblinski_tang styblinski_tang_witness_below]. Qed.
Theorem C17_styblinski_tang_documented_min_not_attained_n1 : forall t, -5 <= t <= 5 ->
  exists v, den code_styblinski_tang [t] = Some v /\ -78332 / 1000 < v.
Proof. bench_above ref_styblinski_tang styblinski_tang_doc_min_not_attained_n1. Qed.

(* cosine_mixture on [-1, 1]: "0.1 n" is the MAXIMUM of the coded (and documented) expression, attained at 0 *)
Theorem C17_cosine_mixture_upper : forall x, exists v, den code_cosine_mixture x = Some v /\ v <= 1 / 10 * INR (length x).
Proof. bench_upper ref_cosine_mixture cosine_mixture_upper. Qed.
Theorem C17_cosine_mixture_at_origin : forall n, den code_cosine_mixture (repeat 0 n) = Some (1 / 10 * INR n).
Proof. bench_value ref_cosine_mixture cosine_mixture_at_origin. Qed.
Theorem C17_cosine_mixture_documented_min_refuted :
  exists x, (in_box (-1) 1 x /\ (1 <= length x)%nat) /\ exists v, den code_cosine_mixture x = Some v /\ v < 1 / 10 * INR (length x).
Proof. exists cosine_mixture_witness. split; [exact cosine_mixture_witness_box | bench_below ref_cosine_mixture cosine_mixture_witness_below]. Qed.

(* ================================================================= non-vacuity *)
Example C17_brown_min_n2 : den code_brown [0; 0] = Some 0.
Proof. exact (C17_brown_min 2). Qed.
Example C17_guard_is_real : den (BDiv (BZ 1) (BZ 0)) [] = None /\ den (BSqrt (BZ (-1))) [] = None.
Proof.
  split; apply den_none; cbn [bdef bval]; intros H.
  - destruct H as [_ [_ H]]. apply H. reflexivity.
  - destruct H as [_ H]. lra.
Qed.
