(* C12 (IR part) — GP results agree: best tree, best position, best fitness and every agent.
   Property theorems only; the proofs are in Analysis/GPConsistent.v.  See notes/C12_ir.md. *)
From Coq Require Import String ZArith List Bool Arith Lia.
From OV Require Import Base.FloatKey Model.Clip Model.IR Model.IRSem Analysis.AbsInt Analysis.SemLemmas Analysis.GPConsistent Gen.Programs.
Import ListNotations.
Close Scope Z_scope.
Open Scope nat_scope.

(* For every program passing the decidable check, every box, objective, admissibility predicate [okc], iteration
   count, oracle and initial state with n trees and n agents (observer hook): at every record ([EvDump y]) and in
   the final state
     - length (tv y) = length (pop y) = n,
     - for every slot i: position = clip(value of tree i) and fitness = f(position),
     - the best agent is consistent with the detached best-tree copy, or the pair (best agent, best-tree value) is still
       the one the task started with. *)
Theorem C12_ir (p : stmt) lbs ubs f n_iter okc n o x0 x' evs o' :
  c12_check p = true ->
  length (tv x0) = n -> length (pop x0) = n ->
  run lbs ubs f (fun x => x) n_iter okc p o x0 = Some (x', evs, o') ->
  c12_claim lbs ubs f n (best x0) (btv x0) x' /\ Forall (ev_claim12 lbs ubs f n (best x0) (btv x0)) evs.
Proof. exact (c12_main p lbs ubs f n_iter okc n o x0 x' evs o'). Qed.

(* the regenerated GP program passes *)
Theorem C12_GP_check : c12_check prog_GP = true.
Proof. vm_compute. reflexivity. Qed.

Theorem C12_GP lbs ubs f n_iter okc n o x0 x' evs o' :
  length (tv x0) = n -> length (pop x0) = n ->
  run lbs ubs f (fun x => x) n_iter okc prog_GP o x0 = Some (x', evs, o') ->
  c12_claim lbs ubs f n (best x0) (btv x0) x' /\ Forall (ev_claim12 lbs ubs f n (best x0) (btv x0)) evs.
Proof. exact (c12_main prog_GP lbs ubs f n_iter okc n o x0 x' evs o' C12_GP_check). Qed.

(* the claim without abbreviations *)
Theorem C12_claim_spelled lbs ubs f n B0 BT0 y :
  c12_claim lbs ubs f n B0 BT0 y <->
  length (tv y) = n /\ length (pop y) = n /\
  (forall i ag c, nth_error (pop y) i = Some ag -> nth_error (tv y) i = Some c ->
     apos ag = clipc lbs ubs c /\ afit ag = f (apos ag)) /\
  ((apos (best y) = clipc lbs ubs (btv y) /\ afit (best y) = f (apos (best y))) \/ (best y = B0 /\ btv y = BT0)).
Proof. reflexivity. Qed.

(* every slot below n has an agent and a tree, and they agree *)
Theorem C12_every_slot lbs ubs f n B0 BT0 y : c12_claim lbs ubs f n B0 BT0 y ->
  forall i, i < n -> exists ag c, nth_error (pop y) i = Some ag /\ nth_error (tv y) i = Some c /\
                                  apos ag = clipc lbs ubs c /\ afit ag = f (apos ag).
Proof. exact (c12_claim_slots lbs ubs f n B0 BT0 y). Qed.

(* once the best agent has been updated (fitness numerically below the initial sentinel) it agrees with the best tree *)
Theorem C12_best_updated lbs ubs f n B0 BT0 y : c12_claim lbs ubs f n B0 BT0 y ->
  klt (afit (best y)) (afit B0) = true ->
  apos (best y) = clipc lbs ubs (btv y) /\ afit (best y) = f (apos (best y)).
Proof. exact (c12_claim_sentinel lbs ubs f n B0 BT0 y). Qed.

(* histories of tasks on one tree space: for every finite sequence of programs passing the check (GP after GP ...), started
   from a state whose (best agent, best-tree value) pair is consistent or the untouched pair (B0, BT0) of the fresh space, the
   claim -- with that ORIGINAL pair -- holds at every record of every task, and the end state is again such a start state *)
Theorem C12_task_histories (ps : list stmt) lbs ubs f n_iter okc n B0 BT0 x0 evs x' :
  Forall (fun p => c12_check p = true) ps ->
  length (tv x0) = n -> length (pop x0) = n ->
  ((apos (best x0) = clipc lbs ubs (btv x0) /\ afit (best x0) = f (apos (best x0))) \/ (best x0 = B0 /\ btv x0 = BT0)) ->
  tasks12 lbs ubs f n_iter okc ps x0 evs x' ->
  Forall (ev_claim12 lbs ubs f n B0 BT0) evs /\
  length (tv x') = n /\ length (pop x') = n /\
  ((apos (best x') = clipc lbs ubs (btv x') /\ afit (best x') = f (apos (best x'))) \/ (best x' = B0 /\ btv x' = BT0)).
Proof. exact (c12_tasks ps lbs ubs f n_iter okc n B0 BT0 x0 evs x'). Qed.

(* ---------------------------------------------------------------- sanity: what the check rejects / accepts *)
Definition gp_upd : stmt :=
  Seq (RepeatAny (Seq (ChooseIdx 0) (Seq (ChooseIdx 1) (Seq (TreeCopy (Slot 0) (Slot 1)) (Store (Slot 0) (Slot 1))))))
      (RepeatAny (Seq (ChooseIdx 1) (TreeSet (Slot 1) "grow"))).
Definition gp_best_upd : stmt := Seq BestTreeCopy (Seq (CopyPos Best Cur) (CopyFit Best Cur)).
Definition gp_prog (sweep : stmt) (post : stmt) : stmt :=
  Seq Hook (Seq sweep (Repeat (Seq gp_upd (Seq Hook (Seq sweep (Seq post Dump)))))).

(* the shape of the real program *)
Definition sweep_ok : stmt :=
  ForSlots (Seq (PosFromTree Cur) (Seq (Clip Cur) (Seq (Eval Cur) (If (FitLt Cur Best) gp_best_upd Skip)))).
(* `agent.check_limits()` dropped *)
Definition sweep_noclip : stmt :=
  ForSlots (Seq (PosFromTree Cur) (Seq (Eval Cur) (If (FitLt Cur Best) gp_best_upd Skip))).
(* `space.best_tree = copy.deepcopy(tree)` dropped *)
Definition sweep_nobesttree : stmt :=
  ForSlots (Seq (PosFromTree Cur) (Seq (Clip Cur) (Seq (Eval Cur)
    (If (FitLt Cur Best) (Seq (CopyPos Best Cur) (CopyFit Best Cur)) Skip)))).
(* evaluation before clipping *)
Definition sweep_evalfirst : stmt :=
  ForSlots (Seq (PosFromTree Cur) (Seq (Eval Cur) (Seq (Clip Cur) (If (FitLt Cur Best) gp_best_upd Skip)))).
(* harmless reordering of the three copies *)
Definition sweep_reordered : stmt :=
  ForSlots (Seq (PosFromTree Cur) (Seq (Clip Cur) (Seq (Eval Cur)
    (If (FitLt Cur Best) (Seq (CopyFit Best Cur) (Seq (CopyPos Best Cur) BestTreeCopy)) Skip)))).

Example c12_accepts_shape : c12_check (gp_prog sweep_ok Skip) = true.
Proof. vm_compute. reflexivity. Qed.
Example c12_accepts_reordered : c12_check (gp_prog sweep_reordered Skip) = true.
Proof. vm_compute. reflexivity. Qed.
Example c12_rejects_noclip : c12_check (gp_prog sweep_noclip Skip) = false.
Proof. vm_compute. reflexivity. Qed.
Example c12_rejects_nobesttree : c12_check (gp_prog sweep_nobesttree Skip) = false.
Proof. vm_compute. reflexivity. Qed.
Example c12_rejects_evalfirst : c12_check (gp_prog sweep_evalfirst Skip) = false.
Proof. vm_compute. reflexivity. Qed.
(* a tree step between the sweep and the record *)
Example c12_rejects_late_treestep : c12_check (gp_prog sweep_ok (Seq (ChooseIdx 1) (TreeSet (Slot 1) "grow"))) = false.
Proof. vm_compute. reflexivity. Qed.
(* a position update that is not re-derived from the tree *)
Example c12_rejects_late_move : c12_check (gp_prog sweep_ok ClipAll) = false.
Proof. vm_compute. reflexivity. Qed.

(* ---------------------------------------------------------------- non-vacuity and a refutation witness *)
Definition ag (v : Z) (i : nat) (ft : Z) : agent := {| apos := [[Some v]]; aid := i; afit := ft |}.
Definition x0_ex : st :=
  {| pop := [ag 1 0 KMAX; ag 2 1 KMAX]; best := ag 0 2 KMAX; tr := ag 0 3 KMAX; sh := [];
     loc := []; tmp := 0%Z; idx := []; next := 4; hyp := [];
     tv := [[[Some 50%Z]]; [[Some 7%Z]]]; btv := [[Some 0%Z]] |}.
Definition f_ex (c : contents) : Z := match c with [[Some v]] => v | _ => 0%Z end.
Definition okc_any (_ _ : contents) : bool := true.

(* one iteration: reproduction replaces tree/agent 0 by copies of tree/agent 1 (all trees re-valued by the oracle),
   no crossover pair, one mutation by `grow` that re-randomises the shared terminals (every tree value changes) *)
Definition o_gp : list answer :=
  [ANat 1; ANat 0; ANat 1; ATrees [[[Some 7%Z]]; [[Some 7%Z]]]; ANat 0;
   ANat 1; ANat 1; ABool false; ATrees [[[Some (-30)%Z]]; [[Some 3%Z]]]].

Example gp_runs : exists x' evs o',
  run [(-10)%Z] [10%Z] f_ex (fun x => x) 1 okc_any prog_GP o_gp x0_ex = Some (x', evs, o') /\
  map apos (pop x') = [[[Some (-10)%Z]]; [[Some 3%Z]]] /\ best x' = {| apos := [[Some (-10)%Z]]; aid := 10; afit := (-10)%Z |} /\
  btv x' = [[Some (-30)%Z]] /\ c12_claim [(-10)%Z] [10%Z] f_ex 2 (best x0_ex) (btv x0_ex) x'.
Proof.
  destruct (run [(-10)%Z] [10%Z] f_ex (fun x => x) 1 okc_any prog_GP o_gp x0_ex) as [[[x' evs] o']|] eqn:E;
    [|vm_compute in E; discriminate].
  exists x', evs, o'. split; [reflexivity|].
  pose proof (C12_GP _ _ _ _ _ 2 _ x0_ex _ _ _ eq_refl eq_refl E) as [Hc _].
  vm_compute in E. injection E as <- _ _. split; [reflexivity|split; [reflexivity|split; [reflexivity|exact Hc]]].
Qed.

(* the variant without `Clip Cur` really violates the claim: tree 0 has value 50 outside the box [-10,10] *)
Example c12_noclip_refuted : exists x' evs o',
  run [(-10)%Z] [10%Z] f_ex (fun x => x) 0 okc_any (gp_prog sweep_noclip Skip) [] x0_ex = Some (x', evs, o') /\
  ~ c12_claim [(-10)%Z] [10%Z] f_ex 2 (best x0_ex) (btv x0_ex) x'.
Proof.
  eexists _, _, _. split; [vm_compute; reflexivity|].
  intros (_ & _ & H & _). specialize (H 0 _ _ eq_refl eq_refl) as [H _]. vm_compute in H. discriminate.
Qed.
