(* C18 -- random, distribution and selection primitives honour their contracts.

   Models: Model/Prims.v (Bernoulli thresholding, tournament selection, pairwise, the NumPy wrappers; float
   keys) and Model/Levy.v (the Levy step over the reals, guarded denotation, Gamma uninterpreted).
   Regenerated from /repo on every check by translate/t4_prims.py: Gen/PrimsDescr.v (TOURNAMENT_SIZE, the two
   wrappers of math/random.py, the Bernoulli loop) and Gen/LevyExpr.v (the expression of
   generate_levy_distribution); by translate/t_sel.py: Gen/SelDescr.v (the bodies of tournament_selection and
   pairwise in the language of Model/SelDescr.v; Model/SelModel.v proves that interpreting the model's own
   descriptions is Model.Prims.tournament / pairwise for every input).  The random stream is a universally quantified list of answers; what NumPy's
   generator guarantees about its answers is a hypothesis, never an axiom. *)
From Coq Require Import String Reals Lra ZArith List Bool.
From OV Require Import Model.SelDescr Model.SelModel Gen.SelDescr.
From OV Require Import Base.FloatKey Model.Prims Model.Levy Gen.PrimsDescr Gen.LevyExpr.
Import ListNotations.

(* ================================================================== Bernoulli *)
Open Scope Z_scope.

(* the loop of the current source is the thresholding  out[i] = 1 if u_i < p else 0  of `size` draws of uniform(0, 1) *)
Theorem C18_bernoulli_loop_is_thresholding : forall p us, run_bern bernoulli_descr p us = bern p us.
Proof. intros. apply run_bern_std. reflexivity. Qed.

Theorem C18_bernoulli_draws_are_uniform_0_1_size :
  bd_low bernoulli_descr = Some KZERO /\ bd_high bernoulli_descr = Some KONE /\
  bd_size_passed bernoulli_descr = true /\ bd_over_range_size bernoulli_descr = true.
Proof. repeat split; reflexivity. Qed.

Theorem C18_bernoulli_entries_are_0_or_1 : forall p us, Forall (fun b => b = 0 \/ b = 1) (bern p us).
Proof. exact bern_01. Qed.

Theorem C18_bernoulli_shape : forall p us, length (bern p us) = length us.
Proof. exact bern_shape. Qed.

Theorem C18_bernoulli_monotone_in_probability : forall p q us, kle p q = true ->
  Forall2 Z.le (bern (Some p) us) (bern (Some q) us) /\
  forall i, nth i (bern (Some p) us) 0 <= nth i (bern (Some q) us) 0.
Proof. intros. split; [apply bern_mono | intros; apply bern_mono_nth]; assumption. Qed.

Theorem C18_bernoulli_all_zero_at_probability_0 : forall us,
  Forall (fun u => match u with Some k => kle KZERO k = true | None => True end) us ->
  bern (Some KZERO) us = repeat 0 (length us).
Proof. exact bern_zero. Qed.

Theorem C18_bernoulli_all_one_at_probability_1 : forall us,
  Forall (fun u => exists k, u = Some k /\ klt k KONE = true) us ->
  bern (Some KONE) us = repeat 1 (length us).
Proof. exact bern_one. Qed.

(* one call consumes exactly `size` answers of the stream, in order *)
Theorem C18_bernoulli_call_consumes_size_draws : forall p size stream, (size <= length stream)%nat ->
  exists out, bern_draw p size stream = Some (out, skipn size stream) /\ length out = size /\
              Forall (fun b => b = 0 \/ b = 1) out /\
              forall i, (i < size)%nat -> nth i out 0 = thr p (nth i stream None).
Proof. exact bern_draw_spec. Qed.

(* ================================================================== tournament selection *)
Theorem C18_tournament_size_regenerated_positive : (1 <= tournament_size)%nat.
Proof. vm_compute. repeat constructor. Qed.

(* the body of tournament_selection in the CURRENT source (regenerated: accumulator, `for _ in range(n)`, the
   comprehension of TOURNAMENT_SIZE calls of np.random.choice(fitness), min(step), np.where(min(step) == fitness)[0][0],
   the append, the return) is the description the model function was proved to interpret ... *)
Theorem C18_tournament_source_is_model : tournament_src = tournament_descr.
Proof. reflexivity. Qed.

(* ... hence [tournament tournament_size] below IS the interpretation of the source: for every fitness list, every n
   and every script of draws (a draw = the POSITION np.random.choice picks; it answers with the fitness there), the
   runs that end with None (script exhausted, position outside the list) included *)
Theorem C18_tournament_is_source : forall fit n draws,
  run_tournament tournament_size tournament_src fit n draws = tournament tournament_size fit n draws.
Proof. intros. rewrite C18_tournament_source_is_model. apply tournament_is_descr. Qed.

(* n indices; the r-th is a valid position, holds the minimum fitness among the TOURNAMENT_SIZE individuals
   drawn in round r, and is the first position of the fitness list holding that value; the draws are
   consumed in order, TOURNAMENT_SIZE per round.  Fitness values are float keys (no NaN); IEEE equality
   (-0.0 == +0.0) is [nk a = nk b]. *)
Theorem C18_tournament_spec : forall fit n draws,
  (n * tournament_size <= length draws)%nat ->
  Forall (fun j => (j < length fit)%nat) (firstn (n * tournament_size) draws) ->
  exists sel, tournament tournament_size fit n draws = Some (sel, skipn (n * tournament_size) draws) /\
    length sel = n /\
    forall r, (r < n)%nat -> first_holder_of_round_min fit (round_of tournament_size r draws) (nth r sel O).
Proof. intros. apply tournament_spec; [apply C18_tournament_size_regenerated_positive | assumption | assumption]. Qed.

Theorem C18_tournament_winner_is_determined : forall fit rd i1 i2,
  first_holder_of_round_min fit rd i1 -> first_holder_of_round_min fit rd i2 -> i1 = i2.
Proof. exact first_holder_unique. Qed.

Theorem C18_tournament_needs_n_rounds_of_draws : forall fit n draws,
  (length draws < n * tournament_size)%nat -> tournament tournament_size fit n draws = None.
Proof. intros. apply tournament_short; [apply C18_tournament_size_regenerated_positive | assumption]. Qed.

(* ================================================================== pairwise *)
(* the body of pairwise in the current source (iter(values); iter(lambda: tuple(islice(iterator, 2)), ())) is the
   description whose interpretation -- the tuples the returned iterator yields until it stops -- is [pairwise] *)
Theorem C18_pairwise_source_is_model : pairwise_src = pairwise_descr.
Proof. reflexivity. Qed.

Theorem C18_pairwise_is_source : forall ts (l : list Z),
  run_pairwise ts pairwise_src (map AKey l) = Some (map (fun c => VTuple (map AKey c)) (pairwise l)).
Proof. intros. rewrite C18_pairwise_source_is_model. apply pairwise_is_descr_keys. Qed.

Theorem C18_pairwise_chunks_concatenate_to_input : forall (l : list Z), concat (pairwise l) = l.
Proof. exact pairwise_concat. Qed.

Theorem C18_pairwise_chunk_k_is_items_2k_2k1 : forall (l : list Z) d k, (2 * k + 1 < length l)%nat ->
  nth k (pairwise l) [] = [nth (2 * k) l d; nth (2 * k + 1) l d].
Proof. exact pairwise_nth. Qed.

Theorem C18_pairwise_even_length_all_pairs : forall (l : list Z), Nat.even (length l) = true ->
  Forall (fun c => length c = 2%nat) (pairwise l) /\ length (pairwise l) = Nat.div2 (length l).
Proof.
  intros l H. split; [apply pairwise_even; exact H|]. rewrite pairwise_length.
  destruct (Nat.Even_Odd_dec (length l)) as [[k E]|[k E]]; rewrite E in *.
  - replace (S (2 * k)) with (S (2 * k)) by reflexivity. rewrite Nat.div2_succ_double. symmetry. apply Nat.div2_double.
  - exfalso. rewrite Nat.add_1_r in H. rewrite Nat.even_succ in H. rewrite Nat.odd_mul in H. discriminate.
Qed.

(* odd length: the leftover item is yielded as a final 1-tuple (it is neither dropped nor padded) *)
Theorem C18_pairwise_odd_length_final_singleton : forall (l : list Z), Nat.even (length l) = false ->
  exists cs a, pairwise l = cs ++ [[a]] /\ Forall (fun c => length c = 2%nat) cs /\ l = concat cs ++ [a].
Proof. exact pairwise_odd. Qed.

(* "pairwise() yields pairs" read literally --  forall l, Forall (fun c => length c = 2) (pairwise l)  --
   is refuted by the unchanged source on every odd-length input (known finding pairwise:odd-length-final-singleton) *)
Theorem C18_pairwise_all_pairs_refuted : exists l : list Z, ~ Forall (fun c => length c = 2%nat) (pairwise l).
Proof. exists [1; 2; 3]. intros H. simpl in H. apply Forall_inv_tail in H. apply Forall_inv in H. discriminate H. Qed.

(* ================================================================== the NumPy wrappers *)
Theorem C18_uniform_wrapper_is_positional_passthrough :
  passthrough3 uniform_wrapper = true /\ wr_callee uniform_wrapper = "np.random.uniform"%string /\
  wr_params uniform_wrapper = ["low"; "high"; "size"]%string.
Proof. repeat split; reflexivity. Qed.

Theorem C18_gaussian_wrapper_is_positional_passthrough :
  passthrough3 gaussian_wrapper = true /\ wr_callee gaussian_wrapper = "np.random.normal"%string /\
  length (wr_params gaussian_wrapper) = 3%nat.
Proof. repeat split; reflexivity. Qed.

(* whatever NumPy guarantees about uniform(low, high, size) -- shape = size, entries in [low, high) -- holds of
   the wrapper's result for the same (low, high, size): the contract is a hypothesis, restated *)
Theorem C18_uniform_shape_and_range_inherited :
  forall (V T : Type) (np_uniform : V -> V -> V -> T) (has_shape : V -> T -> Prop) (in_range : V -> V -> T -> Prop),
    (forall low high size, has_shape size (np_uniform low high size) /\ in_range low high (np_uniform low high size)) ->
    forall low high size, exists r, run_wrapper V T np_uniform uniform_wrapper low high size = Some r /\
                                    has_shape size r /\ in_range low high r.
Proof.
  intros V T np hs ir H low high size. exists (np low high size).
  split; [apply run_wrapper_passthrough; reflexivity | apply H].
Qed.

(* normal(mean, dev, size) = mean + dev * normal(0, 1, size) on the same generator state (NumPy's contract,
   [affine]) is inherited with the wrapper's second parameter in the place of NumPy's `scale`: the parameter the
   source calls `variance` acts as the standard deviation *)
Theorem C18_gaussian_shape_and_affine_scaling_inherited :
  forall (V T : Type) (np_normal : V -> V -> V -> T) (has_shape : V -> T -> Prop) (affine : V -> V -> V -> T -> Prop),
    (forall loc scale size, has_shape size (np_normal loc scale size) /\ affine loc scale size (np_normal loc scale size)) ->
    forall mean deviation size, exists r, run_wrapper V T np_normal gaussian_wrapper mean deviation size = Some r /\
                                          has_shape size r /\ affine mean deviation size r.
Proof.
  intros V T np hs af H m s size. exists (np m s size).
  split; [apply run_wrapper_passthrough; reflexivity | apply H].
Qed.

Theorem C18_wrapper_defaults :
  wr_defaults uniform_wrapper = [Some KZERO; Some KONE; Some KONE] /\
  wr_defaults gaussian_wrapper = [Some KZERO; Some KONE; Some KONE].
Proof. split; reflexivity. Qed.

(* ================================================================== Levy *)
Open Scope R_scope.

(* the regenerated expression of generate_levy_distribution denotes Mantegna's formula
       g1 * sigma / |g2|^(1/beta),
       sigma = (Gamma(1+beta) sin(pi beta/2) / (Gamma((1+beta)/2) beta 2^((beta-1)/2)))^(1/beta)
   for 0 < beta <= 2 and g2 <> 0, where g1 is the FIRST and g2 the SECOND Gaussian draw consumed, and no guarded
   operation (division, power, Gamma) is ever undefined on the way.  Gamma: any function positive on (0, +oo). *)
Theorem C18_levy_is_mantegna : forall (Gamma : R -> R) (beta : R) (g : nat -> R),
  0 < beta <= 2 -> g 1%nat <> 0 -> (forall t, 0 < t -> 0 < Gamma t) ->
  lden Gamma beta g levy_code = Some (mantegna Gamma beta (g 0%nat) (g 1%nat)).
Proof.
  intros Gamma beta g Hb Hg GP. unfold levy_code. levy_eval Hb GP. levy_close Hb GP.
Qed.

Theorem C18_levy_consumes_two_standard_gaussian_draws :
  levy_n_draws = 2%nat /\ firstn 2 (wr_defaults gaussian_wrapper) = [Some KZERO; Some KONE].
Proof. split; reflexivity. Qed.

Theorem C18_levy_scale_positive_below_2_zero_at_2 : forall (Gamma : R -> R) (beta : R),
  0 < beta <= 2 -> (forall t, 0 < t -> 0 < Gamma t) ->
  (beta < 2 -> 0 < sigma Gamma beta) /\ (beta = 2 -> sigma Gamma beta = 0).
Proof. intros G b Hb GP. split; [apply sigma_pos | apply sigma_at_two]; assumption. Qed.

(* ================================================================== non-vacuity *)
Open Scope Z_scope.
Example C18_nonvacuous_tournament :
  (* fitness [3.0; -0.0; +0.0; -2.0; -2.0] as keys; rounds draw positions (1,2) (2,1) (4,3) (0,0) *)
  tournament 2 [4613937818241073152; -1; 0; -4611686018427387905; -4611686018427387905] 4
             [1; 2; 2; 1; 4; 3; 0; 0]%nat = Some ([1; 1; 3; 0]%nat, []).
Proof. vm_compute. reflexivity. Qed.

Example C18_nonvacuous_bernoulli :
  bern (Some 4602678819172646912) [Some 0; Some 4602678819172646912; Some 4602678819172646911; None] = [1; 0; 1; 0] /\
  pairwise [1; 2; 3; 4; 5] = [[1; 2]; [3; 4]; [5]].
Proof. split; vm_compute; reflexivity. Qed.
