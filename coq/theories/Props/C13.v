(* C13 -- hypercomplex positions stay in the unit box and span() maps them into the bounds.
   Property theorems only.  Gen/Span.v (norm axis, affine map of hypercomplex.span) is regenerated from
   /repo by T3 on every check, Gen/ClipLoops.v (HyperSpace.check_limits / _initialize_agents) by T4.
   Over the reals, for every number of variables, every n_dimensions d >= 1, every array with entries in
   [0,1] and every bound vectors lb <= ub of any sign and magnitude (lb = ub allowed).  IEEE rounding is
   not modelled (see notes/C13.md: the one-ulp excess of span(ones) in binary64 is a recorded finding). *)
From Coq Require Import Reals List ZArith Bool Lra Floats.
From OV Require Import Base.RExprC10 Base.FloatKey Model.Clip Model.ClipOrder Model.SpaceInit Model.SpanProofs Model.HyperBox Gen.Span Gen.ClipLoops.
Import ListNotations.
Open Scope R_scope.

(* ---- obligations on the regenerated items *)
Theorem C13_norm_over_dimensions : norm_axis = 1%nat.
Proof. reflexivity. Qed.

(* the regenerated expression denotes lb + (ub - lb) * ||x|| / sqrt(n_dimensions), defined whenever n_dimensions > 0
   (the guard of the division, sqrt(shape[1]) <> 0, and of the square root are discharged, not assumed) *)
Theorem C13_span_expr_doc : span_sem_ok span_expr.
Proof. unfold span_sem_ok, span_expr. span_sem. Qed.

Definition span (a : list (list R)) (lbs ubs : list R) (j : nat) : option R := span_at norm_axis span_expr a lbs ubs j.

(* ---- the five claims *)
Theorem C13_span_range : forall d lbs ubs a j, (1 <= d)%nat -> Forall2 Rle lbs ubs -> inputs_ok d lbs ubs a -> (j < length a)%nat ->
  exists v, span a lbs ubs j = Some v /\ nth j lbs 0 <= v <= nth j ubs 0.
Proof. intros d lbs ubs a j Hd Hb. exact (span_range span_expr C13_span_expr_doc d lbs ubs Hd Hb a j). Qed.

Theorem C13_span_zero : forall d lbs ubs a j, (1 <= d)%nat -> inputs_ok d lbs ubs a -> (j < length a)%nat ->
  nth j a [] = repeat 0 d -> span a lbs ubs j = Some (nth j lbs 0).
Proof. intros d lbs ubs a j Hd. exact (span_zero span_expr C13_span_expr_doc d lbs ubs Hd a j). Qed.

Theorem C13_span_one : forall d lbs ubs a j, (1 <= d)%nat -> inputs_ok d lbs ubs a -> (j < length a)%nat ->
  nth j a [] = repeat 1 d -> span a lbs ubs j = Some (nth j ubs 0).
Proof. intros d lbs ubs a j Hd. exact (span_one span_expr C13_span_expr_doc d lbs ubs Hd a j). Qed.

Theorem C13_span_norm_only : forall d lbs ubs a a' j, (1 <= d)%nat -> inputs_ok d lbs ubs a -> inputs_ok d lbs ubs a' -> (j < length a)%nat ->
  sumsq (nth j a []) = sumsq (nth j a' []) -> span a lbs ubs j = span a' lbs ubs j.
Proof. intros d lbs ubs a a' j Hd. exact (span_norm_only span_expr C13_span_expr_doc d lbs ubs Hd a a' j). Qed.

Theorem C13_span_mono : forall d lbs ubs a a' j v v', (1 <= d)%nat -> Forall2 Rle lbs ubs ->
  inputs_ok d lbs ubs a -> inputs_ok d lbs ubs a' -> (j < length a)%nat ->
  sumsq (nth j a []) <= sumsq (nth j a' []) ->
  span a lbs ubs j = Some v -> span a' lbs ubs j = Some v' -> v <= v'.
Proof. intros d lbs ubs a a' j v v' Hd Hb. exact (span_mono span_expr C13_span_expr_doc d lbs ubs Hd Hb a a' j v v'). Qed.

Theorem C13_span_one_entry_per_variable : forall d lbs ubs a, inputs_ok d lbs ubs a ->
  exists vs, span_model norm_axis span_expr a lbs ubs = Some vs /\ length vs = length a.
Proof. intros d lbs ubs a. exact (span_length span_expr d lbs ubs a). Qed.

(* ---- hypercomplex spaces keep every agent inside the unit box, for any declared bounds:
   corollaries of C06 for the descriptors regenerated from spaces/hyper.py *)
Theorem C13_hyper_loops_regenerated :
  descr_unit hyper_check_limits = true /\ cl_over_agents hyper_check_limits = true /\ unit_init hyper_init = true.
Proof. repeat split; reflexivity. Qed.

Theorem C13_hyper_check_limits_unit_box : forall (lbs ubs : list okey) c,
  length ubs = length lbs -> length c = length lbs -> no_nan c = true ->
  unit_box (run_cl hyper_check_limits lbs ubs c) = true.
Proof. intros lbs ubs c. apply unit_clip_in_unit_box. reflexivity. Qed.

Theorem C13_hyper_check_limits_all_agents : forall (lbs ubs : list okey) ags,
  length ubs = length lbs -> Forall (fun c => length c = length lbs /\ no_nan c = true) ags ->
  Forall (fun c => unit_box c = true) (map (run_cl hyper_check_limits lbs ubs) ags).
Proof.
  intros lbs ubs ags Hu H. induction H as [|c ags [Hc Hn] _ IH]; simpl; constructor; [|exact IH].
  apply C13_hyper_check_limits_unit_box; assumption.
Qed.

Theorem C13_hyper_check_limits_keeps_unit_box : forall (lbs ubs : list okey) c,
  length ubs = length lbs -> length c = length lbs -> unit_box c = true ->
  run_cl hyper_check_limits lbs ubs c = c.
Proof. intros lbs ubs c. apply unit_clip_fixes_unit_box. reflexivity. Qed.

(* enforcement on the unit box is the nearest-point projection: a coordinate is kept or moved to the face 0 or 1,
   order between coordinates is kept, and no point of [0,1] is skipped (Model/ClipOrder.v at l = 0, h = 1) *)
Theorem C13_unit_clip_result_is_argument_or_a_face : forall v,
  clipk (Some K0) (Some K1) (Some v) = Some v \/ clipk (Some K0) (Some K1) (Some v) = Some K0 \/
  clipk (Some K0) (Some K1) (Some v) = Some K1.
Proof. intros v. rewrite clipk_clipv. destruct (clipv_cases K0 K1 v) as [H | [H | H]]; rewrite H; auto. Qed.

Theorem C13_unit_clip_monotone : forall r s, Forall2 (fun a b => ole a b = true) r s ->
  Forall2 (fun a b => ole a b = true) (clip_row (Some K0) (Some K1) r) (clip_row (Some K0) (Some K1) s).
Proof. exact (clip_row_mono K0 K1). Qed.

Theorem C13_unit_clip_never_farther_from_a_unit_point : forall v w, kle K0 w = true -> kle w K1 = true ->
  (Z.abs (nk (clipv K0 K1 v) - nk w) <= Z.abs (nk v - nk w))%Z.
Proof. exact (clipv_nearest K0 K1). Qed.

Theorem C13_hyper_init_unit_box : forall nv nd draws, (nv <= length draws)%nat -> unit_box (firstn nv draws) = true ->
  let a := fst (init_rows hyper_init 0 (map (fun _ => None) (a_pos (zero_agent nv nd))) (map (fun _ => None) (a_pos (zero_agent nv nd)))
                          (zero_agent nv nd) draws) in
  unit_box (a_pos a) = true /\ length (a_pos a) = nv.
Proof. intros nv nd draws. apply unit_init_in_unit_box. reflexivity. Qed.

(* ---- binary64.  Coq's primitive floats are IEEE-754 binary64 with round-to-nearest-even, the arithmetic NumPy uses.
   The end-point and range claims do NOT survive rounding on the unchanged code (known findings
   span:ones-row:excess<=2ulp and span:range-overflow, see known_findings.d/C13.json).  Full statements that fail:
     forall lb ub, lb <= ub -> span_b64 lb ub 1 = ub
     forall lb ub t, lb <= ub -> 0 <= t <= 1 -> lb <= span_b64 lb ub t <= ub
   [span_b64] is the float reading of the regenerated map (ub - lb) * t + lb with t = norm / sqrt(d). *)
Definition span_b64 (lb ub t : float) : float := ((ub - lb) * t + lb)%float.

Theorem C13_span_one_binary64_refuted :
  exists lb ub : float, (lb <=? ub)%float = true /\ (ub <? span_b64 lb ub 1)%float = true.
Proof. exists (-0x1.199999999999ap+0)%float, (0x1.3333333333333p-2)%float. split; reflexivity. Qed.   (* lb = -1.1, ub = 0.3 *)

Theorem C13_span_range_binary64_overflow_refuted :
  exists lb ub : float, (lb <=? ub)%float = true /\ PrimFloat.is_nan (span_b64 lb ub 0) = true /\ (ub <? span_b64 lb ub 0.5)%float = true.
Proof. exists (-0x1.ab36d48e1acf0p+1023)%float, (0x1.ab36d48e1acf0p+1023)%float. repeat split; reflexivity. Qed.   (* -+1.5e308 *)

(* ---- non-vacuity: 2 variables x 3 dimensions, a negative and a degenerate range *)
Example C13_nonvacuous :
  let a := [[0; 1; 1/2]; [1; 1; 1]] in let lbs := [-5; 7] in let ubs := [-1; 7] in
  inputs_ok 3 lbs ubs a /\ Forall2 Rle lbs ubs /\ span a lbs ubs 1 = Some 7.
Proof.
  cbv zeta.
  assert (H : inputs_ok 3 [-5; 7] [-1; 7] [[0; 1; 1 / 2]; [1; 1; 1]]).
  { unfold inputs_ok, rect, unit_rows. repeat split; repeat constructor; lra. }
  split; [exact H|]. split; [repeat constructor; lra|].
  apply (C13_span_one 3 [-5; 7] [-1; 7] _ 1%nat); [repeat constructor | exact H | simpl; repeat constructor | reflexivity].
Qed.

Example C13_nonvacuous_box :
  unit_box (run_cl hyper_check_limits [Some (-4616189618054758401)%Z; None] [Some 4611686018427387904%Z; Some 0%Z]
              [[Some KINF; Some (-1)%Z]; [Some (- KINF - 1)%Z; Some 4602678819172646912%Z]]) = true.
Proof. vm_compute. reflexivity. Qed.
