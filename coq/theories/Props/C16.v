(* C16 -- a weighted function is exactly the weighted sum of its components.

   [weighted_descr] (Gen/WeightedDescr.v) is regenerated on every check from the closure built by
   WeightedFunction._create_strategy: initial value, zip of self.functions with self.weights, the step
   expression and which object is handed to the components.  All theorems below are about *that*
   descriptor, for every number of components and weights, every argument type X and every commutative
   ring of values (V, 0, 1, +, *, -, opp) -- instantiated with Z for the correspondence run. *)
From Coq Require Import String ZArith List Bool Ring_theory Ring ZArithRing.
From OV Require Import Model.Weighted Model.WeightedLinear Gen.WeightedDescr.
Import ListNotations.

Section AnyCommutativeRing.
  Variables (V : Type) (v0 v1 : V) (vadd vmul vsub : V -> V -> V) (vopp : V -> V).
  Hypothesis Vth : ring_theory v0 v1 vadd vmul vsub vopp eq.
  Add Ring C16ring : Vth.
  Variable X : Type.

  Notation wf := (wfold v0 v1 vadd vmul vsub vopp weighted_descr).
  Notation wf_log := (wfold_log v0 v1 vadd vmul vsub vopp weighted_descr).
  Notation sum := (bigsum v0 vadd).
  Notation term := (wterm v0 vmul).

  (* the regenerated step: one iteration adds  w * f(x)  to the accumulator, which starts at 0 *)
  Theorem C16_step_adds_weight_times_component :
    std_step v0 v1 vadd vmul vsub vopp X weighted_descr /\ wd_init weighted_descr = 0%Z.
  Proof. split; [unfold std_step, weighted_descr; simpl; intros; ring | reflexivity]. Qed.

  (* value = sum_{i < k} w_i * f_i(x)   (bigsum k t = t 0 + ... + t (k-1);  wterm fs ws x i = w_i * f_i x) *)
  Theorem C16_value_is_weighted_sum : forall (fs : list (X -> V)) (ws : list V) (x : X),
    length fs = length ws ->
    wf fs ws x = sum (length fs) (term fs ws x).
  Proof.
    intros. apply (wf_sum V v0 v1 vadd vmul vsub vopp X Vth); try assumption;
      apply C16_step_adds_weight_times_component.
  Qed.

  (* lists of different lengths: zip stops at the shorter one -- stated, not hidden *)
  Theorem C16_unequal_lengths_truncate : forall (fs : list (X -> V)) (ws : list V) (x : X),
    wf fs ws x = sum (Nat.min (length fs) (length ws)) (term fs ws x).
  Proof.
    intros. apply (wf_sum_trunc V v0 v1 vadd vmul vsub vopp X Vth); apply C16_step_adds_weight_times_component.
  Qed.

  Theorem C16_surplus_components_or_weights_are_ignored : forall (fs fs' : list (X -> V)) (ws ws' : list V) (x : X),
    length fs = length ws ->
    wf (fs ++ fs') ws x = wf fs ws x /\ wf fs (ws ++ ws') x = wf fs ws x.
  Proof. intros. apply wf_trunc_ignores. assumption. Qed.

  (* the call log: component 0, 1, ..., k-1, once each, in this order, each on the argument x itself;
     [a] is the descriptor's record of which object is passed (the caller's own, or an explicit copy) *)
  Theorem C16_each_component_called_once_in_order_on_x : forall (fs : list (X -> V)) (ws : list V) (x : X),
    length fs = length ws ->
    exists a, snd (wf_log fs ws x) = map (fun j => (j, a, x)) (seq 0 (length fs)).
  Proof. intros. eexists. apply wf_calls_any_eq_len; [reflexivity | assumption]. Qed.

  Theorem C16_call_count_is_one : forall (fs : list (X -> V)) (ws : list V) (x : X),
    length fs = length ws -> forall i, (i < length fs)%nat ->
    count_occ Nat.eq_dec (map (fun c : call X => fst (fst c)) (snd (wf_log fs ws x))) i = 1%nat.
  Proof. intros fs ws x L. eapply wf_call_count_any; [reflexivity | exact L]. Qed.

  (* the logging semantics computes the same value as the plain one *)
  Theorem C16_logged_run_has_the_same_value : forall (fs : list (X -> V)) (ws : list V) (x : X),
    fst (wf_log fs ws x) = wf fs ws x.
  Proof. intros. apply wfold_log_value. Qed.

  (* readable instance: two and three components *)
  Example C16_two_components : forall (f1 f2 : X -> V) (w1 w2 : V) (x : X),
    wf [f1; f2] [w1; w2] x = vadd (vmul w1 (f1 x)) (vmul w2 (f2 x)).
  Proof. intros. rewrite C16_value_is_weighted_sum by reflexivity. unfold wterm. simpl. ring. Qed.

  (* linear in the weights: scaling all weights scales the value, adding weight vectors adds the values,
     all-zero weights give 0 -- for the regenerated descriptor, any number of components, any ring *)
  Theorem C16_scaling_the_weights_scales_the_value : forall (c : V) (fs : list (X -> V)) (ws : list V) (x : X),
    length fs = length ws -> wf fs (map (vmul c) ws) x = vmul c (wf fs ws x).
  Proof.
    intros. apply (wf_scale V v0 v1 vadd vmul vsub vopp Vth X weighted_descr); try assumption;
      apply C16_step_adds_weight_times_component.
  Qed.

  Theorem C16_adding_weight_vectors_adds_the_values : forall (fs : list (X -> V)) (ws ws' : list V) (x : X),
    length fs = length ws -> length ws = length ws' ->
    wf fs (wadd V vadd ws ws') x = vadd (wf fs ws x) (wf fs ws' x).
  Proof.
    intros. apply (wf_plus V v0 v1 vadd vmul vsub vopp Vth X weighted_descr); try assumption;
      apply C16_step_adds_weight_times_component.
  Qed.

  Theorem C16_zero_weights_give_zero : forall (fs : list (X -> V)) (x : X),
    wf fs (map (fun _ => v0) fs) x = v0.
  Proof.
    intros. apply (wf_zero_weights V v0 v1 vadd vmul vsub vopp Vth X weighted_descr);
      apply C16_step_adds_weight_times_component.
  Qed.
End AnyCommutativeRing.

(* the instance evaluated in the correspondence run (components Z-valued on list Z) *)
Theorem C16_integer_instance : forall (fs : list (list Z -> Z)) (ws : list Z) (x : list Z),
  length fs = length ws ->
  zwfold weighted_descr fs ws x = bigsum 0%Z Z.add (length fs) (wterm 0%Z Z.mul fs ws x).
Proof. intros. apply (C16_value_is_weighted_sum Z 0%Z 1%Z Z.add Z.mul Z.sub Z.opp Zth). assumption. Qed.

(* WeightedFunction exposes everything a plain Function exposes (regenerated attribute sets), the pointer
   it exposes is the closure above and `built` is set (structure checked by the translator) *)
Theorem C16_same_public_interface :
  forallb (fun a => existsb (String.eqb a) weighted_iface) function_iface = true /\
  existsb (String.eqb "pointer") function_iface = true /\ existsb (String.eqb "built") function_iface = true /\
  weighted_build_checked = true.
Proof. repeat split; vm_compute; reflexivity. Qed.

(* non-vacuity: zero, negative and large weights *)
Example C16_nonvacuous :
  zwfold weighted_descr [zcomp_fun (false, [1; 2], 3); zcomp_fun (true, [1; 1], 0); zcomp_fun (false, [5; 0], -1)]%Z
         [0; -3; 1048576]%Z [2; -7]%Z = (-3 * 53 + 1048576 * 9)%Z.
Proof. vm_compute. reflexivity. Qed.

(* "...and it can be optimised wherever a plain Function can": every attribute that the bundled optimizers, the Optimizer
   base class and Opytimizer read on the objective they are given (regenerated on every run from opytimizer/optimizers/*.py,
   core/optimizer.py and opytimizer.py by the fail-closed audit of translate/t4_weighted.py: the objective is only passed on,
   stored, formatted or has an attribute read) is a public attribute of BOTH classes -- no optimizer reaches into the
   private state of Function, which WeightedFunction does not share -- and `pointer` is among them *)
Theorem C16_optimizers_use_only_the_shared_interface :
  forallb (fun a => existsb (String.eqb a) function_iface && existsb (String.eqb a) weighted_iface) function_uses = true /\
  existsb (String.eqb "pointer") function_uses = true.
Proof. split; vm_compute; reflexivity. Qed.
