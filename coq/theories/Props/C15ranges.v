(* C15 (range part) -- self-adapting hyperparameters stay in range.

   Property theorems only, about the definitions regenerated from /repo on every run
   (Gen/Schedules.v, translate/t3_sched.py): each proof unfolds the regenerated term, shows by
   `field` that it is the reference shape of Model/ScheduleProofs.v (so harmless arithmetic
   rearrangements of the source still check) and applies the lemma about that shape.
   Every statement proves the regenerated definedness side condition (`*_defined`) from its
   hypotheses: Coq's x/0 = 0 and ln 0 = 0 are never used.

   Step theorems (`*_range`, `*_mono`) are about one write; `*_run_*` theorems lift them to every
   moment of a run of any length n_it >= 1 by induction on the iteration count (iter_sched).
   Where the unchanged code refutes the full-strength statement, `*_refuted` gives the witness and
   the full statement is kept in a comment. *)
From Coq Require Import String Reals Lra Lia List Bool.
From OV Require Import Gen.Schedules Model.ScheduleProofs.
Import ListNotations.
Open Scope R_scope.

(* ---- the table of adaptive writes found in the current source is the expected one *)
Theorem sched_table :
  sched_found = [("AIWPSO", "w"); ("FA", "alpha"); ("IHS", "PAR"); ("IHS", "bw"); ("SA", "T"); ("WCA", "d_max")]%string.
Proof. reflexivity. Qed.

(* ================================================================== AIWPSO: w in [w_min, w_max] *)

Theorem aiw_range : forall n_agents p w_max w_min : R,
  0 <= p <= n_agents -> 0 < n_agents -> w_min <= w_max ->
  aiwpso_w_defined n_agents p w_max w_min /\
  w_min <= aiwpso_w_next n_agents p w_max w_min <= w_max.
Proof.
  intros n p b a Hp Hn Hab. split; [unfold aiwpso_w_defined; repeat split; lra |].
  unfold aiwpso_w_next. apply between_eq with (r := convex_ref a b p n); [unfold convex_ref; field; lra |].
  apply convex_ref_range; assumption.
Qed.

(* the counting loop of _compute_success, with the regenerated initial value and increment,
   counts the agents that pass the test: 0 <= p <= n *)
Theorem aiw_count_le : forall tests : list bool,
  (count_loop aiwpso_w_p_init aiwpso_w_p_inc tests <= length tests)%nat /\
  count_loop aiwpso_w_p_init aiwpso_w_p_inc tests = length (filter (fun b => b) tests).
Proof. intro tests. split; [apply count_loop_le_length | apply count_loop_is_count]. Qed.

(* the value written by _compute_success for ANY outcome of the per-agent tests *)
Definition aiw_written (w_min w_max : R) (tests : list bool) : R :=
  aiwpso_w_next (INR (length tests)) (INR (count_loop aiwpso_w_p_init aiwpso_w_p_inc tests)) w_max w_min.

Theorem aiw_range_from_loop : forall (tests : list bool) (w_min w_max : R),
  tests <> [] -> w_min <= w_max ->
  aiwpso_w_defined (INR (length tests)) (INR (count_loop aiwpso_w_p_init aiwpso_w_p_inc tests)) w_max w_min /\
  w_min <= aiw_written w_min w_max tests <= w_max.
Proof.
  intros tests a b Hne Hab. destruct (count_as_real tests Hne) as [Hp Hn].
  unfold aiw_written. apply aiw_range; assumption.
Qed.

(* a run: after k >= 1 iterations -- or from the start if the initial w is in range -- w is in range *)
Theorem aiw_run_range : forall (tests : nat -> list bool) (w0 w_min w_max : R) (n_it k : nat),
  (forall t, tests t <> []) -> w_min <= w_max -> (k <= n_it)%nat ->
  (w_min <= w0 <= w_max \/ (1 <= k)%nat) ->
  w_min <= iter_sched (fun t _ => aiw_written w_min w_max (tests t)) k w0 <= w_max.
Proof.
  intros tests w0 a b N k Hne Hab Hk [H0 | H1].
  - apply (iter_inv (fun x => a <= x <= b) _ N); [exact H0 | | exact Hk].
    intros t x _ _. apply aiw_range_from_loop; [apply Hne | exact Hab].
  - apply (iter_fresh (fun x => a <= x <= b) _ N); [| lia].
    intros t x _. apply aiw_range_from_loop; [apply Hne | exact Hab].
Qed.

(* Full-strength statement "w in [w_min, w_max] at every hook of every run with guard-accepted
   hyperparameters" is refuted by the unchanged code before the first write: the guards accept any
   w >= 0, w_min >= 0, w_max >= w_min independently (w = 0.7 default, w_min = 0.8, w_max = 0.9).
     forall w0 w_min w_max, 0 <= w0 -> 0 <= w_min <= w_max -> w_min <= iter_sched _ 0 w0 <= w_max *)
Theorem aiw_initial_refuted : exists w0 w_min w_max : R,
  0 <= w0 /\ 0 <= w_min <= w_max /\
  ~ (w_min <= iter_sched (fun t _ => aiw_written w_min w_max [true]) 0 w0 <= w_max).
Proof. exists (7 / 10), (8 / 10), (9 / 10). simpl. repeat split; try lra; intros [H _]; lra. Qed.

(* Remark (not a refutation of C15): the hypothesis w_min <= w_max of aiw_range cannot be dropped -- with an
   inverted, i.e. empty, declared range no value can be "in range".  C15 speaks about valid settings only; that
   the w_min setter accepts w_min > w_max is a matter of the guards (property C14). *)
Theorem aiw_range_needs_ordered_bounds : exists n_agents p w_max w_min : R,
  0 <= p <= n_agents /\ 0 < n_agents /\ w_max < w_min /\
  ~ (w_min <= aiwpso_w_next n_agents p w_max w_min <= w_max).
Proof.
  exists 1, 0, (9 / 10), (95 / 100).
  repeat split; try lra; unfold aiwpso_w_next; intros [_ H]; lra.
Qed.

(* ================================================================== IHS: PAR in [PAR_min, PAR_max] *)

Theorem ihs_par_range : forall PAR_max PAR_min n_it t : R,
  0 <= t < n_it -> PAR_min <= PAR_max ->
  ihs_PAR_defined PAR_max PAR_min n_it t /\
  PAR_min <= ihs_PAR_next PAR_max PAR_min n_it t <= PAR_max.
Proof.
  intros b a n t Ht Hab. split; [unfold ihs_PAR_defined; repeat split; lra |].
  unfold ihs_PAR_next. apply between_eq with (r := linear_ref a b n t); [unfold linear_ref; field; lra |].
  apply linear_ref_range; lra.
Qed.

Theorem ihs_par_run_range : forall (PAR0 PAR_min PAR_max : R) (n_it k : nat),
  PAR_min <= PAR_max -> (k <= n_it)%nat ->
  (PAR_min <= PAR0 <= PAR_max \/ (1 <= k)%nat) ->
  PAR_min <= iter_sched (fun t _ => ihs_PAR_next PAR_max PAR_min (INR n_it) (INR t)) k PAR0 <= PAR_max.
Proof.
  intros x0 a b N k Hab Hk [H0 | H1].
  - apply (iter_inv (fun x => a <= x <= b) _ N); [exact H0 | | exact Hk].
    intros t x Ht _. destruct (INR_index t N Ht) as [? [? ?]]. apply ihs_par_range; lra.
  - apply (iter_fresh (fun x => a <= x <= b) _ N); [| lia].
    intros t x Ht. destruct (INR_index t N Ht) as [? [? ?]]. apply ihs_par_range; lra.
Qed.

Theorem ihs_par_initial_refuted : exists PAR0 PAR_min PAR_max : R,
  0 <= PAR0 <= 1 /\ 0 <= PAR_min <= PAR_max /\ PAR_max <= 1 /\ ~ (PAR_min <= PAR0 <= PAR_max).
Proof. exists (7 / 10), (2 / 10), (2 / 10). repeat split; try lra; intros [_ H]; lra. Qed.

(* ================================================================== IHS: bw in [bw_min, bw_max] *)

Theorem ihs_bw_range : forall bw_max bw_min n_it t : R,
  0 <= t < n_it -> 0 < bw_min <= bw_max ->
  ihs_bw_defined bw_max bw_min n_it t /\
  bw_min <= ihs_bw_next bw_max bw_min n_it t <= bw_max.
Proof.
  intros hi lo n t Ht Hb. split.
  - unfold ihs_bw_defined. repeat split; try lra. apply Rlt_gt, Rdiv_lt_0_compat; lra.
  - unfold ihs_bw_next. apply between_eq with (r := geometric_ref lo hi n t); [unfold geometric_ref; first [reflexivity | f_equal; f_equal; field; lra] |].
    apply geometric_ref_range; lra.
Qed.

Theorem ihs_bw_run_range : forall (bw0 bw_min bw_max : R) (n_it k : nat),
  0 < bw_min <= bw_max -> (k <= n_it)%nat ->
  (bw_min <= bw0 <= bw_max \/ (1 <= k)%nat) ->
  (forall t, (t < n_it)%nat -> ihs_bw_defined bw_max bw_min (INR n_it) (INR t)) /\
  bw_min <= iter_sched (fun t _ => ihs_bw_next bw_max bw_min (INR n_it) (INR t)) k bw0 <= bw_max.
Proof.
  intros x0 lo hi N k Hb Hk H. split.
  - intros t Ht. destruct (INR_index t N Ht) as [? [? ?]]. apply ihs_bw_range; lra.
  - destruct H as [H0 | H1].
    + apply (iter_inv (fun x => lo <= x <= hi) _ N); [exact H0 | | exact Hk].
      intros t x Ht _. destruct (INR_index t N Ht) as [? [? ?]]. apply ihs_bw_range; lra.
    + apply (iter_fresh (fun x => lo <= x <= hi) _ N); [| lia].
      intros t x Ht. destruct (INR_index t N Ht) as [? [? ?]]. apply ihs_bw_range; lra.
Qed.

(* under the guards of IHS (0 <= bw_min <= bw_max) the schedule is defined exactly when bw_min > 0 *)
Theorem ihs_bw_defined_iff : forall bw_max bw_min n_it t : R,
  0 <= bw_min <= bw_max -> 0 <= t < n_it ->
  (ihs_bw_defined bw_max bw_min n_it t <-> 0 < bw_min).
Proof.
  intros hi lo n t Hg Ht. split.
  - unfold ihs_bw_defined. intros [Hhi [Hr _]].
    destruct (Rle_lt_or_eq_dec 0 lo (proj1 Hg)) as [Hp | Hz]; [exact Hp | exfalso].
    subst lo. unfold Rdiv in Hr. rewrite Rmult_0_l in Hr. lra.
  - intro Hp. apply ihs_bw_range; lra.
Qed.

(* Full-strength statement: forall bw_min bw_max accepted by the guards (0 <= bw_min <= bw_max), n_it >= 1,
   0 <= t < n_it:  ihs_bw_defined /\ bw_min <= bw_t <= bw_max.
   Refuted by the unchanged code: bw_min = 0 passes the guard `bw_min < 0 -> error` and the schedule takes
   log(0 / bw_max): undefined here, NaN (t = 0: -inf * 0) in the implementation. *)
Theorem ihs_bw_refuted : exists bw_max bw_min n_it t : R,
  0 <= bw_min <= bw_max /\ 1 <= n_it /\ 0 <= t < n_it /\ ~ ihs_bw_defined bw_max bw_min n_it t.
Proof.
  exists 10, 0, 1, 0. repeat split; try lra.
  unfold ihs_bw_defined. intros [_ [H _]]. unfold Rdiv in H. rewrite Rmult_0_l in H. lra.
Qed.

(* ================================================================== SA: T never increases nor becomes negative (beta <= 1) *)

Theorem sa_T_mono : forall T beta : R,
  0 <= beta <= 1 -> 0 <= T ->
  sa_T_defined T beta /\ 0 <= sa_T_next T beta <= T.
Proof.
  intros T b Hb HT. split; [unfold sa_T_defined; repeat split; try lra; exact I |].
  unfold sa_T_next. apply between_eq with (r := T * b); [ring |]. apply decay_mul; assumption.
Qed.

Theorem sa_T_run_mono : forall (T0 beta : R) (n_it k : nat),
  0 <= beta <= 1 -> 0 <= T0 -> (k < n_it)%nat ->
  0 <= iter_sched (fun _ T => sa_T_next T beta) (S k) T0 <= iter_sched (fun _ T => sa_T_next T beta) k T0
  /\ iter_sched (fun _ T => sa_T_next T beta) (S k) T0 <= T0.
Proof.
  intros T0 b N k Hb H0 Hk.
  assert (Hstep : forall (t : nat) (x : R), (t < N)%nat -> 0 <= x ->
                  0 <= sa_T_next x b /\ sa_T_next x b <= x).
  { intros t x _ Hx. destruct (sa_T_mono x b Hb Hx) as [_ [? ?]]. split; assumption. }
  destruct (iter_noninc (fun x => 0 <= x) _ N T0 H0 Hstep k Hk) as [Hpos Hle].
  split; [split; assumption |].
  apply (iter_noninc_from_start (fun x => 0 <= x) _ N T0 H0 Hstep). lia.
Qed.

(* the premise "decay <= 1" of the property is necessary: with beta > 1 the temperature grows *)
Theorem sa_T_grows_above_1 : forall T beta : R, 1 < beta -> 0 < T -> T < sa_T_next T beta.
Proof. intros T b Hb HT. unfold sa_T_next. apply decay_mul_grows; assumption. Qed.

(* ================================================================== FA: alpha never increases nor becomes negative *)

Theorem fa_alpha_mono : forall alpha n_it : R,
  1 <= n_it -> 0 <= alpha ->
  fa_alpha_defined alpha n_it /\ 0 <= fa_alpha_next alpha n_it <= alpha.
Proof.
  intros a n Hn Ha. split; [unfold fa_alpha_defined; repeat split; lra |].
  unfold fa_alpha_next.
  apply between_eq with (r := a * Rpower (1 / 1000 / (9 / 10)) (1 / n)); [ring |].
  assert (Hq : 0 < Rpower (1 / 1000 / (9 / 10)) (1 / n) < 1).
  { apply Rpower_unit; [lra | apply inv_pos_of_ge_1; exact Hn]. }
  apply decay_mul; lra.
Qed.

Theorem fa_alpha_run_mono : forall (alpha0 : R) (n_it k : nat),
  0 <= alpha0 -> (k < n_it)%nat ->
  0 <= iter_sched (fun _ a => fa_alpha_next a (INR n_it)) (S k) alpha0
    <= iter_sched (fun _ a => fa_alpha_next a (INR n_it)) k alpha0
  /\ iter_sched (fun _ a => fa_alpha_next a (INR n_it)) (S k) alpha0 <= alpha0.
Proof.
  intros a0 N k H0 Hk.
  assert (HN : 1 <= INR N) by (apply INR_ge_1; lia).
  assert (Hstep : forall (t : nat) (x : R), (t < N)%nat -> 0 <= x ->
                  0 <= fa_alpha_next x (INR N) /\ fa_alpha_next x (INR N) <= x).
  { intros t x _ Hx. destruct (fa_alpha_mono x (INR N) HN Hx) as [_ [? ?]]. split; assumption. }
  destruct (iter_noninc (fun x => 0 <= x) _ N a0 H0 Hstep k Hk) as [Hpos Hle].
  split; [split; assumption |].
  apply (iter_noninc_from_start (fun x => 0 <= x) _ N a0 H0 Hstep). lia.
Qed.

(* ================================================================== WCA: d_max never increases nor becomes negative *)

Theorem wca_dmax_mono : forall d_max n_it : R,
  1 <= n_it -> 0 <= d_max ->
  wca_d_max_defined d_max n_it /\ 0 <= wca_d_max_next d_max n_it <= d_max.
Proof.
  intros d n Hn Hd. split; [unfold wca_d_max_defined; repeat split; lra |].
  unfold wca_d_max_next. apply between_eq with (r := d - d / n); [field; lra |].
  apply decay_sub; assumption.
Qed.

(* exact condition: for a positive d_max the written value is non-negative iff n_it >= 1
   (Space's guard makes n_iterations an integer > 0, so the working range is inside it) *)
Theorem wca_dmax_nonneg_iff : forall d_max n_it : R,
  0 < d_max -> 0 < n_it -> (0 <= wca_d_max_next d_max n_it <-> 1 <= n_it).
Proof.
  intros d n Hd Hn. unfold wca_d_max_next.
  replace (d - d / n) with (d - d / n) by (field; lra).
  apply decay_sub_nonneg_iff; assumption.
Qed.

Theorem wca_dmax_run_mono : forall (d0 : R) (n_it k : nat),
  0 <= d0 -> (k < n_it)%nat ->
  0 <= iter_sched (fun _ d => wca_d_max_next d (INR n_it)) (S k) d0
    <= iter_sched (fun _ d => wca_d_max_next d (INR n_it)) k d0
  /\ iter_sched (fun _ d => wca_d_max_next d (INR n_it)) (S k) d0 <= d0.
Proof.
  intros d0 N k H0 Hk.
  assert (HN : 1 <= INR N) by (apply INR_ge_1; lia).
  assert (Hstep : forall (t : nat) (x : R), (t < N)%nat -> 0 <= x ->
                  0 <= wca_d_max_next x (INR N) /\ wca_d_max_next x (INR N) <= x).
  { intros t x _ Hx. destruct (wca_dmax_mono x (INR N) HN Hx) as [_ [? ?]]. split; assumption. }
  destruct (iter_noninc (fun x => 0 <= x) _ N d0 H0 Hstep k Hk) as [Hpos Hle].
  split; [split; assumption |].
  apply (iter_noninc_from_start (fun x => 0 <= x) _ N d0 H0 Hstep). lia.
Qed.

(* ================================================================== non-vacuity *)

Example aiw_default_first_write :
  aiwpso_w_next 4 3 (9 / 10) (1 / 10) = 7 / 10.
Proof. unfold aiwpso_w_next. field. Qed.

Example ihs_par_default_t1 : ihs_PAR_next 1 0 3 1 = 1 / 3.
Proof. unfold ihs_PAR_next. field. Qed.

Example ihs_bw_defined_default : ihs_bw_defined 10 1 3 0.
Proof. apply ihs_bw_range; lra. Qed.

Example ihs_bw_first_is_bw_max : forall bw_max bw_min n_it : R, n_it <> 0 -> ihs_bw_next bw_max bw_min n_it 0 = bw_max.
Proof.
  intros. unfold ihs_bw_next.
  match goal with |- context [exp ?x] => replace x with 0 by (field; assumption) end.
  rewrite exp_0. ring.
Qed.

Example wca_one_iteration_reaches_zero : forall d : R, wca_d_max_next d 1 = 0.
Proof. intro d. unfold wca_d_max_next. field. Qed.

Example sa_three_steps : iter_sched (fun _ T => sa_T_next T (1 / 2)) 3 8 = 1.
Proof. simpl. unfold sa_T_next. field. Qed.
