(* C09 -- GP mutation, crossover and reproduction perform the subtree operations they name.

   Model: Model/TreeHeap.v (tied to /repo by the correspondence run of props/C09.py); proofs:
   Model/TreeHeap{Slot,Ops,Spec,Repro}.v.  Everything is stated on the abstraction [abs] of the heap and on
   the slot (node id, side) that [find_node] designates in the *parent*; [subst_at t s side b] replaces the
   child of node s on that side by b, [sub_at t s side] is that child; [erase] forgets node identities
   (offspring are made of fresh nodes).  No bound on tree sizes or population sizes. *)
From Coq Require Import List Arith Bool Lia ZArith Permutation.
From OV Require Import Model.TreeDef Model.TreeHeap Model.TreeHeapBase Model.TreeHeapSlot Model.TreeHeapCopy
  Model.TreeHeapGrow Model.TreeHeapOps Model.TreeHeapPop Model.TreeHeapSpec Model.TreeHeapRepro
  Model.TreeHeapFinal Model.TreeHeapSer Gen.TreeArity
  Model.TreeOpsDescr Model.TreeOpsModel Model.TreePopDescr Model.TreePopModel Model.TreeGrowDescr Model.TreeGrowModel
  Gen.TreeOps.
From OV Require Model.TreeAlgo Model.TreeAlgoDescr Gen.TreeAlgoDescr.
From OV Require Import Model.TreeHeapAlgoLink.
From OV Require Base.FloatKey Model.Prims Model.SelDescr Model.SelModel Gen.SelDescr.
From OV Require Import Model.TreeHeapSelLink.
Import ListNotations.

Theorem C09_arity_table_ok : tab_ok arity_tab.
Proof.
  intros op a H. unfold arity_tab in H.
  do 10 (destruct op as [|op]; [inversion H; auto|]). destruct op; discriminate.
Qed.

Definition gp_env (nt : nat) (funs : list nat) (d0 : nat) : genv := mkEnv nt funs arity_tab d0.

Lemma gp_env_ok : forall nt funs d0, funs_ok arity_tab funs -> arity_ok (gp_env nt funs d0).
Proof. intros. apply arity_ok_of; auto. exact C09_arity_table_ok. Qed.

(* on a well-formed tree, what find_node designates is an existing child slot *)
Theorem C09_find_node_slot : forall st t p s side,
  WFt arity_tab st t -> find_node st (tid t) p = Ok (Some s, side) -> exists u, sub_at t s side = Some u.
Proof. exact (find_node_slot arity_tab). Qed.

(* mutation: a copy of the parent in which only the selected slot is replaced by a freshly grown subtree,
   or a wholly fresh tree when no slot is selected *)
Theorem C09_mutate_spec : forall nt funs d0 st t maxn u ds1 m st' ds',
  funs_ok arity_tab funs -> nt <= narr st -> WFt arity_tab st t ->
  mutate (gp_env nt funs d0) st (tid t) maxn (u :: ds1) = Ok (m, st', ds') ->
  exists tm st1, abs st' m = Some tm /\ WFt arity_tab st' tm /\
    deepcopy st (tid t) = Ok (copy_ren st t (tid t), st1) /\
    match find_node st (tid t) (scale 2 maxn u) with
    | Ok (Some s, side) =>
      exists old tb st2, sub_at t s side = Some old /\
        grow (gp_env nt funs d0) d0 ds1 st1 = Ok (tid tb, st2, ds') /\ abs st2 (tid tb) = Some tb /\
        height tb <= S d0 /\
        erase tm = erase (subst_at t s side tb)
    | Ok (None, _) =>
      grow (gp_env nt funs d0) d0 ds1 st1 = Ok (m, st', ds') /\ height tm <= S d0
    | _ => False
    end.
Proof.
  intros nt funs d0 st t maxn u ds1 m st' ds' Hf.
  exact (mutate_spec _ (gp_env_ok nt funs d0 Hf) st t maxn u ds1 m st' ds').
Qed.

(* ... leaving the parent untouched: every cell that existed is unchanged, the parent is still the same
   well-formed tree, and no node of the result is a node of the parent *)
Theorem C09_mutate_frame : forall nt funs d0 st t maxn ds m st' ds',
  funs_ok arity_tab funs -> nt <= narr st -> WFt arity_tab st t ->
  mutate (gp_env nt funs d0) st (tid t) maxn ds = Ok (m, st', ds') ->
  (forall i, i < length (cells st) -> get st' i = get st i) /\ WFt arity_tab st' t /\
  exists tm, abs st' m = Some tm /\ forall x, In x (ids tm) -> length (cells st) <= x /\ ~ In x (ids t).
Proof.
  intros nt funs d0 st t maxn ds m st' ds' Hf.
  exact (mutate_frame _ (gp_env_ok nt funs d0 Hf) st t maxn ds m st' ds').
Qed.

(* crossover: two new trees in which exactly the selected slot of each parent has been exchanged with the
   other's; the combined multiset of node labels is conserved *)
Theorem C09_cross_spec : forall st tf tm maxf maxm uf um ds2 fo mo st' ds',
  WFt arity_tab st tf -> WFt arity_tab st tm ->
  cross st (tid tf) (tid tm) maxf maxm (uf :: um :: ds2) = Ok (fo, mo, st', ds') ->
  exists tfo tmo, abs st' fo = Some tfo /\ abs st' mo = Some tmo /\
    WFt arity_tab st' tfo /\ WFt arity_tab st' tmo /\
    (forall x, In x (ids tfo) -> ~ In x (ids tmo)) /\
    Permutation (labels tfo ++ labels tmo) (labels tf ++ labels tm) /\
    match find_node st (tid tf) (scale 2 maxf uf), find_node st (tid tm) (scale 2 maxm um) with
    | Ok (Some sf, ff), Ok (Some sm, fm) =>
      exists Bf Bm, sub_at tf sf ff = Some Bf /\ sub_at tm sm fm = Some Bm /\
        erase tfo = erase (subst_at tf sf ff Bm) /\ erase tmo = erase (subst_at tm sm fm Bf)
    | Ok _, Ok _ => erase tfo = erase tf /\ erase tmo = erase tm
    | _, _ => False
    end.
Proof. exact (cross_spec arity_tab). Qed.

(* on well-formed parents _cross never raises and never gets stuck: it does return two trees *)
Theorem C09_cross_total : forall st tf tm maxf maxm uf um ds2,
  WFt arity_tab st tf -> WFt arity_tab st tm ->
  exists fo mo st', cross st (tid tf) (tid tm) maxf maxm (uf :: um :: ds2) = Ok (fo, mo, st', ds2).
Proof. exact (cross_total arity_tab). Qed.

Theorem C09_cross_conserves : forall st tf tm maxf maxm uf um ds2 fo mo st' ds',
  WFt arity_tab st tf -> WFt arity_tab st tm ->
  cross st (tid tf) (tid tm) maxf maxm (uf :: um :: ds2) = Ok (fo, mo, st', ds') ->
  exists tfo tmo, abs st' fo = Some tfo /\ abs st' mo = Some tmo /\
    Permutation (labels tfo ++ labels tmo) (labels tf ++ labels tm).
Proof.
  intros st tf tm maxf maxm uf um ds2 fo mo st' ds' Hf Hm Hc.
  destruct (cross_spec arity_tab _ _ _ _ _ _ _ _ _ _ _ _ Hf Hm Hc) as (a & b & A & B & _ & _ & _ & C & _). eauto.
Qed.

(* ... leaving both parents untouched *)
Theorem C09_cross_frame : forall st tf tm maxf maxm ds fo mo st' ds',
  WFt arity_tab st tf -> WFt arity_tab st tm ->
  cross st (tid tf) (tid tm) maxf maxm ds = Ok (fo, mo, st', ds') ->
  (forall i, i < length (cells st) -> get st' i = get st i) /\ WFt arity_tab st' tf /\ WFt arity_tab st' tm /\
  exists tfo tmo, abs st' fo = Some tfo /\ abs st' mo = Some tmo /\
    forall x, In x (ids tfo ++ ids tmo) -> length (cells st) <= x /\ ~ In x (ids tf) /\ ~ In x (ids tm).
Proof. exact (cross_frame arity_tab). Qed.

(* reproduction: slot i of the new population holds the tree AND the agent of one and the same old
   individual src(i) ([holds]: tree equal up to node identity, agent with the same fit and position tag);
   slots outside ws are the same objects as before; slots in ws hold objects that did not exist before (deep
   copies) of a tournament winner.  ws / src are the index-level shadow of the loop (repro_ws / repro_src). *)
Theorem C09_reproduction_spec : forall nt funs d0 n tsize k picks P P' picks',
  Inv (gp_env nt funs d0) n P -> reproduction tsize k picks P = Ok (P', picks') ->
  exists sel, tournament tsize (map a_fit (p_agents P)) k picks = Ok (sel, picks') /\ length sel = k /\
    let fits := map a_fit (p_agents P) in
    let ws := repro_ws sel fits in
    let src := repro_src sel fits (seq 0 n) in
    (forall i, i < n -> holds (gp_env nt funs d0) P P' i (nth i src 0)) /\
    (forall i, ~ In i ws -> nth_error (p_trees P') i = nth_error (p_trees P) i /\
                            nth_error (p_agents P') i = nth_error (p_agents P) i) /\
    (forall i, In i ws -> exists r a, nth_error (p_trees P') i = Some r /\ length (cells (p_heap P)) <= r /\
                                      nth_error (p_agents P') i = Some a /\ p_next_aid P <= a_id a) /\
    (forall i, i < n -> In i ws -> In (nth i src 0) sel) /\
    (forall i, i < n -> ~ In i ws -> nth i src 0 = i).
Proof. intros nt funs d0 n. exact (reproduction_spec (gp_env nt funs d0) n). Qed.

(* with positive fitnesses: one distinct slot per tournament winner, and the overwritten slots are the
   worst-ranked ones (nobody that survives has a strictly larger fitness than somebody overwritten) *)
Theorem C09_reproduction_worst_ranked : forall sel fits,
  Forall (fun v => (0 < v)%Z) fits -> length sel <= length fits ->
  let ws := repro_ws sel fits in
  NoDup ws /\ length ws = length sel /\ (forall w, In w ws -> w < length fits) /\
  forall w j, In w ws -> j < length fits -> ~ In j ws -> (nth j fits 0 <= nth w fits 0)%Z.
Proof. exact repro_ws_worst. Qed.

(* KNOWN FINDING (o): without positivity the statement above is false -- [fitness[worst] = 0] makes the slot
   just overwritten the maximum again, so it is overwritten a second time instead of the next-worst one.
   Full statement refuted:  forall sel fits, length sel <= length fits -> NoDup (repro_ws sel fits). *)
Theorem C09_reproduction_nonpositive_refuted :
  exists sel fits, length sel <= length fits /\ ~ NoDup (repro_ws sel fits).
Proof. exact reproduction_nonpositive_refuted. Qed.

(* the same on the full model: fitnesses (-3,-1,-2), two tournaments both won by individual 0: slot 1 is
   overwritten twice (cells 3, then 4), slot 2 keeps its tree *)
Example C09_reproduction_refuted_run :
  bind (reproduction 2 2 [0;0;0;0] (fixture_pop 1 [ST 0; ST 0; ST 0] [(-3)%Z; (-1)%Z; (-2)%Z]))
       (fun x => Ok (p_trees (fst x))) = Ok [0; 4; 2].
Proof. vm_compute. reflexivity. Qed.

(* ---- non-vacuity: a crossover that really exchanges: SUM(T0, EXP(T1)) x SUB(T2, T0), points 3 (T1) and 2 (T0) *)
Example C09_cross_exchanges :
  let (rf, st1) := build (SB 0 (ST 0) (SU 4 (ST 1))) (mkH [] 3) in
  let (rm, st2) := build (SB 1 (ST 2) (ST 0)) st1 in
  match cross st2 rf rm 4 3 [(1,2); (0,1)] with
  | Ok (fo, mo, st', _) =>
    option_map erase (abs st' fo) =
      Some (LN (Fun 0) (Some (LN (Term 0) None None)) (Some (LN (Fun 4) (Some (LN (Term 0) None None)) None))) /\
    option_map erase (abs st' mo) =
      Some (LN (Fun 1) (Some (LN (Term 2) None None)) (Some (LN (Term 1) None None)))
  | _ => False
  end.
Proof. vm_compute. split; reflexivity. Qed.

(* ---- the operator bodies of the SOURCE are the ones of the model.
   Gen/TreeOps.v is regenerated from gp.py / tree.py on every run (translate/t_treeops.py): the sequence of
   pointer effects of every branch of _cross and _mutate, the deep copies, draws and find_node calls in order, the
   branch conditions, the returned names; and the linking statements of the argument loop of grow.  They are
   syntactically the model's descriptions ... *)
Theorem C09_cross_source_is_model : cross_src = cross_descr.
Proof. reflexivity. Qed.

Theorem C09_mutate_source_is_model : mutate_src = mutate_descr.
Proof. reflexivity. Qed.

Theorem C09_grow_link_source_is_model : grow_link_src = grow_link_descr.
Proof. reflexivity. Qed.

(* ... and interpreting the (regenerated) descriptions on an arbitrary heap with arbitrary scripts is the model
   function the theorems above are about *)
Theorem C09_cross_is_source : forall E st father mother maxf maxm ds,
  ret_cross (run E cross_src
               (mkCfg (init_env [VPtr (Some father); VPtr (Some mother); VNat maxf; VNat maxm] 13) st ds))
  = cross st father mother maxf maxm ds.
Proof. exact cross_is_descr. Qed.

Theorem C09_mutate_is_source : forall E st tree maxn ds,
  ret_mutate (run E mutate_src (mkCfg (init_env [VPtr (Some tree); VNat maxn] 7) st ds))
  = mutate E st tree maxn ds.
Proof. exact mutate_is_descr. Qed.

Theorem C09_grow_args_is_source : forall E (g : list frac -> hstate -> res (nat * hstate * list frac)) fn n i ds st,
  grow_args g fn (S n) i ds st =
  match g ds st with
  | Ok (node, st1, ds1) =>
    match run E grow_link_src (mkCfg [VNat i; VPtr (Some node); VPtr (Some fn)] st1 ds1) with
    | Ok (c, _) => grow_args g fn n (S i) ds1 (c_st c)
    | Exn => Exn
    | Stuck => Stuck
    end
  | Exn => Exn
  | Stuck => Stuck
  end.
Proof. exact grow_args_is_descr. Qed.

(* ---- the population-level code (_reproduction, _mutation, _crossover, _prune_nodes) and the selection /
   creation part of grow, regenerated from the source, are the model's descriptions ... *)
Theorem C09_reproduction_source_is_model : reproduction_src = repro_descr.
Proof. reflexivity. Qed.

Theorem C09_mutation_source_is_model : mutation_src = mutation_descr.
Proof. reflexivity. Qed.

Theorem C09_crossover_source_is_model : crossover_src = crossover_descr.
Proof. reflexivity. Qed.

Theorem C09_prune_source_is_model : prune_src = prune_descr.
Proof. reflexivity. Qed.

Theorem C09_grow_source_is_model : grow_src = grow_descr.
Proof. reflexivity. Qed.

(* ... and their interpretation is the model function (reproduction and crossover: for populations with as many
   agents as trees, which is part of the invariant Inv) *)
Theorem C09_reproduction_is_source : forall E G P picks ds,
  length (p_agents P) = length (p_trees P) ->
  pproj (prun E G reproduction_src (mkP (repeat PVUnset 5) P picks ds)) =
  bind (reproduction (gp_tsize G) (gp_nrep G) picks P) (fun r => Ok (fst r, snd r, ds)).
Proof. exact reproduction_is_descr. Qed.

Theorem C09_mutation_is_source : forall E G P picks ds,
  pproj (prun E G mutation_src (mkP (repeat PVUnset 6) P picks ds)) =
  bind (mutation E (gp_tsize G) (gp_ratio G) (gp_nmut G) picks ds P) (fun r => Ok (fst (fst r), snd (fst r), snd r)).
Proof. exact mutation_is_descr. Qed.

Theorem C09_crossover_is_source : forall E G P picks ds,
  length (p_agents P) = length (p_trees P) ->
  pproj (prun E G crossover_src (mkP (repeat PVUnset 8) P picks ds)) =
  bind (crossover (gp_tsize G) (gp_ratio G) (gp_ncross G) picks ds P) (fun r => Ok (fst (fst r), snd (fst r), snd r)).
Proof. exact crossover_is_descr. Qed.

Theorem C09_prune_is_source : forall ratio n, run_prune prune_src ratio n = prune ratio n.
Proof. exact prune_is_descr. Qed.

Theorem C09_grow_is_source : forall E d ds st,
  run_grow E (Nat.eqb d 0) (grow E (pred d)) grow_src 3 ds st = grow E d ds st.
Proof. exact grow_is_descr. Qed.

(* ---- what the operators call in core/node.py.  [find_node] (called by _mutate and _cross on the root of the deep
   copy), [n_nodes] (called by _mutation and _crossover) and [pre_order] of the heap model Model/TreeHeap.v are, on
   every heap that represents a tree, the interpretation of the descriptions REGENERATED from node.py
   (translate/t_treealgo.py -> Gen/TreeAlgoDescr.v, the same file C11 is about), the [par] / [flg] the interpreter
   reads being the stored parent / flag fields of the heap ([hpar st], [hflg st]).  For EVERY position p (0, in range,
   out of range).  Result maps ([res_of_fn], Model/TreeHeapAlgoLink.v): FnSlot q f -> Ok (q, f);
   FnAttrErr -> Exn; no answer (fuel) / FnOther -> Stuck, which never happens on a represented tree.
   The descriptions regenerated on this run are the ones the mirrors of Model/TreeAlgo.v implement ... *)
Theorem C09_descr_pre_order_regenerated :
  OV.Gen.TreeAlgoDescr.pre_order_descr = Some OV.Model.TreeAlgoDescr.descr_pre.
Proof. reflexivity. Qed.

Theorem C09_descr_find_node_regenerated :
  OV.Gen.TreeAlgoDescr.find_node_descr = Some OV.Model.TreeAlgoDescr.descr_find.
Proof. reflexivity. Qed.

Theorem C09_descr_properties_regenerated :
  OV.Gen.TreeAlgoDescr.properties_descr = Some OV.Model.TreeAlgoDescr.descr_props.
Proof. reflexivity. Qed.

(* ... the heap functions are the mirrors of Model/TreeAlgo.v on the represented tree ... *)
Theorem C09_find_node_heap_is_mirror : forall st t p, WFt arity_tab st t ->
  find_node st (tid t) p =
  res_of_fn (OV.Model.TreeAlgo.find_node_h (hpar st) (hflg st) t p).
Proof. exact (find_node_WFt_is_find_node_h arity_tab). Qed.

Theorem C09_n_nodes_heap_is_mirror : forall st t, WFt arity_tab st t ->
  n_nodes st (tid t) = res_of_count (OV.Model.TreeAlgo.props_bfs t).
Proof. exact (n_nodes_WFt_is_props_bfs arity_tab). Qed.

(* ... hence the regenerated code.  [dq]: find_node walks pre_order, whatever post_order is *)
Theorem C09_find_node_in_operators_is_node_py : forall dp df,
  OV.Gen.TreeAlgoDescr.pre_order_descr = Some dp -> OV.Gen.TreeAlgoDescr.find_node_descr = Some df ->
  forall dq st t p, WFt arity_tab st t ->
  find_node st (tid t) p =
  res_of_fn (OV.Model.TreeAlgoDescr.interp_find dp dq df (hpar st) (hflg st) t p).
Proof.
  exact (find_node_WFt_is_descr arity_tab _ _ C09_descr_pre_order_regenerated C09_descr_find_node_regenerated).
Qed.

(* the call sites themselves: _mutate / _cross call find_node on the root m of the deep copy, in the heap st1 the
   copy returned; that is a well-formed tree t' (equal to the parent up to node identity), and the call is the
   regenerated find_node on t' *)
Theorem C09_find_node_call_on_copy_is_node_py : forall dp df,
  OV.Gen.TreeAlgoDescr.pre_order_descr = Some dp -> OV.Gen.TreeAlgoDescr.find_node_descr = Some df ->
  forall st t m st1, WFt arity_tab st t -> deepcopy st (tid t) = Ok (m, st1) ->
  exists t', tid t' = m /\ WFt arity_tab st1 t' /\ erase t' = erase t /\
    forall dq p, find_node st1 m p =
                 res_of_fn (OV.Model.TreeAlgoDescr.interp_find dp dq df (hpar st1) (hflg st1) t' p).
Proof.
  exact (find_node_on_copy_is_descr arity_tab _ _ C09_descr_pre_order_regenerated C09_descr_find_node_regenerated).
Qed.

Theorem C09_n_nodes_in_operators_is_node_py : forall d,
  OV.Gen.TreeAlgoDescr.properties_descr = Some d ->
  forall st t, WFt arity_tab st t ->
  n_nodes st (tid t) = res_of_zcount (OV.Model.TreeAlgoDescr.interp_props d t).
Proof. exact (n_nodes_WFt_is_descr arity_tab _ C09_descr_properties_regenerated). Qed.

(* ---- what the population-level code calls in math/general.py.  [tournament] (called by [reproduction], [mutation],
   [crossover]: g.tournament_selection(fitness, n)) and [pairs] (the `for father, mother in g.pairwise(selected)` of
   _crossover, statement PForPairs) of the heap model are the interpretation of the bodies REGENERATED from general.py
   (translate/t_sel.py -> Gen/SelDescr.v, the same file C18 is about; regenerated by this check as well).
   Fitness values: the model compares integer codes with Z.min / Z.eqb; general.py compares floats.  On the numeric
   keys [nk k] of NaN-free floats (Base/FloatKey.v: -0.0 and +0.0 share one) -- and on ANY integer coding that
   preserves the IEEE order of the floats, as the harness's small codes do -- the two coincide for every tournament
   size, every fitness list, every n and every script of picks, the runs without a result included.  Result map
   [res_opt] (Model/TreeHeapSelLink.v): Ok x -> Some x; Exn (min of nothing) and Stuck (script exhausted, position
   outside the list) -> None, as the interpreter of Model/SelDescr.v answers.
   The bodies regenerated on this run are the descriptions Model/SelModel.v is about ... *)
Theorem C09_tournament_source_regenerated : OV.Gen.SelDescr.tournament_src = OV.Model.SelModel.tournament_descr.
Proof. reflexivity. Qed.

Theorem C09_pairwise_source_regenerated : OV.Gen.SelDescr.pairwise_src = OV.Model.SelModel.pairwise_descr.
Proof. reflexivity. Qed.

(* ... the heap model's selection is Model/Prims.v's, whatever the tournament size ... *)
Theorem C09_tournament_heap_is_prims : forall ts fitk n picks,
  res_opt (tournament ts (map OV.Base.FloatKey.nk fitk) n picks) = OV.Model.Prims.tournament ts fitk n picks.
Proof. exact heap_tournament_is_prims. Qed.

(* ... and depends on the order of the fitness codes only *)
Theorem C09_tournament_depends_on_order_only : forall (phi : Z -> Z) fit,
  (forall a b, In a fit -> In b fit -> (phi a <? phi b)%Z = (a <? b)%Z) ->
  forall ts n picks, tournament ts (map phi fit) n picks = tournament ts fit n picks.
Proof. exact heap_tournament_recode. Qed.

(* ... hence the regenerated code, at the regenerated TOURNAMENT_SIZE and at any other value of it *)
Theorem C09_tournament_in_gp_is_general_py : forall fitk n picks,
  res_opt (tournament tournament_size (map OV.Base.FloatKey.nk fitk) n picks) =
  OV.Model.SelDescr.run_tournament tournament_size OV.Gen.SelDescr.tournament_src fitk n picks.
Proof.
  intros. rewrite C09_tournament_source_regenerated, OV.Model.SelModel.tournament_is_descr.
  apply heap_tournament_is_prims.
Qed.

Theorem C09_tournament_in_gp_is_general_py_any_size : forall ts fitk n picks,
  res_opt (tournament ts (map OV.Base.FloatKey.nk fitk) n picks) =
  OV.Model.SelDescr.run_tournament ts OV.Gen.SelDescr.tournament_src fitk n picks.
Proof.
  intros. rewrite C09_tournament_source_regenerated, OV.Model.SelModel.tournament_is_descr.
  apply heap_tournament_is_prims.
Qed.

(* on integer codes: [code] any map of the numeric keys that preserves the IEEE order of the fitness values *)
Theorem C09_tournament_on_codes_is_general_py : forall (code : Z -> Z) fitk,
  (forall a b, In a fitk -> In b fitk ->
     (code (OV.Base.FloatKey.nk a) <? code (OV.Base.FloatKey.nk b))%Z = OV.Base.FloatKey.klt a b) ->
  forall ts n picks,
  res_opt (tournament ts (map (fun k => code (OV.Base.FloatKey.nk k)) fitk) n picks) =
  OV.Model.SelDescr.run_tournament ts OV.Gen.SelDescr.tournament_src fitk n picks.
Proof.
  intros code fitk H ts n picks.
  rewrite C09_tournament_source_regenerated, OV.Model.SelModel.tournament_is_descr.
  apply heap_tournament_codes_is_prims. exact H.
Qed.

(* g.pairwise(selected) on a list of indices: the tuples the returned iterator yields are [pairs] *)
Theorem C09_pairs_in_gp_is_general_py : forall ts (l : list nat),
  OV.Model.SelDescr.run_pairwise ts OV.Gen.SelDescr.pairwise_src (map OV.Model.SelDescr.AInt l) =
  Some (map (fun c => OV.Model.SelDescr.VTuple (map OV.Model.SelDescr.AInt c)) (pairs l)).
Proof.
  intros. rewrite C09_pairwise_source_regenerated, OV.Model.SelModel.pairwise_is_descr,
    OV.Model.SelModel.pairwise_map, map_map, heap_pairs_is_prims_pairwise. reflexivity.
Qed.
