(* C07 (IR part) — agents are independent objects and the population keeps its size and shape.
   Property theorems only; the proofs are in Analysis/Distinct.v.  See notes/C07_ir.md. *)
From Coq Require Import String ZArith List Bool Arith Lia Permutation.
From OV Require Import Base.FloatKey Model.Clip Model.IR Model.IRSem Analysis.SemLemmas Analysis.Distinct Gen.Programs.
Import ListNotations.
Close Scope Z_scope.
Open Scope nat_scope.

(* For EVERY IR program [p] (in particular the 17 regenerated ones), every box, objective, hook that
   preserves the invariant, iteration count, oracle and initial state satisfying the invariant:
   at every hook, at every dump and in the final state the population has its initial length, the array
   identifiers of the agents and of the best agent are pairwise distinct, and every position has the row
   lengths it had initially. *)
Theorem C07_ir (p : stmt) lbs ubs f hk n_iter n sp o x0 x' evs o' :
  (forall x, Inv n sp x -> Inv n sp (hk x)) ->
  Inv n sp x0 ->
  run lbs ubs f hk n_iter okc_std p o x0 = Some (x', evs, o') ->
  c07_claim x0 x' /\ Forall (ev_claim x0) evs.
Proof. intros H1 H2 H3. exact (proj2 (c07_all p lbs ubs f hk n_iter n sp o x0 x' evs o' H1 H2 H3)). Qed.

(* the observer hook *)
Theorem C07_ir_observer (p : stmt) lbs ubs f n_iter n sp o x0 x' evs o' :
  Inv n sp x0 ->
  run lbs ubs f (fun x => x) n_iter okc_std p o x0 = Some (x', evs, o') ->
  c07_claim x0 x' /\ Forall (ev_claim x0) evs.
Proof. intros H2 H3. exact (proj2 (c07_all p lbs ubs f (fun x => x) n_iter n sp o x0 x' evs o' (fun x H => H) H2 H3)). Qed.

(* the full invariant (identifiers of agents, best, trial and shadows pairwise distinct and below [next];
   uniform shape of all positions and local positions) at every hook, dump and at return *)
Theorem C07_ir_inv (p : stmt) lbs ubs f hk n_iter n sp o x0 x' evs o' :
  (forall x, Inv n sp x -> Inv n sp (hk x)) ->
  Inv n sp x0 ->
  run lbs ubs f hk n_iter okc_std p o x0 = Some (x', evs, o') ->
  Inv n sp x' /\ Forall (ev_inv n sp) evs.
Proof. intros H1 H2 H3. exact (proj1 (c07_all p lbs ubs f hk n_iter n sp o x0 x' evs o' H1 H2 H3)). Qed.

(* what the claim says, spelled out *)
Theorem C07_claim_spelled x0 y :
  c07_claim x0 y <->
  length (pop y) = length (pop x0) /\
  NoDup (map aid (pop y) ++ [aid (best y)]) /\
  map (fun a => map (@length okey) (apos a)) (pop y) = map (fun a => map (@length okey) (apos a)) (pop x0) /\
  map (@length okey) (apos (best y)) = map (@length okey) (apos (best x0)).
Proof. reflexivity. Qed.

(* `agents.sort(key=lambda x: x.fit)` only reorders the agent objects *)
Theorem C07_sort_is_permutation l : Permutation (sort_fit l) l.
Proof. exact (sort_fit_perm l). Qed.

(* no statement form needs a restriction: the per-program obligation is trivially true *)
Theorem C07_check_all : forallb (fun p => c07_check (snd p)) all_progs = true.
Proof. vm_compute. reflexivity. Qed.

(* ---------------------------------------------------------------- histories of tasks on one space
   The invariant is its own pre- and postcondition, so it survives any finite sequence of tasks on one space
   (any programs, in particular different optimizers one after the other; run() re-creates its local arrays). *)
Inductive tasks7 (lbs ubs : list Z) (f : contents -> Z) (hk : st -> st) (n_iter : nat) (sp : list nat) :
  list stmt -> st -> list event -> st -> Prop :=
| tasks7_nil x : tasks7 lbs ubs f hk n_iter sp [] x [] x
| tasks7_cons p ps x lc o x1 evs1 o1 evs2 x2 :
    Forall (fun c => shp c = sp) lc ->
    run lbs ubs f hk n_iter okc_std p o (with_loc x lc) = Some (x1, evs1, o1) ->
    tasks7 lbs ubs f hk n_iter sp ps x1 evs2 x2 ->
    tasks7 lbs ubs f hk n_iter sp (p :: ps) x (evs1 ++ evs2) x2.

Theorem C07_task_histories (ps : list stmt) lbs ubs f hk n_iter n sp x0 evs x' :
  (forall x, Inv n sp x -> Inv n sp (hk x)) ->
  Inv n sp x0 ->
  tasks7 lbs ubs f hk n_iter sp ps x0 evs x' ->
  Inv n sp x' /\ Forall (ev_inv n sp) evs.
Proof.
  intros Hhk H0 Ht. induction Ht as [x|p ps x lc o x1 evs1 o1 evs2 x2 Hlc Hrun Ht IH].
  - split; [exact H0|constructor].
  - assert (Hs : Inv n sp (with_loc x lc)).
    { destruct H0 as [A B C D E]. constructor; simpl; assumption. }
    destruct (C07_ir_inv p lbs ubs f hk n_iter n sp o (with_loc x lc) x1 evs1 o1 Hhk Hs Hrun) as [H1 H2].
    destruct (IH H1) as [H3 H4]. split; [exact H3|]. apply Forall_app. split; assumption.
Qed.

(* ---------------------------------------------------------------- non-vacuity *)
Definition ag (v : Z) (i : nat) (ft : Z) : agent := {| apos := [[Some v]]; aid := i; afit := ft |}.

Definition x0_ex : st :=
  {| pop := [ag 1 0 KMAX; ag 2 1 KMAX]; best := ag 0 2 KMAX; tr := ag 0 3 KMAX; sh := [];
     loc := [[[Some 0%Z]]; [[Some 0%Z]]]; tmp := 0%Z; idx := []; next := 4; hyp := [];
     tv := [[[Some 5%Z]]; [[Some 7%Z]]]; btv := [[Some 0%Z]] |}.

Definition f_ex (c : contents) : Z := match c with [[Some v]] => v | _ => 0%Z end.

Example x0_ex_inv : Inv 2 [1] x0_ex.
Proof.
  constructor; simpl; try reflexivity.
  - repeat constructor; simpl; intuition discriminate.
  - repeat constructor.
  - repeat constructor.
  - repeat constructor.
Qed.

(* BHA: the run below executes `SwapPos Cur Best; SwapFit Cur Best` (slot 0 moves to -5 < best): agent 0 ends
   with the array the best agent received by deep copy in the first sweep (identifier 4), the best agent with
   agent 0's original array (identifier 0) *)
Definition o_bha : list answer := [ACont [[Some (-5)%Z]]; ACont [[Some 4%Z]]; ABool false; ABool false].

Example bha_runs : exists x' evs o',
  run [(-10)%Z] [10%Z] f_ex (fun x => x) 1 okc_std prog_BHA o_bha x0_ex = Some (x', evs, o') /\
  map aid (pop x') = [4; 1] /\ aid (best x') = 0 /\ c07_claim x0_ex x'.
Proof.
  destruct (run [(-10)%Z] [10%Z] f_ex (fun x => x) 1 okc_std prog_BHA o_bha x0_ex) as [[[x' evs] o']|] eqn:E;
    [|vm_compute in E; discriminate].
  exists x', evs, o'. split; [reflexivity|].
  pose proof (C07_ir_observer _ _ _ _ _ _ _ _ _ _ _ _ x0_ex_inv E) as [Hc _].
  vm_compute in E. injection E as <- _ _. split; [reflexivity|]. split; [reflexivity|exact Hc].
Qed.

(* PSO: fresh arrays from the velocity update, best position copied from the local positions *)
Definition o_pso : list answer := [ACont [[Some 3%Z]]; ACont [[Some (-4)%Z]]].

Example pso_runs : exists x' evs o',
  run [(-10)%Z] [10%Z] f_ex (fun x => x) 1 okc_std prog_PSO o_pso x0_ex = Some (x', evs, o') /\
  map aid (pop x') = [5; 6] /\ aid (best x') = 7.
Proof. eexists _, _, _. split; vm_compute; [reflexivity|split; reflexivity]. Qed.

(* GP: reproduction stores a deep copy of agent 1 into slot 0; every slot is re-derived from its tree *)
Definition o_gp : list answer :=
  [ANat 1; ANat 0; ANat 1; ATrees [[[Some 7%Z]]; [[Some 7%Z]]];      (* reproduction: one replacement *)
   ANat 0;                                                            (* crossover: no pair *)
   ANat 0].                                                           (* mutation: none *)

Example gp_runs : exists x' evs o',
  run [(-10)%Z] [10%Z] f_ex (fun x => x) 1 okc_std prog_GP o_gp x0_ex = Some (x', evs, o') /\
  NoDup (map aid (pop x') ++ [aid (best x')]).
Proof.
  destruct (run [(-10)%Z] [10%Z] f_ex (fun x => x) 1 okc_std prog_GP o_gp x0_ex) as [[[x' evs] o']|] eqn:E;
    [|vm_compute in E; discriminate].
  exists x', evs, o'. split; [reflexivity|].
  pose proof (C07_ir_observer _ _ _ _ _ _ _ _ _ _ _ _ x0_ex_inv E) as [(_ & Hc & _) _]. exact Hc.
Qed.

(* the invariant is not trivially true: a state in which agent 0 and the best agent share an array *)
Example aliased_state_rejected :
  ~ Inv 2 [1] (with_best x0_ex (ag 0 0 KMAX)).
Proof.
  intros [_ H _ _ _]. vm_compute in H.
  inversion H as [|? ? Hn _]; subst. apply Hn. simpl. tauto.
Qed.

(* the same over Analysis/Tasks.v: every task with its own optimizer, objective, iteration count, draw stream and its own
   invariant-preserving hook *)
From OV Require Import Analysis.Tasks.

Theorem C07_task_histories_general lbs ubs n sp ts x0 rs x' :
  Forall (fun t => (forall x, Inv n sp x -> Inv n sp (thk t x)) /\ Forall (fun c => shp c = sp) (tlc t)) ts ->
  Inv n sp x0 ->
  thist lbs ubs okc_std ts x0 rs x' ->
  Forall (fun r => Forall (ev_inv n sp) (snd (fst r))) rs /\ Inv n sp x'.
Proof.
  intros HQ H0 Ht. induction Ht as [x|t ts x x1 evs1 o1 rest x2 Hrun Ht IH].
  - split; [constructor|exact H0].
  - destruct (Forall_inv HQ) as [Hhk Hlc].
    assert (Hs : Inv n sp (with_loc x (tlc t))).
    { destruct H0 as [A B C D E]. constructor; simpl; assumption. }
    destruct (C07_ir_inv (tp t) lbs ubs (tf t) (thk t) (tn t) n sp (tor t) _ x1 evs1 o1 Hhk Hs Hrun) as [H1 H2].
    destruct (IH (Forall_inv_tail HQ) H1) as [H3 H4]. split; [constructor; [exact H2|exact H3]|exact H4].
Qed.
