(* C05 -- runs are reproducible from the NumPy seed alone.
   What a Coq theorem can carry of this property: the semantics of the regenerated programs is a FUNCTION of the
   configuration (box, objective, hook, iteration count, initial space) and of the draw stream (the oracle) and
   of nothing else -- there is no ambient input (clock, process history, hash seed, module state) it could read:
   T2 aborts on, or reports as `ambient`, every construct that would read one, and the driver requires that list
   to be empty for every optimizer; and the stream is actually consumed.  That CPython/NumPy themselves are
   deterministic is outside any model; the run monitor tests it on pairs of real runs (see DESIGN.md, partial). *)
From Coq Require Import String ZArith List Bool Arith Lia.
From OV Require Import Base.FloatKey Model.Clip Model.IR Model.IRSem Analysis.AbsInt Analysis.SemLemmas Analysis.Counts Analysis.Iterations Gen.Programs.
Import ListNotations.
Close Scope Z_scope.
Close Scope string_scope.
Open Scope list_scope.

(* non-interference with an explicit ambient parameter: whatever the ambient state is, equal configurations and
   equal draw streams give equal final states, equal histories (all EvDump records) and equal event traces *)
Theorem C05_run_depends_only_on_configuration_and_stream :
  forall (Ambient : Type) (amb1 amb2 : Ambient) p lbs ubs f hk n_iter okc o x0,
    (fun _ : Ambient => run lbs ubs f hk n_iter okc p o x0) amb1 =
    (fun _ : Ambient => run lbs ubs f hk n_iter okc p o x0) amb2.
Proof. reflexivity. Qed.

(* the stream is consumed: a run makes at least  pv (cminl KDraw p) N T  calls into the random primitives
   (N = n_agents, T = n_iterations), for every oracle *)
Theorem C05_draws_lower_bound :
  forall p lbs ubs f hk n_iter okc, (forall x, length (pop (hk x)) = length (pop x)) ->
  forall o x0 x' evs o', run lbs ubs f hk n_iter okc p o x0 = Some (x', evs, o') ->
    pv (cminl KDraw p) (length (pop x0)) n_iter <= cnt KDraw evs.
Proof.
  intros p lbs ubs f hk n_iter okc Hl o x0 x' evs o' Hr.
  etransitivity; [apply cminl_cmin|].
  exact (proj2 (cmin_sound lbs ubs f hk n_iter okc Hl KDraw (length (pop x0)) p None o x0 x' evs o' eq_refl Hr)).
Qed.

Example C05_pso_draws : cminl KDraw prog_PSO = (0, 0, 0, 2).     (* 2 draws per agent per iteration *)
Proof. vm_compute. reflexivity. Qed.

(* ------------------------------------------------------------------ histories of tasks
   A whole history of tasks on one space (Analysis/Tasks.v) is a function of the start state and of the tasks -- programs,
   objectives, hooks, iteration counts and draw streams -- and of nothing else: two histories with equal tasks from equal
   start states have equal records (start state, event trace, end state of every task) and equal final states; and every
   task of every history consumes at least its lower bound of draws. *)
From OV Require Import Analysis.Tasks.

Theorem C05_history_depends_only_on_tasks_and_streams :
  forall lbs ubs okc ts x0 rs1 x1 rs2 x2,
    thist lbs ubs okc ts x0 rs1 x1 -> thist lbs ubs okc ts x0 rs2 x2 -> rs1 = rs2 /\ x1 = x2.
Proof. intros lbs ubs okc ts x0 rs1 x1 rs2 x2. apply thist_functional. Qed.

Theorem C05_task_histories_consume_the_stream :
  forall lbs ubs okc ts x0 rs x', Forall (fun t => forall x, length (pop (thk t x)) = length (pop x)) ts ->
    thist lbs ubs okc ts x0 rs x' ->
    Forall2 (fun t r => pv (cminl KDraw (tp t)) (length (pop (fst (fst r)))) (tn t) <= cnt KDraw (snd (fst r))) ts rs.
Proof.
  intros lbs ubs okc ts x0 rs x' HQ Ht.
  eapply (thist_lift lbs ubs okc _ (fun t r => pv (cminl KDraw (tp t)) (length (pop (fst (fst r)))) (tn t) <= cnt KDraw (snd (fst r))));
    [|exact HQ|exact Ht].
  intros t xs x1 evs o1 Hl Hr. simpl.
  exact (C05_draws_lower_bound (tp t) lbs ubs (tf t) (thk t) (tn t) okc Hl (tor t) xs x1 evs o1 Hr).
Qed.
