(* C11 -- tree measurements and traversals agree with their definitions.
   Property theorems only; each is closed by `exact` of a lemma of Model/TreeAlgoProofs.v.
   The algorithms ([pre_stack], [post_stack], [props_bfs], [find_node]) are the executable mirrors of
   core/node.py in Model/TreeAlgo.v; the definitions ([pre_rec], [post_rec], [size], [leaves],
   [min_leaf_depth], [max_leaf_depth]) are the recursive ones of Model/TreeDef.v.  All statements are for
   every tree, with no bound on size or depth; [ids] stands for Python object identity. *)
From Coq Require Import List Arith Bool ZArith Permutation.
From OV Require Import Model.TreeDef Model.TreeAlgo Model.TreeAlgoProofs Model.TreeMeasures Model.TreeAlgoDescr Model.TreeAlgoDescrProofs.
From OV Require Gen.TreeAlgoDescr.
From OV Require Model.TreeHeap Model.TreeHeapBase.
From OV Require Import Model.TreeHeapAlgoLink.
Import ListNotations.

(* ---- n_nodes, n_leaves, min_depth, max_depth: the level-order sweep of _properties *)
Theorem C11_measurements : forall t,
  props_bfs t = Some (size t, leaves t, Z.of_nat (min_leaf_depth t), Z.of_nat (max_leaf_depth t)).
Proof. exact props_bfs_correct. Qed.

(* the four numbers are mutually consistent, for every tree (unary nodes allowed):
   1 <= n_leaves <= n_nodes, 0 <= min_depth <= max_depth < n_nodes, n_leaves <= 2^max_depth, n_nodes < 2^(max_depth+1) *)
Theorem C11_measurements_coherent : forall t n lv mn mx, props_bfs t = Some (n, lv, mn, mx) ->
  1 <= lv /\ lv <= n /\ (0 <= mn <= mx)%Z /\ (mx < Z.of_nat n)%Z /\
  lv <= 2 ^ Z.to_nat mx /\ S n <= 2 ^ S (Z.to_nat mx).
Proof. exact props_bfs_coherent. Qed.

Theorem C11_single_node_iff_leaf : forall t, size t = 1 <-> is_leaf t = true.
Proof. exact size_one_iff_leaf. Qed.

Theorem C11_depth_zero_iff_leaf : forall t, max_leaf_depth t = 0 <-> is_leaf t = true.
Proof. exact max_depth_zero_iff_leaf. Qed.

(* ---- pre_order: explicit stack = root-left-right *)
Theorem C11_pre_order : forall t, pre_stack t = Some (pre_rec t).
Proof. exact pre_stack_correct. Qed.

(* ---- post_order: one stack with the `stacked[-1] is self.right` peek = left-right-root *)
Theorem C11_post_order : forall t, NoDup (ids t) -> post_stack t = Some (post_rec t).
Proof. exact post_stack_correct. Qed.

(* ---- the fuel of the models is no restriction: any larger fuel gives the same list *)
Theorem C11_pre_order_any_fuel : forall t f, size t <= f -> pre_loop f [t] [] = Some (pre_rec t).
Proof. exact pre_loop_fuel. Qed.

Theorem C11_post_order_any_fuel : forall t f, NoDup (ids t) -> cost t <= f ->
  post_loop f (Some t) [] [] = Some (post_rec t).
Proof. exact post_loop_fuel. Qed.

Theorem C11_post_order_fuel_bound : forall t, cost t < 2 * size t.
Proof. exact cost_le. Qed.

(* ---- both orders list every node exactly once *)
Theorem C11_pre_order_lists_every_node : forall t c, In c (pre_rec t) <-> node_of t c.
Proof. exact pre_rec_complete. Qed.

Theorem C11_pre_order_length : forall t, length (pre_rec t) = size t.
Proof. exact length_pre_rec. Qed.

Theorem C11_post_order_same_nodes : forall t, Permutation (pre_rec t) (post_rec t).
Proof. exact pre_post_permutation. Qed.

Theorem C11_pre_order_no_repeats : forall t, NoDup (ids t) -> NoDup (pre_rec t).
Proof. exact pre_rec_nodup. Qed.

Theorem C11_post_order_no_repeats : forall t, NoDup (ids t) -> NoDup (post_rec t).
Proof. exact post_rec_nodup. Qed.

(* ---- find_node: for every in-range p >= 1 the answer is the slot (parent, side) under which the p-th
   pre-order node hangs if it is a terminal, the slot under which that node's parent hangs if it is a
   function, and (None, False) when that parent is the root (hangs nowhere). *)
Theorem C11_find_node_slot : forall t p, NoDup (ids t) -> 1 <= p < size t ->
  exists c q side, nth_error (pre_rec t) p = Some c /\ hangs t c q side /\
    match tlab c with
    | Term _ => find_node t p = Some (FnSlot (Some (tid q)) side)
    | Fun _ => (q = t /\ find_node t p = Some (FnSlot None false))
               \/ (exists g s2, hangs t q g s2 /\ find_node t p = Some (FnSlot (Some (tid g)) s2))
    end.
Proof. exact find_node_slot. Qed.

(* "the" slot: it is unique *)
Theorem C11_slot_unique : forall t c q side q' side', NoDup (ids t) ->
  hangs t c q side -> hangs t c q' side' -> q = q' /\ side = side'.
Proof. exact hangs_unique. Qed.

(* the same, as a list: the answers for p = 0 .. size-1 are the recursively specified ones, in any heap
   with unique ids whose parent/flag fields are the structural links of t *)
Theorem C11_find_node_answers : forall t tbl p,
  NoDup (map fst tbl) -> incl (heap_of t) tbl ->
  find_node_tbl tbl t p =
  if Nat.ltb p (size t) then nth_error (fn_spec_list (None, true) None t) p else Some (FnSlot None false).
Proof. exact find_node_tbl_spec. Qed.

(* outside the property text, recorded for completeness: p >= size gives (None, False); p = 0 gives
   (None, True) for a terminal root and raises AttributeError for a function root *)
Theorem C11_find_node_out_of_range : forall t p, size t <= p -> find_node t p = Some (FnSlot None false).
Proof. exact find_node_out_of_range. Qed.

Theorem C11_find_node_root : forall t, NoDup (ids t) ->
  find_node t 0 = Some (match tlab t with Term _ => FnSlot None true | Fun _ => FnAttrErr end).
Proof. exact find_node_root. Qed.

(* ---- the trees of the correspondence run (pre-order numbering) satisfy the NoDup hypothesis *)
Theorem C11_corr_trees_have_unique_ids : forall s, NoDup (ids (tree_of s)).
Proof. exact tree_of_nodup. Qed.

(* ---- the tie to the source: translate/t_treealgo.py regenerates Gen/TreeAlgoDescr.v from core/node.py on every
   check; each regenerated description is, literally, the description that the mirror of Model/TreeAlgo.v implements
   (an edit of node.py that changes a push order, a condition, an accumulator update or a returned expression
   makes these fail, whatever the sampled correspondence sees) ... *)
Theorem C11_descr_pre_order_regenerated : OV.Gen.TreeAlgoDescr.pre_order_descr = Some descr_pre.
Proof. reflexivity. Qed.

Theorem C11_descr_post_order_regenerated : OV.Gen.TreeAlgoDescr.post_order_descr = Some descr_post.
Proof. reflexivity. Qed.

Theorem C11_descr_properties_regenerated : OV.Gen.TreeAlgoDescr.properties_descr = Some descr_props.
Proof. reflexivity. Qed.

Theorem C11_descr_find_node_regenerated : OV.Gen.TreeAlgoDescr.find_node_descr = Some descr_find.
Proof. reflexivity. Qed.

(* ... and the interpreter of the descriptions, run on them, is the mirror (every tree, every heap) *)
Theorem C11_interp_pre_order : forall t, interp_pre descr_pre t = pre_stack t.
Proof. exact interp_pre_eq. Qed.

Theorem C11_interp_post_order : forall t, interp_post descr_post t = post_stack t.
Proof. exact interp_post_eq. Qed.

Theorem C11_interp_properties : forall t, interp_props descr_props t = option_map props_to_z (props_bfs t).
Proof. exact interp_props_eq. Qed.

Theorem C11_interp_find_node : forall par flg t p,
  interp_find descr_pre descr_post descr_find par flg t p = find_node_h par flg t p.
Proof. exact interp_find_eq. Qed.

Theorem C11_descr_post_descend_keeps_cur : keeps_cur (post_descend descr_post) = true.
Proof. exact descr_post_keeps_cur. Qed.

(* end to end: whatever was regenerated from the source, interpreted, computes the recursive definitions *)
Theorem C11_source_pre_order : forall d, OV.Gen.TreeAlgoDescr.pre_order_descr = Some d ->
  forall t, interp_pre d t = Some (pre_rec t).
Proof. exact (pre_of_descr _ C11_descr_pre_order_regenerated). Qed.

Theorem C11_source_post_order : forall d, OV.Gen.TreeAlgoDescr.post_order_descr = Some d ->
  forall t, NoDup (ids t) -> interp_post d t = Some (post_rec t).
Proof. exact (post_of_descr _ C11_descr_post_order_regenerated). Qed.

Theorem C11_source_measurements : forall d, OV.Gen.TreeAlgoDescr.properties_descr = Some d ->
  forall t, interp_props d t =
            Some (Z.of_nat (size t), Z.of_nat (leaves t), Z.of_nat (min_leaf_depth t), Z.of_nat (max_leaf_depth t)).
Proof. exact (props_of_descr _ C11_descr_properties_regenerated). Qed.

Theorem C11_source_find_node : forall dp dq df,
  OV.Gen.TreeAlgoDescr.pre_order_descr = Some dp -> OV.Gen.TreeAlgoDescr.post_order_descr = Some dq ->
  OV.Gen.TreeAlgoDescr.find_node_descr = Some df ->
  forall t tbl p, NoDup (map fst tbl) -> incl (heap_of t) tbl ->
  interp_find dp dq df (par_of tbl) (flg_of tbl) t p =
  if Nat.ltb p (size t) then nth_error (fn_spec_list (None, true) None t) p else Some (FnSlot None false).
Proof. exact (find_of_descr _ _ _ C11_descr_pre_order_regenerated C11_descr_post_order_regenerated C11_descr_find_node_regenerated). Qed.

(* ---- non-vacuity *)
Definition ex_tree : tree :=     (* SUM(EXP(x0), MUL(x1, ABS(x2))) with pre-order ids *)
  N 0 (Fun 0) (Some (N 1 (Fun 4) (Some (N 2 (Term 0) None None)) None))
              (Some (N 3 (Fun 2) (Some (N 4 (Term 1) None None))
                                 (Some (N 5 (Fun 7) (Some (N 6 (Term 2) None None)) None)))).

Example C11_ex_nodup : NoDup (ids ex_tree).
Proof. exact (tree_of_nodup (Sh false (Some (Sh false (Some (Sh true None None)) None))
                                      (Some (Sh false (Some (Sh true None None))
                                                      (Some (Sh false (Some (Sh true None None)) None)))))). Qed.

Example C11_ex_measurements : props_bfs ex_tree = Some (7, 3, 2%Z, 3%Z).
Proof. vm_compute. reflexivity. Qed.

Example C11_ex_orders :
  ids_of (pre_stack ex_tree) = Some [0; 1; 2; 3; 4; 5; 6] /\ ids_of (post_stack ex_tree) = Some [2; 1; 4; 6; 5; 3; 0].
Proof. vm_compute. split; reflexivity. Qed.

(* p = 2: terminal x0 -> its own slot (node 1, left); p = 5: function ABS -> the slot of its parent MUL
   (node 0, right); p = 1: function EXP whose parent is the root -> (None, False); p = 7: out of range *)
Example C11_ex_find_node :
  map (find_node ex_tree) [1; 2; 3; 4; 5; 6; 7] =
  [Some (FnSlot None false); Some (FnSlot (Some 1) true); Some (FnSlot None false); Some (FnSlot (Some 3) true);
   Some (FnSlot (Some 0) false); Some (FnSlot (Some 5) true); Some (FnSlot None false)].
Proof. vm_compute. reflexivity. Qed.

(* a right-only chain: the shapes the unit tests never reach *)
Example C11_ex_right_chain :
  let t := N 0 (Fun 0) None (Some (N 1 (Fun 0) None (Some (N 2 (Term 0) None None)))) in
  props_bfs t = Some (3, 1, 2%Z, 2%Z) /\ ids_of (post_stack t) = Some [2; 1; 0] /\
  find_node t 2 = Some (FnSlot (Some 1) false).
Proof. vm_compute. repeat split; reflexivity. Qed.

(* ---- the NoDup hypothesis of C11_post_order is needed: when a right child "is" (has the id of) its
   grandparent, the identity peek misfires and the root is never listed *)
Example C11_post_order_needs_unique_ids :
  ~ NoDup (ids dup_tree) /\ post_stack dup_tree <> Some (post_rec dup_tree).
Proof.
  split; [| exact post_stack_needs_nodup].
  intros H. inversion H as [| x l Hn _]. apply Hn. vm_compute. auto.
Qed.

(* ---- the second model of the same code.  Model/TreeHeap.v (the pointer-level heap the GP operators of C08/C09 run
   on) has its own [pre_order], [find_node], [n_nodes], reading stored left / right / parent / flag fields of cells.
   On every heap that represents a tree t ([Rep tab st par fl t]: laid out in st, the root cell storing parent
   [par]; [NoDup (ids t)]; for find_node: if the root stores a parent, that cell exists) they compute what the
   mirrors above compute on t, with [par] / [flg] := the stored fields ([hpar st], [hflg st]); for every position.
   Result maps: Some (FnSlot q f) -> Ok (q, f); Some FnAttrErr -> Exn; None / FnOther -> Stuck (never happens).
   Proofs: Model/TreeHeapAlgoLink.v. *)
Theorem C11_heap_pre_order_is_pre_stack : forall tab st par fl t,
  OV.Model.TreeHeapBase.Rep tab st par fl t -> NoDup (ids t) ->
  exists po, pre_stack t = Some po /\ OV.Model.TreeHeap.pre_order st (tid t) = OV.Model.TreeHeap.Ok (map tid po).
Proof. exact pre_order_heap_is_pre_stack. Qed.

Theorem C11_heap_find_node_is_find_node_h : forall tab st par fl t p,
  OV.Model.TreeHeapBase.Rep tab st par fl t -> NoDup (ids t) -> parent_alloc st par ->
  OV.Model.TreeHeap.find_node st (tid t) p = res_of_fn (find_node_h (hpar st) (hflg st) t p).
Proof. exact find_node_heap_is_find_node_h. Qed.

Theorem C11_heap_find_node_never_stuck : forall tab st par fl t p,
  OV.Model.TreeHeapBase.Rep tab st par fl t -> NoDup (ids t) -> parent_alloc st par ->
  OV.Model.TreeHeap.find_node st (tid t) p <> OV.Model.TreeHeap.Stuck.
Proof. exact find_node_heap_never_stuck. Qed.

Theorem C11_heap_n_nodes_is_props_bfs : forall tab st par fl t,
  OV.Model.TreeHeapBase.Rep tab st par fl t -> NoDup (ids t) ->
  OV.Model.TreeHeap.n_nodes st (tid t) = res_of_count (props_bfs t).
Proof. exact n_nodes_heap_is_props_bfs. Qed.

(* ... hence the regenerated descriptions *)
Theorem C11_heap_source_pre_order : forall tab dp, OV.Gen.TreeAlgoDescr.pre_order_descr = Some dp ->
  forall st par fl t, OV.Model.TreeHeapBase.Rep tab st par fl t -> NoDup (ids t) ->
  OV.Model.TreeHeap.pre_order st (tid t) = res_of_ids (interp_pre dp t).
Proof. exact (fun tab => pre_order_heap_is_descr tab _ C11_descr_pre_order_regenerated). Qed.

Theorem C11_heap_source_find_node : forall tab dp df,
  OV.Gen.TreeAlgoDescr.pre_order_descr = Some dp -> OV.Gen.TreeAlgoDescr.find_node_descr = Some df ->
  forall dq st par fl t p, OV.Model.TreeHeapBase.Rep tab st par fl t -> NoDup (ids t) -> parent_alloc st par ->
  OV.Model.TreeHeap.find_node st (tid t) p = res_of_fn (interp_find dp dq df (hpar st) (hflg st) t p).
Proof.
  exact (fun tab => find_node_heap_is_descr tab _ _ C11_descr_pre_order_regenerated C11_descr_find_node_regenerated).
Qed.

Theorem C11_heap_source_n_nodes : forall tab d, OV.Gen.TreeAlgoDescr.properties_descr = Some d ->
  forall st par fl t, OV.Model.TreeHeapBase.Rep tab st par fl t -> NoDup (ids t) ->
  OV.Model.TreeHeap.n_nodes st (tid t) = res_of_zcount (interp_props d t).
Proof. exact (fun tab => n_nodes_heap_is_descr tab _ C11_descr_properties_regenerated). Qed.

(* the guard [parent_alloc] is needed only against dangling pointers, which no Python state has: a function cell whose
   stored parent is not allocated makes the heap model raise where the mirror reads None *)
Example C11_heap_find_node_differs_outside :
  ~ parent_alloc dangling_heap (Some 5) /\
  OV.Model.TreeHeap.find_node dangling_heap 0 0 = OV.Model.TreeHeap.Exn /\
  res_of_fn (find_node_h (hpar dangling_heap) (hflg dangling_heap) dangling_tree 0) = OV.Model.TreeHeap.Ok (None, false).
Proof. exact find_node_differs_outside. Qed.

(* non-vacuity: SUM(EXP(x0), MUL(x1, x2)) as grow links it; from the root, and from the attached sub-root MUL (cell 3,
   stored parent = the root): the answers /repo gives (root, p = 0: AttributeError; MUL, p = 0: (None, False)) *)
Example C11_ex_heap_represents :
  OV.Model.TreeHeapBase.WFt ex_tab ex_heap ex_root /\ OV.Model.TreeHeapBase.Rep ex_tab ex_heap (Some 0) false ex_sub.
Proof. exact ex_heap_represents. Qed.

Example C11_ex_heap_find_node :
  map (OV.Model.TreeHeap.find_node ex_heap 0) [0; 1; 2; 3; 4; 5; 6; 7] =
  [OV.Model.TreeHeap.Exn; OV.Model.TreeHeap.Ok (None, false); OV.Model.TreeHeap.Ok (Some 1, true);
   OV.Model.TreeHeap.Ok (None, false); OV.Model.TreeHeap.Ok (Some 3, true); OV.Model.TreeHeap.Ok (Some 3, false);
   OV.Model.TreeHeap.Ok (None, false); OV.Model.TreeHeap.Ok (None, false)] /\
  map (OV.Model.TreeHeap.find_node ex_heap 3) [0; 1; 2; 3] =
  [OV.Model.TreeHeap.Ok (None, false); OV.Model.TreeHeap.Ok (Some 3, true); OV.Model.TreeHeap.Ok (Some 3, false);
   OV.Model.TreeHeap.Ok (None, false)].
Proof. vm_compute. split; reflexivity. Qed.
