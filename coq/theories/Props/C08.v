(* C08 -- every GP tree is a well-formed expression tree, disjoint from all others.

   Model: Model/TreeHeap.v (pointer-level, tied to /repo by the correspondence run of props/C08.py);
   proofs: Model/TreeHeap{Base,Slot,Copy,Grow,Ops,Pop,Final}.v.  The arity table is the one regenerated
   from utils/constants.py (Gen/TreeArity.v).  No bound on tree sizes, depths, population sizes or the
   number of steps anywhere below.

   Vocabulary: [WFt tab st t] = the functional tree t (ids = cell indices) is laid out in heap st with
   root parent None, every child's stored parent/flag agreeing with where it hangs, function nodes having
   exactly the children their arity requires, terminals being leaves holding an existing array, and
   NoDup (ids t) (no node reachable twice).  [abs st r] reads the child pointers from r.
   [heap_ext st st'] = every cell of st is still there, unchanged.  [height] counts levels (a single
   node has height 1, as min_depth >= 1 does in the library). *)
From Coq Require Import List Arith Bool Lia ZArith Permutation.
From OV Require Import Model.TreeDef Model.TreeHeap Model.TreeHeapBase Model.TreeHeapSlot Model.TreeHeapCopy
  Model.TreeHeapGrow Model.TreeHeapOps Model.TreeHeapPop Model.TreeHeapSpec Model.TreeHeapFinal Gen.TreeArity
  Model.TreeOpsDescr Model.TreeOpsModel Model.TreePopDescr Model.TreePopModel Model.TreeGrowDescr Model.TreeGrowModel
  Gen.TreeOps.
From OV Require Model.TreeAlgo Model.TreeAlgoDescr Gen.TreeAlgoDescr.
From OV Require Import Model.TreeHeapAlgoLink.
Import ListNotations.

(* every entry of the regenerated N_ARGS_FUNCTION is 1 or 2 *)
Theorem C08_arity_table_ok : tab_ok arity_tab.
Proof.
  intros op a H. unfold arity_tab in H.
  do 10 (destruct op as [|op]; [inversion H; auto|]). destruct op; discriminate.
Qed.

Definition gp_env (nt : nat) (funs : list nat) (d0 : nat) : genv := mkEnv nt funs arity_tab d0.

Lemma gp_env_ok : forall nt funs d0, funs_ok arity_tab funs -> arity_ok (gp_env nt funs d0).
Proof. intros. apply arity_ok_of; auto. exact C08_arity_table_ok. Qed.

(* TreeSpace.grow: for every script of draws, every function set, every depth budget *)
Theorem C08_grow_wf : forall nt funs d0 d ds st r st' ds',
  funs_ok arity_tab funs -> nt <= narr st ->
  grow (gp_env nt funs d0) d ds st = Ok (r, st', ds') ->
  heap_ext st st' /\
  exists t, abs st' r = Some t /\ tid t = r /\ WFt arity_tab st' t /\
    (forall i, In i (ids t) -> length (cells st) <= i < length (cells st')) /\
    height t <= S d /\ (forall k, In (Term k) (labels t) -> k < nt).
Proof. exact (grow_wf arity_tab C08_arity_table_ok). Qed.

(* freshly grown trees are no deeper than max_depth *)
Theorem C08_grow_depth : forall nt funs d0 mn mx ds st r st' ds',
  funs_ok arity_tab funs -> nt <= narr st -> 1 <= mn <= mx ->
  grow (gp_env nt funs d0) (mx - mn) ds st = Ok (r, st', ds') ->
  exists t, abs st' r = Some t /\ height t <= mx.
Proof. exact (grow_depth arity_tab C08_arity_table_ok). Qed.

(* progress: under the uniform contract (draws are fractions n/d with n < d) and with 2^(d+1)-1 draws
   available, grow returns a tree -- C08_grow_wf is not vacuous for any function set / depth *)
Theorem C08_grow_total : forall nt funs d0 d ds st,
  funs_ok arity_tab funs -> 0 < nt -> Forall frac_ok ds -> needs d <= length ds ->
  exists r st' ds' pre, grow (gp_env nt funs d0) d ds st = Ok (r, st', ds') /\ ds = pre ++ ds' /\ length pre <= needs d.
Proof. intros nt funs d0 d ds st Hf Hnt. exact (grow_total _ (gp_env_ok nt funs d0 Hf) Hnt d ds st). Qed.

(* copy.deepcopy of a well-formed tree (best tree; the first step of _mutate, _cross, _reproduction) *)
Theorem C08_deepcopy_wf : forall st t, WFt arity_tab st t ->
  exists r st' t', deepcopy st (tid t) = Ok (r, st') /\ heap_ext st st' /\ abs st' r = Some t' /\
    WFt arity_tab st' t' /\ erase t' = erase t /\
    (forall i, In i (ids t') -> length (cells st) <= i < length (cells st')).
Proof. exact (deepcopy_wf arity_tab). Qed.

Theorem C08_mutate_wf : forall nt funs d0 st t maxn ds m st' ds',
  funs_ok arity_tab funs -> nt <= narr st -> WFt arity_tab st t ->
  mutate (gp_env nt funs d0) st (tid t) maxn ds = Ok (m, st', ds') ->
  heap_ext st st' /\ exists tm, abs st' m = Some tm /\ WFt arity_tab st' tm /\
    (forall i, In i (ids tm) -> length (cells st) <= i < length (cells st')).
Proof. exact (mutate_wf arity_tab C08_arity_table_ok). Qed.

Theorem C08_cross_wf : forall st tf tm maxf maxm ds fo mo st' ds',
  WFt arity_tab st tf -> WFt arity_tab st tm ->
  cross st (tid tf) (tid tm) maxf maxm ds = Ok (fo, mo, st', ds') ->
  heap_ext st st' /\ exists tfo tmo, abs st' fo = Some tfo /\ abs st' mo = Some tmo /\
    WFt arity_tab st' tfo /\ WFt arity_tab st' tmo /\ NoDup (ids tfo ++ ids tmo) /\
    (forall i, In i (ids tfo ++ ids tmo) -> length (cells st) <= i < length (cells st')).
Proof. exact (cross_wf arity_tab). Qed.

(* ---- population level.  Inv E n P: g_nt <= narr, length trees = length agents = n, and there are
   functional trees ts for (best_tree :: trees), each laid out well-formed, with NoDup over ALL their ids
   (Inv_meaning below unfolds it). *)
Theorem C08_inv_meaning : forall nt funs d0 n P, Inv (gp_env nt funs d0) n P ->
  length (p_trees P) = n /\
  exists tb ts, tid tb = p_best P /\ WFt arity_tab (p_heap P) tb /\
    Forall2 (fun r t => tid t = r /\ WFt arity_tab (p_heap P) t) (p_trees P) ts /\
    NoDup (ids tb ++ all_ids ts).
Proof. intros nt funs d0. exact (Inv_meaning (gp_env nt funs d0)). Qed.

(* TreeSpace._create_trees *)
Theorem C08_create_trees_inv : forall nt funs d0 n ds P ds',
  funs_ok arity_tab funs ->
  create_trees (gp_env nt funs d0) n ds = Ok (P, ds') ->
  Inv (gp_env nt funs d0) n P /\
  exists ts, Forall2 (fun r t => tid t = r /\ WFt arity_tab (p_heap P) t) (p_trees P) ts /\
             Forall (fun t => height t <= S d0) ts.
Proof. intros nt funs d0 n ds P ds' Hf. exact (create_trees_inv _ (gp_env_ok nt funs d0 Hf) n ds P ds'). Qed.

(* each of reproduction / crossover / mutation / evaluation sweep (best-tree copy) preserves the invariant *)
Theorem C08_gp_step_inv : forall nt funs d0 n s P P',
  funs_ok arity_tab funs ->
  Inv (gp_env nt funs d0) n P -> do_step (gp_env nt funs d0) s P = Ok P' -> Inv (gp_env nt funs d0) n P'.
Proof. intros nt funs d0 n s P P' Hf. exact (gp_step_inv _ (gp_env_ok nt funs d0 Hf) n s P P'). Qed.

(* hence any sequence of steps, of any length *)
Theorem C08_gp_run_inv : forall nt funs d0 n ss P P',
  funs_ok arity_tab funs ->
  Inv (gp_env nt funs d0) n P -> do_steps (gp_env nt funs d0) ss P = Ok P' -> Inv (gp_env nt funs d0) n P'.
Proof. intros nt funs d0 n ss P P' Hf. exact (gp_run_inv _ (gp_env_ok nt funs d0 Hf) n ss P P'). Qed.

(* GP._update as the code composes it *)
Theorem C08_gp_update_inv : forall nt funs d0 n G picks ds P P' picks' ds',
  funs_ok arity_tab funs ->
  Inv (gp_env nt funs d0) n P -> gp_update (gp_env nt funs d0) G picks ds P = Ok (P', picks', ds') ->
  Inv (gp_env nt funs d0) n P'.
Proof. intros nt funs d0 n G picks ds P P' picks' ds' Hf. exact (gp_update_inv _ (gp_env_ok nt funs d0 Hf) n G picks ds P P' picks' ds'). Qed.

Theorem C08_sweep_inv : forall nt funs d0 n fits P P' fits',
  Inv (gp_env nt funs d0) n P -> sweep fits P = Ok (P', fits') -> Inv (gp_env nt funs d0) n P'.
Proof. intros nt funs d0 n. exact (sweep_inv (gp_env nt funs d0) n). Qed.

(* ---- non-vacuity *)
(* an initial population of three trees over {SUB, SQRT}, then one full _update and a sweep, all succeed *)
Example C08_run_exists :
  exists P P2 pk ds2, create_trees (gp_env 2 [1; 5] 2) 3 [(0,4);(2,4);(3,4);(1,4);(2,4);(3,4);(0,4);(3,4);(2,4)] = Ok (P, [(0,4);(3,4);(2,4)]) /\
     gp_update (gp_env 2 [1; 5] 2) (mkGP tournament_size (0,1) 1 2 1) [0;1;1;2;0;2;2;1] [(1,2);(0,2);(1,4);(2,4);(0,4);(3,4);(2,4)] P = Ok (P2, pk, ds2) /\
     length (p_trees P2) = 3.
Proof. vm_compute. do 4 eexists. split; [reflexivity|]. split; reflexivity. Qed.

(* the predicate rejects an ill-linked heap: a child whose parent link is missing *)
Example C08_wf_rejects_missing_parent_link : ~ WF arity_tab bad_heap 0.
Proof. exact (wf_rejects_missing_parent_link arity_tab). Qed.

(* ---- the operator bodies of the SOURCE are the ones of the model.
   Gen/TreeOps.v is regenerated from gp.py / tree.py on every run (translate/t_treeops.py): the sequence of
   pointer effects of every branch of _cross and _mutate, the deep copies, draws and find_node calls in order, the
   branch conditions, the returned names; and the linking statements of the argument loop of grow.  They are
   syntactically the model's descriptions ... *)
Theorem C08_cross_source_is_model : cross_src = cross_descr.
Proof. reflexivity. Qed.

Theorem C08_mutate_source_is_model : mutate_src = mutate_descr.
Proof. reflexivity. Qed.

Theorem C08_grow_link_source_is_model : grow_link_src = grow_link_descr.
Proof. reflexivity. Qed.

(* ... and interpreting the (regenerated) descriptions on an arbitrary heap with arbitrary scripts is the model
   function the theorems above are about *)
Theorem C08_cross_is_source : forall E st father mother maxf maxm ds,
  ret_cross (run E cross_src
               (mkCfg (init_env [VPtr (Some father); VPtr (Some mother); VNat maxf; VNat maxm] 13) st ds))
  = cross st father mother maxf maxm ds.
Proof. exact cross_is_descr. Qed.

Theorem C08_mutate_is_source : forall E st tree maxn ds,
  ret_mutate (run E mutate_src (mkCfg (init_env [VPtr (Some tree); VNat maxn] 7) st ds))
  = mutate E st tree maxn ds.
Proof. exact mutate_is_descr. Qed.

Theorem C08_grow_args_is_source : forall E (g : list frac -> hstate -> res (nat * hstate * list frac)) fn n i ds st,
  grow_args g fn (S n) i ds st =
  match g ds st with
  | Ok (node, st1, ds1) =>
    match run E grow_link_src (mkCfg [VNat i; VPtr (Some node); VPtr (Some fn)] st1 ds1) with
    | Ok (c, _) => grow_args g fn n (S i) ds1 (c_st c)
    | Exn => Exn
    | Stuck => Stuck
    end
  | Exn => Exn
  | Stuck => Stuck
  end.
Proof. exact grow_args_is_descr. Qed.

(* ---- the population-level code (_reproduction, _mutation, _crossover, _prune_nodes) and the selection /
   creation part of grow, regenerated from the source, are the model's descriptions ... *)
Theorem C08_reproduction_source_is_model : reproduction_src = repro_descr.
Proof. reflexivity. Qed.

Theorem C08_mutation_source_is_model : mutation_src = mutation_descr.
Proof. reflexivity. Qed.

Theorem C08_crossover_source_is_model : crossover_src = crossover_descr.
Proof. reflexivity. Qed.

Theorem C08_prune_source_is_model : prune_src = prune_descr.
Proof. reflexivity. Qed.

Theorem C08_grow_source_is_model : grow_src = grow_descr.
Proof. reflexivity. Qed.

(* ... and their interpretation is the model function (reproduction and crossover: for populations with as many
   agents as trees, which is part of the invariant Inv) *)
Theorem C08_reproduction_is_source : forall E G P picks ds,
  length (p_agents P) = length (p_trees P) ->
  pproj (prun E G reproduction_src (mkP (repeat PVUnset 5) P picks ds)) =
  bind (reproduction (gp_tsize G) (gp_nrep G) picks P) (fun r => Ok (fst r, snd r, ds)).
Proof. exact reproduction_is_descr. Qed.

Theorem C08_mutation_is_source : forall E G P picks ds,
  pproj (prun E G mutation_src (mkP (repeat PVUnset 6) P picks ds)) =
  bind (mutation E (gp_tsize G) (gp_ratio G) (gp_nmut G) picks ds P) (fun r => Ok (fst (fst r), snd (fst r), snd r)).
Proof. exact mutation_is_descr. Qed.

Theorem C08_crossover_is_source : forall E G P picks ds,
  length (p_agents P) = length (p_trees P) ->
  pproj (prun E G crossover_src (mkP (repeat PVUnset 8) P picks ds)) =
  bind (crossover (gp_tsize G) (gp_ratio G) (gp_ncross G) picks ds P) (fun r => Ok (fst (fst r), snd (fst r), snd r)).
Proof. exact crossover_is_descr. Qed.

Theorem C08_prune_is_source : forall ratio n, run_prune prune_src ratio n = prune ratio n.
Proof. exact prune_is_descr. Qed.

Theorem C08_grow_is_source : forall E d ds st,
  run_grow E (Nat.eqb d 0) (grow E (pred d)) grow_src 3 ds st = grow E d ds st.
Proof. exact grow_is_descr. Qed.

(* ---- what the operators call in core/node.py: [pre_order] (read by deepcopy and find_node), [find_node] (_mutate,
   _cross) and [n_nodes] (_mutation, _crossover) of the heap model are, on every well-formed heap tree, the
   interpretation of the descriptions REGENERATED from node.py (translate/t_treealgo.py -> Gen/TreeAlgoDescr.v, the
   file C11 is about); the parent / flag fields the interpreter reads are the stored ones ([hpar st], [hflg st]).
   Proofs and the exact result maps: Model/TreeHeapAlgoLink.v. *)
Theorem C08_descr_pre_order_regenerated :
  OV.Gen.TreeAlgoDescr.pre_order_descr = Some OV.Model.TreeAlgoDescr.descr_pre.
Proof. reflexivity. Qed.

Theorem C08_descr_find_node_regenerated :
  OV.Gen.TreeAlgoDescr.find_node_descr = Some OV.Model.TreeAlgoDescr.descr_find.
Proof. reflexivity. Qed.

Theorem C08_descr_properties_regenerated :
  OV.Gen.TreeAlgoDescr.properties_descr = Some OV.Model.TreeAlgoDescr.descr_props.
Proof. reflexivity. Qed.

Theorem C08_pre_order_in_operators_is_node_py : forall dp,
  OV.Gen.TreeAlgoDescr.pre_order_descr = Some dp ->
  forall st t, WFt arity_tab st t ->
  pre_order st (tid t) = res_of_ids (OV.Model.TreeAlgoDescr.interp_pre dp t).
Proof. exact (pre_order_WFt_is_descr arity_tab _ C08_descr_pre_order_regenerated). Qed.

Theorem C08_find_node_in_operators_is_node_py : forall dp df,
  OV.Gen.TreeAlgoDescr.pre_order_descr = Some dp -> OV.Gen.TreeAlgoDescr.find_node_descr = Some df ->
  forall dq st t p, WFt arity_tab st t ->
  find_node st (tid t) p =
  res_of_fn (OV.Model.TreeAlgoDescr.interp_find dp dq df (hpar st) (hflg st) t p).
Proof.
  exact (find_node_WFt_is_descr arity_tab _ _ C08_descr_pre_order_regenerated C08_descr_find_node_regenerated).
Qed.

Theorem C08_n_nodes_in_operators_is_node_py : forall d,
  OV.Gen.TreeAlgoDescr.properties_descr = Some d ->
  forall st t, WFt arity_tab st t ->
  n_nodes st (tid t) = res_of_zcount (OV.Model.TreeAlgoDescr.interp_props d t).
Proof. exact (n_nodes_WFt_is_descr arity_tab _ C08_descr_properties_regenerated). Qed.

(* the population invariant gives the hypothesis for every tree the loops hand to n_nodes / _mutate / _cross *)
Theorem C08_inv_trees_are_represented : forall nt funs d0 n P, Inv (gp_env nt funs d0) n P ->
  forall i r, nth_error (p_trees P) i = Some r -> exists t, tid t = r /\ WFt arity_tab (p_heap P) t.
Proof.
  intros nt funs d0 n P HI i r Hr.
  destruct (C08_inv_meaning nt funs d0 n P HI) as (_ & tb & ts & _ & _ & HF & _).
  revert i Hr. induction HF as [| r0 t0 rs ts0 [E W] HF IH]; intros [|i] Hr; simpl in Hr; try discriminate.
  - inversion Hr; subst. eauto.
  - eauto.
Qed.
