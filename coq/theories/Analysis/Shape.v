(* C03, "hook first": every call of the pre-evaluation hook is immediately followed by a full evaluation
   sweep that evaluates, in population order, exactly the state the hook left behind.

   Domain: [Some false] = no hook pending, [Some true] = the last event is the hook's and nothing has
   happened since, [None] = unknown (any further atom alarms).  A [Hook] needs [Some false]; after a hook
   the only statement accepted is the sweep loop [ForSlots (sweep_body k)], recognised modulo location tags. *)
From Coq Require Import String ZArith List Bool Arith Lia.
From OV Require Import Base.FloatKey Model.Clip Model.IR Model.IRSem Analysis.SemLemmas Analysis.AbsInt Analysis.Sweep Analysis.Counts.
Import ListNotations.
Close Scope Z_scope.
Open Scope nat_scope.

Definition sa := option bool.

Definition sa_leb (a b : sa) : bool :=
  match b with
  | None => true
  | Some y => match a with Some x => Bool.eqb x y | None => false end
  end.

Definition sa_join (a b : sa) : sa :=
  match a, b with
  | Some x, Some y => if Bool.eqb x y then Some x else None
  | _, _ => None
  end.

Definition c03 (l : nat) (why : string) : list alarm := [(l, ("C03: " ++ why)%string)].

Definition sa_atom (l : nat) (s : stmt) (a : sa) : sa * list alarm :=
  match a with
  | Some false => match s with
                  | Hook => (Some true, [])
                  | _ => if is_atom s then (Some false, []) else (None, c03 l "not an atomic statement")
                  end
  | Some true => (None, c03 l "a statement other than the evaluation sweep follows the hook")
  | None => (None, c03 l "hook/sweep pairing lost (branches disagree)")
  end.

Definition sa_assume (c : cond) (b : bool) (a : sa) : sa := a.
Definition sa_enter (a : sa) : sa := a.
Definition sa_exit (a : sa) : sa := a.

Definition sa_special (k : sweep_kind) (l : nat) (incur : bool) (s : stmt) (a : sa) : option (sa * list alarm) :=
  match a, incur with
  | Some true, false => if stmt_eqb (strip s) (ForSlots (sweep_body k)) then Some (Some false, []) else None
  | _, _ => None
  end.

Definition sa_absint (k : sweep_kind) := absint sa sa_leb sa_join sa_atom sa_assume sa_enter sa_exit (sa_special k).

Definition shape_check (k : sweep_kind) (p : stmt) : bool :=
  match sa_absint k 0 false p (Some false) with
  | (Some false, []) => true
  | _ => false
  end.

Section Shape.
  Variables (lbs ubs : list Z) (f : contents -> Z) (hk : st -> st) (n_iter : nat) (okc : contents -> contents -> bool).
  Variable k : sweep_kind.
  Notation exec := (exec lbs ubs f hk n_iter okc).

  (* what must follow a hook event that reported state y *)
  Definition after_hook (y : st) (e2 : list event) : Prop :=
    exists cs e3, sweep_args lbs ubs k y = Some cs /\ length cs = length (pop y) /\ e2 = evals_of f cs ++ e3.

  Definition HS (h : list event) : Prop :=
    forall e1 y e2, h = e1 ++ EvHook y :: e2 -> after_hook y e2.

  Definition SG (a : sa) (cur : option nat) (x : st) (h : list event) : Prop :=
    match a with
    | None => True
    | Some false => HS h
    | Some true => exists e, h = e ++ [EvHook x] /\ HS e
    end.

  Definition nohook (evs : list event) : Prop := forall y, ~ In (EvHook y) evs.

  Lemma cnt0_nohook evs : cnt KHook evs = 0 -> nohook evs.
  Proof.
    unfold cnt. induction evs as [|e evs IH]; intros H y Hin; simpl in H; [destruct Hin|].
    destruct Hin as [Hy|Hy].
    - subst e. simpl in H. discriminate.
    - destruct (kind_eqb (kind_of e) KHook); [discriminate|]. eapply IH; eassumption.
  Qed.

  Lemma evals_nohook cs : nohook (evals_of f cs).
  Proof. intros y H. unfold evals_of in H. apply in_map_iff in H as (c & Hc & _). discriminate. Qed.

  (* splitting an append at a hook event *)
  Lemma app_hook_split (a b e1 e2 : list event) y :
    a ++ b = e1 ++ EvHook y :: e2 ->
    (exists r, a = e1 ++ EvHook y :: r /\ e2 = r ++ b) \/ (exists r, e1 = a ++ r /\ b = r ++ EvHook y :: e2).
  Proof.
    revert e1. induction a as [|z a IH]; intros e1 H; simpl in H.
    - right. exists e1. split; [reflexivity|exact H].
    - destruct e1 as [|z1 e1]; simpl in H.
      + injection H as -> <-. left. exists a. split; reflexivity.
      + injection H as -> H. destruct (IH _ H) as [(r & -> & ->)|(r & -> & ->)].
        * left. exists r. split; reflexivity.
        * right. exists r. split; reflexivity.
  Qed.

  Lemma HS_app_nohook h evs : HS h -> nohook evs -> HS (h ++ evs).
  Proof.
    intros Hh Hn e1 y e2 H. apply app_hook_split in H as [(r & -> & ->)|(r & -> & Hb)].
    - destruct (Hh _ _ _ eq_refl) as (cs & e3 & Hc & Hl & ->). exists cs, (e3 ++ evs). rewrite app_assoc. auto.
    - exfalso. apply (Hn y). rewrite Hb. apply in_or_app. right. left. reflexivity.
  Qed.

  Lemma HS_hook_sweep e x cs : HS e -> sweep_args lbs ubs k x = Some cs -> length cs = length (pop x) ->
    HS ((e ++ [EvHook x]) ++ evals_of f cs).
  Proof.
    intros He Hc Hl e1 y e2 H. rewrite <- app_assoc in H. simpl in H.
    apply app_hook_split in H as [(r & -> & ->)|(r & -> & Hb)].
    - destruct (He _ _ _ eq_refl) as (cs' & e3 & Hc' & Hl' & ->). exists cs', (e3 ++ EvHook x :: evals_of f cs).
      rewrite app_assoc. auto.
    - destruct r as [|z r]; simpl in Hb.
      + injection Hb as <- <-. exists cs, []. rewrite app_nil_r. auto.
      + injection Hb as _ Hb. exfalso. apply (evals_nohook cs y). rewrite Hb. apply in_or_app. right. left. reflexivity.
  Qed.

  Hypothesis hk_len : forall x, length (pop (hk x)) = length (pop x).

  Lemma sa_atom_sound : forall l s a a', is_atom s = true -> sa_atom l s a = (a', []) ->
    forall cur o x h x' evs o', SG a cur x h -> exec_atom lbs ubs f hk okc cur s o x = Some (x', evs, o') ->
    SG a' cur x' (h ++ evs).
  Proof.
    intros l s a a' Hat Hab cur o x h x' evs o' HG Hex.
    destruct a as [[|]|]; simpl in Hab; try discriminate.
    destruct (stmt_eq_dec s Hook) as [->|Hne].
    - injection Hab as <-. simpl in Hex. injection Hex as <- <- <-. simpl. exists h. split; [reflexivity|exact HG].
    - assert (Ha' : a' = Some false).
      { destruct s; simpl in Hat; try discriminate; simpl in Hab; try (injection Hab as <-; reflexivity). congruence. }
      subst a'. simpl in *. apply HS_app_nohook; [exact HG|]. apply cnt0_nohook.
      rewrite (exec_atom_cnt lbs ubs f hk okc KHook s cur o x x' evs o' Hat Hex).
      destruct s; simpl in Hat; try discriminate; try reflexivity; try congruence.
  Qed.

  Lemma sa_special_sound : forall l incur s a a', sa_special k l incur s a = Some (a', []) ->
    forall cur o x h x' evs o', (if incur then exists i, cur = Some i else cur = None) ->
    SG a cur x h -> exec cur s o x = Some (x', evs, o') -> SG a' cur x' (h ++ evs).
  Proof.
    intros l incur s a a' Hsp cur o x h x' evs o' Hcur HG Hex.
    unfold sa_special in Hsp. destruct a as [[|]|]; try discriminate. destruct incur; [discriminate|].
    destruct (stmt_eqb (strip s) (ForSlots (sweep_body k))) eqn:Eq; [|discriminate]. injection Hsp as <-.
    apply stmt_eqb_eq in Eq. rewrite <- exec_strip, Eq in Hex.
    apply sweep_events in Hex as (cs & Hcs & -> & -> & Hl & _).
    destruct HG as (e & -> & He). simpl. apply HS_hook_sweep; assumption.
  Qed.

  Lemma sa_leb_refl a : sa_leb a a = true.
  Proof. destruct a as [[|]|]; reflexivity. Qed.
  Lemma sa_leb_trans a b c : sa_leb a b = true -> sa_leb b c = true -> sa_leb a c = true.
  Proof. destruct a as [[|]|], b as [[|]|], c as [[|]|]; simpl; intros; try reflexivity; try discriminate. Qed.
  Lemma sa_join_l a b : sa_leb a (sa_join a b) = true.
  Proof. destruct a as [[|]|], b as [[|]|]; reflexivity. Qed.
  Lemma sa_join_r a b : sa_leb b (sa_join a b) = true.
  Proof. destruct a as [[|]|], b as [[|]|]; reflexivity. Qed.

  Lemma SG_mono a b cur x h : sa_leb a b = true -> SG a cur x h -> SG b cur x h.
  Proof. destruct a as [[|]|], b as [[|]|]; simpl; intros H G; try discriminate; auto. Qed.

  Theorem sa_sound : forall s l a a', sa_absint k l false s a = (a', []) ->
    forall o x h x' evs o', SG a None x h -> exec None s o x = Some (x', evs, o') -> SG a' None x' (h ++ evs).
  Proof.
    intros s l a a' Habs o x h x' evs o' HG Hex.
    eapply (absint_sound lbs ubs f hk n_iter okc sa sa_leb sa_join sa_atom sa_assume sa_enter sa_exit (sa_special k) SG)
      with (incur := false) (cur := None); try eassumption; try reflexivity.
    - apply sa_leb_refl.
    - apply sa_leb_trans.
    - apply sa_join_l.
    - apply sa_join_r.
    - apply SG_mono.
    - intros; eapply sa_atom_sound; eassumption.
    - intros; assumption.
    - intros; assumption.
    - intros; assumption.
    - intros; eapply sa_special_sound; eassumption.
  Qed.

  (* C03: every hook event of every run is followed at once by the evaluation, in order, of the state it reported *)
  Theorem hook_then_sweep p :
    shape_check k p = true ->
    forall o x0 x' evs o', run lbs ubs f hk n_iter okc p o x0 = Some (x', evs, o') ->
    forall e1 y e2, evs = e1 ++ EvHook y :: e2 ->
      exists cs e3, sweep_args lbs ubs k y = Some cs /\ length cs = length (pop y) /\ e2 = evals_of f cs ++ e3.
  Proof.
    unfold shape_check. intros Hc o x0 x' evs o' Hr.
    destruct (sa_absint k 0 false p (Some false)) as [a' al] eqn:E.
    destruct a' as [[|]|]; try discriminate. destruct al; [|discriminate].
    pose proof (sa_sound p 0 (Some false) (Some false) E o x0 [] x' evs o') as HS0. simpl in HS0.
    apply HS0; [|exact Hr]. intros e1 y e2 H. destruct e1; discriminate.
  Qed.
End Shape.
