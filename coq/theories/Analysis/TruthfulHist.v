(* C20 over histories of tasks on one space, for the optimizers outside the particle-swarm family.

   For a program that is not of the swarm family the start condition of the C20 theorems (Analysis/Truthful.v: [init_ok false])
   asks only for a feasible population and well-formed auxiliary agents -- no sentinel fitness.  The state a task of the C01
   history theorem ends in (Analysis/FeasibleRelSound.v: [restart_ok]) provides exactly that, so the two compose: every record
   of every task of a history is truthful, and within a task no individual (no rank) gets worse.
   The swarm family is excluded on purpose: there the start condition needs every fitness above every objective value, which a
   continued space violates -- and the unchanged code really does record an inherited personal-best fitness next to a
   re-created local position (known finding history:PSO-family:record-fit-not-f(local)). *)
From Coq Require Import String ZArith List Bool Arith Lia.
From OV Require Import Base.FloatKey Model.Clip Model.IR Model.IRSem Analysis.AbsInt Analysis.SemLemmas Analysis.Feasible
  Analysis.FeasibleRel Analysis.FeasibleRelSound Analysis.Truthful.
Import ListNotations.
Close Scope Z_scope.
Open Scope nat_scope.

Section Hist.
  Variables (lbs ubs : list Z) (f : contents -> Z) (n_iter : nat).
  Variable INIT : list contents.
  Hypothesis box_ok : Forall2 (fun l h => kle l h = true) lbs ubs.

  Definition seg := (st * list event * st)%type.
  Definition seg_start (s : seg) : st := fst (fst s).
  Definition seg_evs (s : seg) : list event := snd (fst s).
  Definition seg_end (s : seg) : st := snd s.

  (* a history with its tasks kept apart: (state the task started in, its events, state it ended in) *)
  Inductive tasks20 : list stmt -> st -> list seg -> st -> Prop :=
  | tasks20_nil x : tasks20 [] x [] x
  | tasks20_cons p ps x lc o x1 evs1 o1 segs x2 :
      Forall (fun c => In c INIT /\ wf lbs c) lc ->
      run lbs ubs f hk n_iter okc p o (with_loc x lc) = Some (x1, evs1, o1) ->
      tasks20 ps x1 segs x2 ->
      tasks20 (p :: ps) x ((with_loc x lc, evs1, x1) :: segs) x2.

  Lemma restart_gives_init x lc :
    restart_ok lbs ubs INIT x -> Forall (fun c => In c INIT /\ wf lbs c) lc ->
    init_ok lbs ubs f false (with_loc x lc).
  Proof.
    intros Hr Hlc. destruct (Hr lc Hlc) as [HF _]. simpl in HF.
    destruct HF as [G1 G2 G3 G4 G5 G6 G7 G8].
    constructor; simpl.
    - apply Forall_forall. intros ag Hin. apply In_nth_error in Hin as [j Hj].
      apply (G1 j ag Hj). discriminate.
    - eapply (lv_ok_wf lbs ubs f INIT). exact G3.
    - exact G4.
    - apply Forall_forall. intros ag Hin. apply In_nth_error in Hin as [j Hj].
      eapply (lv_ok_wf lbs ubs f INIT). apply (G5 j ag Hj). discriminate.
    - apply Forall_forall. intros c Hc. rewrite Forall_forall in Hlc. apply Hlc. exact Hc.
    - discriminate.
    - discriminate.
  Qed.

  Definition task20_ok (g : gmode) (s : seg) : Prop :=
    (forall y, In (EvDump y) (seg_evs s) -> truthful f false y) /\
    (forall h1 y1 h2 y2 h3, seg_evs s = h1 ++ EvDump y1 :: h2 ++ EvDump y2 :: h3 -> dumps h2 = [] ->
       match g with GSlot => slot_mono y1 y2 | GRank => rank_mono y1 y2 | GNone => True end).

  (* every program of the history: passes the C01 restart check, is outside the swarm family, passes the C20 check for [g] *)
  Definition prog20_ok (g : gmode) (p : stmt) : bool := c01r_check p && negb (is_pso p) && t_check false g p.

  Theorem c20_tasks (g : gmode) (ps : list stmt) :
    Forall (fun p => prog20_ok g p = true) ps ->
    forall x0 segs x', restart_ok lbs ubs INIT x0 -> tasks20 ps x0 segs x' ->
      Forall (task20_ok g) segs /\ restart_ok lbs ubs INIT x'.
  Proof.
    intros Hps x0 segs x' H0 Ht. revert Hps H0.
    induction Ht as [x|p ps x lc o x1 evs1 o1 segs x2 Hlc Hrun Ht IH]; intros Hps H0.
    - split; [constructor|exact H0].
    - pose proof (Forall_inv Hps) as Hp. pose proof (Forall_inv_tail Hps) as Hps'. simpl in Hp.
      unfold prog20_ok in Hp. apply andb_true_iff in Hp as [Hp H3]. apply andb_true_iff in Hp as [H1 H2].
      apply negb_true_iff in H2.
      pose proof (restart_gives_init x lc H0 Hlc) as Hinit.
      destruct (H0 lc Hlc) as [HF HR].
      destruct (c01r_of_check lbs ubs f n_iter INIT box_ok p H1 o (with_loc x lc) x1 evs1 o1 (conj HF HR) Hrun) as (_ & _ & _ & Hnext).
      destruct (IH Hps' Hnext) as [IH1 IH2].
      split; [|exact IH2]. constructor; [|exact IH1].
      rewrite <- H2 in Hinit. rewrite <- H2 in H3.
      split.
      + intros y Hy. rewrite <- H2. simpl in Hy.
        eapply (c20_greedy_truthful lbs ubs f n_iter box_ok p g H3 o (with_loc x lc) x1 evs1 o1 Hinit Hrun). exact Hy.
      + intros h1 y1 h2 y2 h3 He Hd. simpl in He. destruct g.
        * exact I.
        * eapply (c20_greedy_slot_of_check lbs ubs f n_iter box_ok p H3 o (with_loc x lc) x1 evs1 o1 Hinit Hrun); eassumption.
        * eapply (c20_greedy_rank_of_check lbs ubs f n_iter box_ok p H3 o (with_loc x lc) x1 evs1 o1 Hinit Hrun); eassumption.
  Qed.
End Hist.
