(* C01 domain: which positions are known to lie inside the box.

   Three levels per reference class:  [Feas]  the position is feasible (inside the box, hence finite and
   NaN-free, with the declared number of rows);  [Okp]  feasible, or still one of the initial placeholder
   arrays [INIT] (the all-zero initial best position / local positions);  [Unk]  only well formed.
   An [Eval]/[EvalTmp] of a reference whose level is not [Feas] raises an alarm; [Hook] and [Dump] require
   the best agent at level [Okp] at least. *)
From Coq Require Import String ZArith List Bool Arith Lia.
From OV Require Import Base.FloatKey Model.Clip Model.IR Model.IRSem Analysis.AbsInt Analysis.SemLemmas.
Import ListNotations.
Close Scope Z_scope.
Open Scope nat_scope.

Inductive lvl := Unk | Okp | Feas.

Definition lmin (a b : lvl) : lvl :=
  match a, b with
  | Feas, x => x | x, Feas => x
  | Okp, Okp => Okp
  | _, _ => Unk
  end.

(* [lge a b]: a carries at least the information of b *)
Definition lge (a b : lvl) : bool :=
  match a, b with
  | _, Unk => true
  | Feas, _ => true
  | Okp, Okp => true
  | _, _ => false
  end.

Record fa := {
  f_pop : lvl;            (* every slot other than the loop slot *)
  f_cur : lvl;            (* the loop slot *)
  f_best : lvl;
  f_tr : lvl;
  f_shall : lvl;          (* every shadow other than the loop slot's *)
  f_sh : lvl;             (* the loop slot's shadow *)
  f_loc : lvl             (* every local position (PSO family) *)
}.

Definition fa_leb (a b : fa) : bool :=
  lge (f_pop a) (f_pop b) && lge (f_cur a) (f_cur b) && lge (f_best a) (f_best b)
  && lge (f_tr a) (f_tr b) && lge (f_shall a) (f_shall b) && lge (f_sh a) (f_sh b) && lge (f_loc a) (f_loc b).

Definition fa_join (a b : fa) : fa :=
  {| f_pop := lmin (f_pop a) (f_pop b); f_cur := lmin (f_cur a) (f_cur b);
     f_best := lmin (f_best a) (f_best b); f_tr := lmin (f_tr a) (f_tr b); f_shall := lmin (f_shall a) (f_shall b);
     f_sh := lmin (f_sh a) (f_sh b); f_loc := lmin (f_loc a) (f_loc b) |}.

Definition rd (r : ref) (a : fa) : lvl :=
  match r with
  | Cur => f_cur a
  | Slot _ | Last => lmin (f_pop a) (f_cur a)
  | Best => f_best a
  | Tr => f_tr a
  | Sh => f_sh a
  end.

Definition wr (r : ref) (v : lvl) (a : fa) : fa :=
  match r with
  | Cur => {| f_pop := f_pop a; f_cur := v; f_best := f_best a; f_tr := f_tr a; f_shall := f_shall a; f_sh := f_sh a; f_loc := f_loc a |}
  | Slot _ | Last => {| f_pop := lmin (f_pop a) v; f_cur := lmin (f_cur a) v; f_best := f_best a; f_tr := f_tr a; f_shall := f_shall a; f_sh := f_sh a; f_loc := f_loc a |}
  | Best => {| f_pop := f_pop a; f_cur := f_cur a; f_best := v; f_tr := f_tr a; f_shall := f_shall a; f_sh := f_sh a; f_loc := f_loc a |}
  | Tr => {| f_pop := f_pop a; f_cur := f_cur a; f_best := f_best a; f_tr := v; f_shall := f_shall a; f_sh := f_sh a; f_loc := f_loc a |}
  | Sh => {| f_pop := f_pop a; f_cur := f_cur a; f_best := f_best a; f_tr := f_tr a; f_shall := f_shall a; f_sh := v; f_loc := f_loc a |}
  end.

Definition allpop (a : fa) : lvl := lmin (f_pop a) (f_cur a).

Definition c01 (l : nat) (why : string) : list alarm := [(l, ("C01: " ++ why)%string)].

Definition fa_atom (l : nat) (s : stmt) (a : fa) : fa * list alarm :=
  match s with
  | Skip | Draw | SetHyper _ | ChooseIdx _ | SetFitTmp _ | CopyFit _ _ | SwapFit _ _
  | TreeCopy _ _ | TreeSet _ _ | TreeCross _ _ | BestTreeCopy => (a, [])
  | Eval r | EvalTmp r =>
      (a, match rd r a with Feas => [] | _ => c01 l "the objective is evaluated at a position not known to be clipped" end)
  | Havoc _ r | PosFromTree r => (wr r Unk a, [])
  | Clip r => (wr r Feas a, [])
  | ClipAll => ({| f_pop := Feas; f_cur := Feas; f_best := f_best a; f_tr := f_tr a; f_shall := f_shall a; f_sh := f_sh a; f_loc := f_loc a |}, [])
  | CopyPos d s0 => (wr d (rd s0 a) a, [])
  | LocFromPos => ({| f_pop := f_pop a; f_cur := f_cur a; f_best := f_best a; f_tr := f_tr a; f_shall := f_shall a; f_sh := f_sh a; f_loc := lmin (f_loc a) (rd Cur a) |}, [])
  | BestPosFromLoc => (wr Best (f_loc a) a, [])
  | SwapPos r1 r2 => let v := lmin (rd r1 a) (rd r2 a) in (wr r2 v (wr r1 v a), [])
  | NewTrial s0 => (wr Tr (rd s0 a) a, [])
  | ShadowAll => ({| f_pop := f_pop a; f_cur := f_cur a; f_best := f_best a; f_tr := f_tr a; f_shall := allpop a; f_sh := allpop a; f_loc := f_loc a |}, [])
  | Store d s0 => (wr d (rd s0 a) a, [])
  | SortByFit => let v := allpop a in
      ({| f_pop := v; f_cur := v; f_best := f_best a; f_tr := f_tr a; f_shall := f_shall a; f_sh := f_sh a; f_loc := f_loc a |}, [])
  | Hook | Dump =>
      (a, match f_best a with Unk => c01 l "the best position is reported while not known to be feasible" | _ => [] end)
  | _ => (a, c01 l "not an atomic statement")
  end.

Definition fa_assume (c : cond) (b : bool) (a : fa) : fa := a.

Definition fa_enter (a : fa) : fa :=
  {| f_pop := f_pop a; f_cur := f_pop a; f_best := f_best a; f_tr := f_tr a; f_shall := f_shall a; f_sh := f_shall a; f_loc := f_loc a |}.
Definition fa_exit (a : fa) : fa :=
  let p := lmin (f_pop a) (f_cur a) in let q := lmin (f_shall a) (f_sh a) in
  {| f_pop := p; f_cur := p; f_best := f_best a; f_tr := f_tr a; f_shall := q; f_sh := q; f_loc := f_loc a |}.

Definition fa_special (l : nat) (incur : bool) (s : stmt) (a : fa) : option (fa * list alarm) := None.

Definition fa_absint := absint fa fa_leb fa_join fa_atom fa_assume fa_enter fa_exit fa_special.

(* the abstract state at the start of run(): a freshly built space (C06: positions sampled inside the box),
   best agent and local positions still the placeholders, nothing known about trial / shadows *)
Definition fa_init : fa :=
  {| f_pop := Feas; f_cur := Feas; f_best := Okp; f_tr := Unk; f_shall := Unk; f_sh := Unk; f_loc := Okp |}.

(* ---------------------------------------------------------------- lattice facts *)
Lemma lge_refl a : lge a a = true. Proof. destruct a; reflexivity. Qed.
Lemma lge_trans a b c : lge a b = true -> lge b c = true -> lge a c = true.
Proof. destruct a, b, c; simpl; intros; try reflexivity; try discriminate. Qed.
Lemma lge_min_l a b : lge a (lmin a b) = true. Proof. destruct a, b; reflexivity. Qed.
Lemma lge_min_r a b : lge b (lmin a b) = true. Proof. destruct a, b; reflexivity. Qed.

Lemma fa_leb_refl a : fa_leb a a = true.
Proof. unfold fa_leb. rewrite !lge_refl. reflexivity. Qed.

Lemma fa_leb_trans a b c : fa_leb a b = true -> fa_leb b c = true -> fa_leb a c = true.
Proof.
  unfold fa_leb. rewrite !andb_true_iff.
  intros [[[[[[H1 H2] H3] H4] H5] H6] H7] [[[[[[K1 K2] K3] K4] K5] K6] K7].
  repeat split; eapply lge_trans; eassumption.
Qed.

Lemma fa_join_l a b : fa_leb a (fa_join a b) = true.
Proof. unfold fa_leb, fa_join; simpl. rewrite !lge_min_l. reflexivity. Qed.

Lemma fa_join_r a b : fa_leb b (fa_join a b) = true.
Proof. unfold fa_leb, fa_join; simpl. rewrite !lge_min_r. reflexivity. Qed.

(* ---------------------------------------------------------------- concretisation *)
Section Sound.
  Variables (lbs ubs : list Z) (f : contents -> Z) (n_iter : nat).
  Variable INIT : list contents.
  Hypothesis box_ok : Forall2 (fun l h => kle l h = true) lbs ubs.

  Definition option_nat_eq_dec (a b : option nat) : {a = b} + {a <> b}.
  Proof. decide equality. apply Nat.eq_dec. Defined.

  Definition wf (c : contents) : Prop := no_nan c = true /\ length c = length lbs.

  Definition lv_ok (L : lvl) (c : contents) : Prop :=
    match L with
    | Unk => wf c
    | Okp => feasible lbs ubs c = true \/ (In c INIT /\ wf c)
    | Feas => feasible lbs ubs c = true
    end.

  Lemma feasible_wf c : feasible lbs ubs c = true -> wf c.
  Proof. intros H. split; [eapply feasible_no_nan; eassumption|]. apply feasible_length in H. tauto. Qed.

  Lemma lv_ok_wf L c : lv_ok L c -> wf c.
  Proof. destruct L; simpl; [auto|intros [H|[_ H]]; [apply feasible_wf|]; assumption|apply feasible_wf]. Qed.

  Lemma lv_ok_mono L1 L2 c : lge L1 L2 = true -> lv_ok L1 c -> lv_ok L2 c.
  Proof.
    destruct L1, L2; simpl; intros H K; try discriminate; try assumption.
    - destruct K as [K|[_ K]]; [apply feasible_wf|]; assumption.
    - apply feasible_wf; assumption.
    - left; assumption.
  Qed.

  Definition ev_ok (e : event) : Prop :=
    match e with
    | EvEval c _ => feasible lbs ubs c = true
    | EvHook y | EvDump y => lv_ok Okp (apos (best y))
    | EvDraw => True
    end.

  Definition okc := okc_std.
  Definition hk : st -> st := fun x => x.     (* the hook is an observer *)

  Record FG (a : fa) (cur : option nat) (x : st) (h : list event) : Prop := {
    g_pop : forall j ag, nth_error (pop x) j = Some ag -> cur <> Some j -> lv_ok (f_pop a) (apos ag);
    g_cur : forall j ag, cur = Some j -> nth_error (pop x) j = Some ag -> lv_ok (f_cur a) (apos ag);
    g_best : lv_ok (f_best a) (apos (best x));
    g_tr : lv_ok (f_tr a) (apos (tr x));
    g_shall : forall j ag, nth_error (sh x) j = Some ag -> cur <> Some j -> lv_ok (f_shall a) (apos ag);
    g_sh : forall j ag, cur = Some j -> nth_error (sh x) j = Some ag -> lv_ok (f_sh a) (apos ag);
    g_loc : forall c, In c (loc x) -> lv_ok (f_loc a) c;
    g_evs : Forall ev_ok h
  }.

  Lemma FG_mono a b cur x h : fa_leb a b = true -> FG a cur x h -> FG b cur x h.
  Proof.
    unfold fa_leb. rewrite !andb_true_iff. intros [[[[[[H1 H2] H3] H4] H5] H6] H7] [G1 G2 G3 G4 G5 G6 G7 G8].
    constructor; try assumption.
    - intros j ag Hn Hc. eapply lv_ok_mono; [exact H1|]. eapply G1; eassumption.
    - intros j ag Hc Hn. eapply lv_ok_mono; [exact H2|]. eapply G2; eassumption.
    - eapply lv_ok_mono; eassumption.
    - eapply lv_ok_mono; eassumption.
    - intros j ag Hn Hc. eapply lv_ok_mono; [exact H5|]. eapply G5; eassumption.
    - intros j ag Hc Hn. eapply lv_ok_mono; [exact H6|]. eapply G6; eassumption.
    - intros c Hc. eapply lv_ok_mono; [exact H7|]. apply G7; assumption.
  Qed.

  (* reading a reference *)
  Lemma FG_read a cur x h r ag : FG a cur x h -> getr r cur x = Some ag -> lv_ok (rd r a) (apos ag).
  Proof.
    intros [G1 G2 G3 G4 G5 G6 G7 G8] Hg. apply getr_readat in Hg.
    destruct Hg as [-> -> | -> -> | i -> -> Hn | i Hs Hi Hn]; simpl.
    - assumption.
    - assumption.
    - eapply G6; [reflexivity|eassumption].
    - destruct r; try discriminate; simpl in *.
      + subst cur. eapply G2; [reflexivity|eassumption].
      + destruct (option_nat_eq_dec cur (Some i)) as [->|Hne].
        * eapply lv_ok_mono; [apply lge_min_r|]. eapply G2; [reflexivity|eassumption].
        * eapply lv_ok_mono; [apply lge_min_l|]. eapply G1; [eassumption|exact Hne].
      + destruct (option_nat_eq_dec cur (Some i)) as [->|Hne].
        * eapply lv_ok_mono; [apply lge_min_r|]. eapply G2; [reflexivity|eassumption].
        * eapply lv_ok_mono; [apply lge_min_l|]. eapply G1; [eassumption|exact Hne].
  Qed.

  (* writing a reference *)
  Lemma FG_write a cur x h r ag x' v :
    FG a cur x h -> setr r cur ag x = Some x' -> lv_ok v (apos ag) -> FG (wr r v a) cur x' h.
  Proof.
    intros [G1 G2 G3 G4 G5 G6 G7 G8] Hs Hv. apply setr_written in Hs.
    destruct Hs as [-> -> | -> -> | i l -> -> Hu -> | i l Hs Hi Hu ->].
    - constructor; simpl; assumption.
    - constructor; simpl; assumption.
    - constructor; simpl; try assumption.
      + intros j b Hn Hc. rewrite (upd_nth_other _ _ _ _ _ Hu) in Hn by congruence. eapply G5; eassumption.
      + intros j b Hc Hn. injection Hc as <-. rewrite (upd_nth_same _ _ _ _ Hu) in Hn. injection Hn as <-. assumption.
    - destruct r; try discriminate; simpl in Hi.
      + (* Cur *) subst cur. constructor; simpl; try assumption.
        * intros j b Hn Hc. rewrite (upd_nth_other _ _ _ _ _ Hu) in Hn by congruence. eapply G1; eassumption.
        * intros j b Hc Hn. injection Hc as <-. rewrite (upd_nth_same _ _ _ _ Hu) in Hn. injection Hn as <-. assumption.
      + (* Slot *) constructor; simpl; try assumption.
        * intros j b Hn Hc. destruct (nth_error_upd_cases _ _ _ _ _ _ Hu Hn) as [[-> ->]|[Hne Hn']].
          -- eapply lv_ok_mono; [apply lge_min_r|assumption].
          -- eapply lv_ok_mono; [apply lge_min_l|]. eapply G1; eassumption.
        * intros j b Hc Hn. destruct (nth_error_upd_cases _ _ _ _ _ _ Hu Hn) as [[-> ->]|[Hne Hn']].
          -- eapply lv_ok_mono; [apply lge_min_r|assumption].
          -- eapply lv_ok_mono; [apply lge_min_l|]. eapply G2; eassumption.
      + (* Last *) constructor; simpl; try assumption.
        * intros j b Hn Hc. destruct (nth_error_upd_cases _ _ _ _ _ _ Hu Hn) as [[-> ->]|[Hne Hn']].
          -- eapply lv_ok_mono; [apply lge_min_r|assumption].
          -- eapply lv_ok_mono; [apply lge_min_l|]. eapply G1; eassumption.
        * intros j b Hc Hn. destruct (nth_error_upd_cases _ _ _ _ _ _ Hu Hn) as [[-> ->]|[Hne Hn']].
          -- eapply lv_ok_mono; [apply lge_min_r|assumption].
          -- eapply lv_ok_mono; [apply lge_min_l|]. eapply G2; eassumption.
  Qed.

  (* a write that keeps the position *)
  Lemma FG_write_same a cur x h r ag ag' x' :
    FG a cur x h -> getr r cur x = Some ag -> setr r cur ag' x = Some x' -> apos ag' = apos ag -> FG a cur x' h.
  Proof.
    intros HG Hg Hs Hp. destruct HG as [G1 G2 G3 G4 G5 G6 G7 G8].
    apply getr_readat in Hg. apply setr_written in Hs.
    destruct Hs as [-> -> | -> -> | i l -> -> Hu -> | i l Hsl Hi Hu ->].
    - destruct Hg as [_ -> | ? | ? ? | ? ? ]; try discriminate. constructor; simpl; try assumption. rewrite Hp; assumption.
    - destruct Hg as [? | _ -> | ? ? | ? ? ]; try discriminate. constructor; simpl; try assumption. rewrite Hp; assumption.
    - destruct Hg as [? | ? | i' _ Hc Hn | ? ? ]; try discriminate. injection Hc as <-.
      constructor; simpl; try assumption.
      + intros j b Hn' Hc. rewrite (upd_nth_other _ _ _ _ _ Hu) in Hn' by congruence. eapply G5; eassumption.
      + intros j b Hc Hn'. injection Hc as <-. rewrite (upd_nth_same _ _ _ _ Hu) in Hn'. injection Hn' as <-.
        rewrite Hp. eapply G6; [reflexivity|eassumption].
    - destruct Hg as [-> | -> | ? -> | i' _ Hi' Hn ]; try discriminate. rewrite Hi in Hi'. injection Hi' as <-.
      constructor; simpl; try assumption.
      + intros j b Hn' Hc. destruct (nth_error_upd_cases _ _ _ _ _ _ Hu Hn') as [[-> ->]|[Hne Hn'']].
        * rewrite Hp. eapply G1; eassumption.
        * eapply G1; eassumption.
      + intros j b Hc Hn'. destruct (nth_error_upd_cases _ _ _ _ _ _ Hu Hn') as [[-> ->]|[Hne Hn'']].
        * rewrite Hp. eapply G2; eassumption.
        * eapply G2; eassumption.
  Qed.

  Lemma FG_next a cur x h n : FG a cur x h -> FG a cur (with_next x n) h.
  Proof. intros [G1 G2 G3 G4 G5 G6 G7 G8]. constructor; simpl; assumption. Qed.

  Lemma FG_events a cur x h evs : FG a cur x h -> Forall ev_ok evs -> FG a cur x (h ++ evs).
  Proof. intros [G1 G2 G3 G4 G5 G6 G7 G8] H. constructor; try assumption. apply Forall_app; split; assumption. Qed.

  Lemma FG_nil a cur x h : FG a cur x h -> FG a cur x (h ++ []).
  Proof. rewrite app_nil_r. auto. Qed.

  Lemma clipc_feasible c : wf c -> feasible lbs ubs (clipc lbs ubs c) = true.
  Proof. intros [H1 H2]. apply clip_rows_feasible; assumption. Qed.

  Lemma okc_wf old new : okc old new = true -> wf old -> wf new.
  Proof.
    unfold okc. intros H [_ Hl]. apply okc_std_spec in H as [H1 H2]. split; [assumption|].
    rewrite <- Hl. rewrite <- (map_length (@length okey) new), <- (map_length (@length okey) old), H2. reflexivity.
  Qed.

  Lemma allpop_ok a cur x h j ag : FG a cur x h -> nth_error (pop x) j = Some ag -> lv_ok (allpop a) (apos ag).
  Proof.
    intros [G1 G2 G3 G4 G5 G6 G7 G8] Hn. unfold allpop.
    destruct (option_nat_eq_dec cur (Some j)) as [->|Hne].
    - eapply lv_ok_mono; [apply lge_min_r|]. eapply G2; [reflexivity|eassumption].
    - eapply lv_ok_mono; [apply lge_min_l|]. eapply G1; [eassumption|exact Hne].
  Qed.

  Lemma sort_fit_in l a : In a (sort_fit l) -> In a l.
  Proof.
    assert (Hins : forall b t, In a (ins_fit b t) -> a = b \/ In a t).
    { intros b t. induction t as [|c t IH]; simpl.
      - intros [<-|[]]; left; reflexivity.
      - destruct (klt (afit b) (afit c)); simpl.
        + intros [<-|[<-|H]]; [left; reflexivity|right; left; reflexivity|right; right; assumption].
        + intros [<-|H]; [right; left; reflexivity|]. destruct (IH H) as [->|H']; [left; reflexivity|right; right; assumption]. }
    induction l as [|b l IH]; simpl; [auto|].
    intros H. destruct (Hins _ _ H) as [->|H']; [left; reflexivity|right; apply IH; assumption].
  Qed.

  Lemma copy_all_nth n l j b : nth_error (copy_all n l) j = Some b -> exists a, nth_error l j = Some a /\ apos b = apos a.
  Proof.
    revert n j. induction l as [|a l IH]; intros n [|j]; simpl; try discriminate.
    - intros H. injection H as <-. exists a. split; reflexivity.
    - apply IH.
  Qed.

  Ltac inv_ret H := unfold ret in H; injection H as <- <- <-.

  Lemma fa_atom_sound : forall l s a a', is_atom s = true -> fa_atom l s a = (a', []) ->
    forall cur o x h x' evs o', FG a cur x h -> exec_atom lbs ubs f hk okc cur s o x = Some (x', evs, o') ->
    FG a' cur x' (h ++ evs).
  Proof.
    intros l s a a' Hat Hab cur o x h x' evs o' HG Hex.
    destruct s; simpl in Hat; try discriminate; simpl in Hab, Hex.
    - (* Skip *) injection Hab as <-. inv_ret Hex. apply FG_nil; assumption.
    - (* Havoc *)
      injection Hab as <-.
      destruct o as [|[c|?|?|?] o1]; try discriminate.
      destruct (getr r cur x) as [ag|] eqn:Eg; [|discriminate].
      destruct (okc (apos ag) c) eqn:Eok; simpl in Hex; [|discriminate].
      pose proof (okc_wf _ _ Eok (lv_ok_wf _ _ (FG_read _ _ _ _ _ _ HG Eg))) as Hwf.
      destruct m.
      + destruct (setr r cur _ x) as [x1|] eqn:Es; [|discriminate]. inv_ret Hex.
        apply FG_nil, FG_next. eapply FG_write; [eassumption|eassumption|exact Hwf].
      + destruct (setr r cur _ x) as [x1|] eqn:Es; [|discriminate]. inv_ret Hex.
        apply FG_nil. eapply FG_write; [eassumption|eassumption|exact Hwf].
    - (* Clip *)
      injection Hab as <-.
      destruct (getr r cur x) as [ag|] eqn:Eg; [|discriminate].
      destruct (setr r cur _ x) as [x1|] eqn:Es; [|discriminate]. inv_ret Hex.
      apply FG_nil. eapply FG_write; [eassumption|eassumption|].
      simpl. apply clipc_feasible. eapply lv_ok_wf, FG_read; eassumption.
    - (* ClipAll *)
      injection Hab as <-. inv_ret Hex. apply FG_nil.
      destruct HG as [G1 G2 G3 G4 G5 G6 G7 G8]. constructor; simpl; try assumption.
      + intros j b Hn Hc. rewrite nth_error_map in Hn. destruct (nth_error (pop x) j) as [ag|] eqn:En; [|discriminate].
        injection Hn as <-. simpl. apply clipc_feasible.
        destruct cur as [c|]; [destruct (Nat.eq_dec c j) as [->|Hne]|].
        * eapply lv_ok_wf, G2; [reflexivity|eassumption].
        * eapply lv_ok_wf, G1; [eassumption|congruence].
        * eapply lv_ok_wf, G1; [eassumption|congruence].
      + intros j b Hc Hn. rewrite nth_error_map in Hn. destruct (nth_error (pop x) j) as [ag|] eqn:En; [|discriminate].
        injection Hn as <-. simpl. apply clipc_feasible. eapply lv_ok_wf, G2; eassumption.
    - (* Eval *)
      destruct (rd r a) eqn:Er; simpl in Hab; try discriminate. injection Hab as <-.
      destruct (getr r cur x) as [ag|] eqn:Eg; [|discriminate].
      destruct (setr r cur _ x) as [x1|] eqn:Es; [|discriminate]. injection Hex as <- <- <-.
      pose proof (FG_read _ _ _ _ _ _ HG Eg) as Hr. rewrite Er in Hr. simpl in Hr.
      apply FG_events; [|constructor; [exact Hr|constructor]].
      eapply FG_write_same; [exact HG|exact Eg|exact Es|reflexivity].
    - (* EvalTmp *)
      destruct (rd r a) eqn:Er; simpl in Hab; try discriminate. injection Hab as <-.
      destruct (getr r cur x) as [ag|] eqn:Eg; [|discriminate]. injection Hex as <- <- <-.
      pose proof (FG_read _ _ _ _ _ _ HG Eg) as Hr. rewrite Er in Hr. simpl in Hr.
      apply FG_events; [|constructor; [exact Hr|constructor]].
      destruct HG as [G1 G2 G3 G4 G5 G6 G7 G8]. constructor; simpl; assumption.
    - (* SetFitTmp *)
      injection Hab as <-.
      destruct (getr r cur x) as [ag|] eqn:Eg; [|discriminate].
      destruct (setr r cur _ x) as [x1|] eqn:Es; [|discriminate]. inv_ret Hex.
      apply FG_nil. eapply FG_write_same; [exact HG|exact Eg|exact Es|reflexivity].
    - (* CopyPos *)
      injection Hab as <-.
      destruct (getr d cur x) as [ag|] eqn:Eg; [|discriminate].
      destruct (getr s cur x) as [bg|] eqn:Eg2; [|discriminate].
      destruct (setr d cur _ x) as [x1|] eqn:Es; [|discriminate]. inv_ret Hex.
      apply FG_nil, FG_next. eapply FG_write; [eassumption|eassumption|]. simpl. eapply FG_read; eassumption.
    - (* CopyFit *)
      injection Hab as <-.
      destruct (getr d cur x) as [ag|] eqn:Eg; [|discriminate].
      destruct (getr s cur x) as [bg|] eqn:Eg2; [|discriminate].
      destruct (setr d cur _ x) as [x1|] eqn:Es; [|discriminate]. inv_ret Hex.
      apply FG_nil. eapply FG_write_same; [exact HG|exact Eg|exact Es|reflexivity].
    - (* LocFromPos *)
      injection Hab as <-.
      destruct cur as [i|]; [|discriminate].
      destruct (nth_error (pop x) i) as [ag|] eqn:Eg; [|discriminate].
      destruct (upd i (apos ag) (loc x)) as [lc|] eqn:Eu; [|discriminate]. inv_ret Hex.
      apply FG_nil. pose proof (FG_read _ (Some i) _ _ Cur _ HG Eg) as Hr.
      destruct HG as [G1 G2 G3 G4 G5 G6 G7 G8]. constructor; simpl; try assumption.
      intros c Hc. destruct (upd_in _ _ _ _ _ Eu Hc) as [->|Hc'].
      + eapply lv_ok_mono; [apply lge_min_r|exact Hr].
      + eapply lv_ok_mono; [apply lge_min_l|apply G7; assumption].
    - (* BestPosFromLoc *)
      injection Hab as <-.
      destruct cur as [i|]; [|discriminate].
      destruct (nth_error (loc x) i) as [c|] eqn:En; [|discriminate]. inv_ret Hex.
      apply FG_nil, FG_next.
      destruct HG as [G1 G2 G3 G4 G5 G6 G7 G8]. constructor; simpl; try assumption.
      apply G7. eapply nth_error_In; eassumption.
    - (* SwapPos *)
      injection Hab as <-.
      destruct (getr a0 cur x) as [p|] eqn:Eg; [|discriminate].
      destruct (getr b cur x) as [q|] eqn:Eg2; [|discriminate].
      destruct (setr a0 cur _ x) as [x1|] eqn:Es; [|discriminate].
      destruct (getr b cur x1) as [q1|] eqn:Eg3; [|discriminate].
      destruct (setr b cur _ x1) as [x2|] eqn:Es2; [|discriminate]. inv_ret Hex.
      apply FG_nil.
      pose proof (FG_read _ _ _ _ _ _ HG Eg) as Hp. pose proof (FG_read _ _ _ _ _ _ HG Eg2) as Hq.
      eapply FG_write; [|exact Es2|].
      + eapply FG_write; [exact HG|exact Es|]. simpl. eapply lv_ok_mono; [apply lge_min_r|exact Hq].
      + simpl. eapply lv_ok_mono; [apply lge_min_l|exact Hp].
    - (* SwapFit *)
      injection Hab as <-.
      destruct (getr a0 cur x) as [p|] eqn:Eg; [|discriminate].
      destruct (getr b cur x) as [q|] eqn:Eg2; [|discriminate].
      destruct (setr a0 cur _ x) as [x1|] eqn:Es; [|discriminate].
      destruct (getr b cur x1) as [q1|] eqn:Eg3; [|discriminate].
      destruct (setr b cur _ x1) as [x2|] eqn:Es2; [|discriminate]. inv_ret Hex.
      apply FG_nil.
      eapply FG_write_same; [|exact Eg3|exact Es2|reflexivity].
      eapply FG_write_same; [exact HG|exact Eg|exact Es|reflexivity].
    - (* NewTrial *)
      injection Hab as <-.
      destruct (getr s cur x) as [ag|] eqn:Eg; [|discriminate]. inv_ret Hex.
      apply FG_nil, FG_next. pose proof (FG_read _ _ _ _ _ _ HG Eg) as Hr.
      destruct HG as [G1 G2 G3 G4 G5 G6 G7 G8]. constructor; simpl; assumption.
    - (* ShadowAll *)
      injection Hab as <-. inv_ret Hex. apply FG_nil, FG_next.
      pose proof (fun j ag => allpop_ok _ _ _ _ j ag HG) as Hall.
      destruct HG as [G1 G2 G3 G4 G5 G6 G7 G8]. constructor; simpl; try assumption.
      + intros j b Hn Hc. apply copy_all_nth in Hn as (ag & Hn & ->). eapply Hall; eassumption.
      + intros j b Hc Hn. apply copy_all_nth in Hn as (ag & Hn & ->). eapply Hall; eassumption.
    - (* Store *)
      injection Hab as <-.
      destruct d; try discriminate;
        (destruct (getr s cur x) as [ag|] eqn:Eg; [|discriminate];
         destruct (setr _ cur _ x) as [x1|] eqn:Es; [|discriminate]; inv_ret Hex;
         apply FG_nil, FG_next; eapply FG_write; [eassumption|eassumption|]; simpl; eapply FG_read; eassumption).
    - (* ChooseIdx *)
      injection Hab as <-.
      destruct o as [|[?|?|i|?] o1]; try discriminate.
      destruct (Nat.ltb i (length (pop x))); [|discriminate]. inv_ret Hex. apply FG_nil.
      destruct HG as [G1 G2 G3 G4 G5 G6 G7 G8]. constructor; simpl; assumption.
    - (* SortByFit *)
      injection Hab as <-. inv_ret Hex. apply FG_nil.
      pose proof (fun j ag => allpop_ok _ _ _ _ j ag HG) as Hall.
      destruct HG as [G1 G2 G3 G4 G5 G6 G7 G8]. constructor; simpl; try assumption.
      + intros j b Hn Hc. apply nth_error_In, sort_fit_in, In_nth_error in Hn as [k Hk]. eapply Hall; eassumption.
      + intros j b Hc Hn. apply nth_error_In, sort_fit_in, In_nth_error in Hn as [k Hk]. eapply Hall; eassumption.
    - (* Hook *)
      destruct (f_best a) eqn:Eb; simpl in Hab; try discriminate; injection Hab as <-; injection Hex as <- <- <-;
        (apply FG_events; [exact HG|]; constructor; [|constructor]; simpl; unfold hk;
         destruct HG as [G1 G2 G3 G4 G5 G6 G7 G8]; rewrite Eb in G3; simpl in G3; tauto).
    - (* Dump *)
      destruct (f_best a) eqn:Eb; simpl in Hab; try discriminate; injection Hab as <-; injection Hex as <- <- <-;
        (apply FG_events; [exact HG|]; constructor; [|constructor]; simpl;
         destruct HG as [G1 G2 G3 G4 G5 G6 G7 G8]; rewrite Eb in G3; simpl in G3; tauto).
    - (* Draw *) injection Hab as <-. injection Hex as <- <- <-. apply FG_events; [assumption|]. constructor; [exact I|constructor].
    - (* SetHyper *) injection Hab as <-. inv_ret Hex. apply FG_nil.
      destruct HG as [G1 G2 G3 G4 G5 G6 G7 G8]. constructor; simpl; assumption.
    - (* PosFromTree *)
      injection Hab as <-.
      destruct cur as [i|]; [|discriminate].
      destruct (getr r (Some i) x) as [ag|] eqn:Eg; [|discriminate].
      destruct (nth_error (tv x) i) as [c|] eqn:En; [|discriminate].
      destruct (okc (apos ag) c) eqn:Eok; simpl in Hex; [|discriminate].
      destruct (setr r (Some i) _ x) as [x1|] eqn:Es; [|discriminate]. inv_ret Hex.
      apply FG_nil, FG_next. eapply FG_write; [eassumption|eassumption|]. simpl.
      eapply okc_wf; [exact Eok|]. eapply lv_ok_wf, FG_read; eassumption.
    - (* BestTreeCopy *)
      injection Hab as <-.
      destruct cur as [i|]; [|discriminate].
      destruct (nth_error (tv x) i) as [c|] eqn:En; [|discriminate]. inv_ret Hex. apply FG_nil.
      destruct HG as [G1 G2 G3 G4 G5 G6 G7 G8]. constructor; simpl; assumption.
    - (* TreeCopy *)
      injection Hab as <-. destruct o as [|[?|?|?|t] o1]; try discriminate.
      destruct (forallb2 okc (tv x) t); [|discriminate]. inv_ret Hex. apply FG_nil.
      destruct HG as [G1 G2 G3 G4 G5 G6 G7 G8]. constructor; simpl; assumption.
    - (* TreeSet *)
      injection Hab as <-. destruct o as [|[?|?|?|t] o1]; try discriminate.
      destruct (forallb2 okc (tv x) t); [|discriminate]. inv_ret Hex. apply FG_nil.
      destruct HG as [G1 G2 G3 G4 G5 G6 G7 G8]. constructor; simpl; assumption.
    - (* TreeCross *)
      injection Hab as <-. destruct o as [|[?|?|?|t] o1]; try discriminate.
      destruct (forallb2 okc (tv x) t); [|discriminate]. inv_ret Hex. apply FG_nil.
      destruct HG as [G1 G2 G3 G4 G5 G6 G7 G8]. constructor; simpl; assumption.
  Qed.
End Sound.

(* ---------------------------------------------------------------- the analysis is sound for every IR program *)
Section Main.
  Variables (lbs ubs : list Z) (f : contents -> Z) (n_iter : nat).
  Variable INIT : list contents.
  Hypothesis box_ok : Forall2 (fun l h => kle l h = true) lbs ubs.

  Lemma fa_enter_sound a i x h : FG lbs ubs INIT a None x h -> FG lbs ubs INIT (fa_enter a) (Some i) x h.
  Proof.
    intros [G1 G2 G3 G4 G5 G6 G7 G8]. constructor; simpl; try assumption.
    - intros j ag Hn Hc. eapply G1; [eassumption|discriminate].
    - intros j ag Hc Hn. eapply G1; [eassumption|discriminate].
    - intros j ag Hn Hc. eapply G5; [eassumption|discriminate].
    - intros j ag Hc Hn. eapply G5; [eassumption|discriminate].
  Qed.

  Lemma fa_exit_sound a i x h : FG lbs ubs INIT a (Some i) x h -> FG lbs ubs INIT (fa_exit a) None x h.
  Proof.
    intros [G1 G2 G3 G4 G5 G6 G7 G8]. constructor; simpl; try assumption.
    - intros j ag Hn _. destruct (Nat.eq_dec i j) as [->|Hne].
      + apply (lv_ok_mono lbs ubs f INIT (f_cur a) _ _ (lge_min_r _ _)). eapply G2; [reflexivity|eassumption].
      + apply (lv_ok_mono lbs ubs f INIT (f_pop a) _ _ (lge_min_l _ _)). eapply G1; [eassumption|congruence].
    - intros j ag Hc; discriminate.
    - intros j ag Hn _. destruct (Nat.eq_dec i j) as [->|Hne].
      + apply (lv_ok_mono lbs ubs f INIT (f_sh a) _ _ (lge_min_r _ _)). eapply G6; [reflexivity|eassumption].
      + apply (lv_ok_mono lbs ubs f INIT (f_shall a) _ _ (lge_min_l _ _)). eapply G5; [eassumption|congruence].
    - intros j ag Hc; discriminate.
  Qed.

  Theorem fa_sound : forall s l a a', fa_absint l false s a = (a', []) ->
    forall o x h x' evs o', FG lbs ubs INIT a None x h ->
      exec lbs ubs f hk n_iter okc None s o x = Some (x', evs, o') -> FG lbs ubs INIT a' None x' (h ++ evs).
  Proof.
    intros s l a a' Habs o x h x' evs o' HG Hex.
    eapply (absint_sound lbs ubs f hk n_iter okc fa fa_leb fa_join fa_atom fa_assume fa_enter fa_exit fa_special
              (FG lbs ubs INIT)) with (incur := false) (cur := None); try eassumption; try reflexivity.
    - apply fa_leb_refl.
    - apply fa_leb_trans.
    - apply fa_join_l.
    - apply fa_join_r.
    - intros; eapply (FG_mono lbs ubs f INIT); eassumption.
    - intros; eapply fa_atom_sound; eassumption.
    - intros; assumption.
    - apply fa_enter_sound.
    - apply fa_exit_sound.
    - intros; discriminate.
  Qed.

  (* the initial state of run(): a freshly built space *)
  Definition init_ok (x : st) : Prop := FG lbs ubs INIT fa_init None x [].

  Definition c01_check (p : stmt) : bool :=
    match fa_absint 0 false p fa_init with
    | (a', []) => lge (f_best a') Okp
    | _ => false
    end.

  (* C01 for one program: no alarm => every evaluation of every run is at a feasible point, and the best
     position at every hook, at every dump and at return is feasible or still the initial placeholder *)
  Theorem c01_of_check (p : stmt) :
    c01_check p = true ->
    forall o x0 x' evs o', init_ok x0 -> run lbs ubs f hk n_iter okc p o x0 = Some (x', evs, o') ->
      Forall (fun c => feasible lbs ubs c = true) (eval_args evs) /\
      Forall (fun e => match e with EvHook y | EvDump y => lv_ok lbs ubs INIT Okp (apos (best y)) | _ => True end) evs /\
      lv_ok lbs ubs INIT Okp (apos (best x')).
  Proof.
    unfold c01_check. intros Hal o x0 x' evs o' Hi Hr.
    destruct (fa_absint 0 false p fa_init) as [a' al] eqn:E. destruct al; [|discriminate].
    pose proof (fa_sound p 0 fa_init a' E o x0 [] x' evs o' Hi Hr) as HG. simpl in HG.
    destruct HG as [G1 G2 G3 G4 G5 G6 G7 G8].
    split; [|split].
    - clear -G8. induction G8 as [|e evs He _ IH]; simpl; [constructor|].
      destruct e; simpl; try assumption. constructor; assumption.
    - eapply Forall_impl; [|exact G8]. intros e He. destruct e; simpl in *; auto.
    - eapply (lv_ok_mono lbs ubs f INIT); [exact Hal|exact G3].
  Qed.
End Main.
