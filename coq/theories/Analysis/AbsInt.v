(* A generic abstract interpreter for the effect IR, proved sound once for every abstract domain.

   A domain supplies an abstract state [A], transfer functions for the atomic statements and for
   conditions, [enter]/[exit_] for binding the loop slot of [ForSlots], an order [leb] with an upper
   bound [join], optionally [special] rules for whole sub-programs, and a concretisation
   [G a cur x h]: "concrete state [x] with loop slot [cur] and event history [h] is described by [a]".
   Loops are analysed by Kleene iteration followed by a *checked* stability test, so soundness needs
   no termination or monotonicity argument about the transfer functions.

   [absint_sound]: if the analysis of [s] from [a] raises no alarm, then every execution of [s]
   (every oracle, objective, hook, box, iteration count) from a state described by [a] ends in a
   state described by the result, the history being extended by the events of the execution. *)
From Coq Require Import String ZArith List Bool Arith Lia.
From OV Require Import Base.FloatKey Model.Clip Model.IR Model.IRSem.
Import ListNotations.
Close Scope Z_scope.
Open Scope nat_scope.

Definition alarm := (nat * string)%type.       (* source location index, reason *)

Definition is_atom (s : stmt) : bool :=
  match s with
  | Seq _ _ | If _ _ _ | At _ _ | ForSlots _ | RepeatAny _ | Repeat _ | Onlooker _ => false
  | _ => true
  end.

Section Generic.
  Variables (lbs ubs : list Z) (f : contents -> Z) (hk : st -> st) (n_iter : nat) (okc : contents -> contents -> bool).
  Variable A : Type.
  Variable leb : A -> A -> bool.
  Variable join : A -> A -> A.
  Variable atom : nat -> stmt -> A -> A * list alarm.
  Variable assume : cond -> bool -> A -> A.
  Variables enter exit_ : A -> A.
  Variable special : nat -> bool -> stmt -> A -> option (A * list alarm).   (* location, inside ForSlots?, statement *)
  Variable G : A -> option nat -> st -> list event -> Prop.

  Definition KITER := 8.

  Fixpoint lfp (k : nat) (F : A -> A * list alarm) (a : A) : A :=
    match k with 0 => a | S k' => lfp k' F (join a (fst (F a))) end.

  Definition loop (l : nat) (F : A -> A * list alarm) (a : A) : A * list alarm :=
    let j := lfp KITER F a in
    let (j', al) := F j in
    if leb j' j then (j, al) else (j, (l, "loop invariant not stable"%string) :: al).

  Fixpoint absint (l : nat) (incur : bool) (s : stmt) (a : A) {struct s} : A * list alarm :=
    match special l incur s a with
    | Some r => r
    | None =>
      match s with
      | Seq s1 s2 =>
          let (a1, al1) := absint l incur s1 a in
          let (a2, al2) := absint l incur s2 a1 in (a2, al1 ++ al2)
      | If c s1 s2 =>
          let (a1, al1) := absint l incur s1 (assume c true a) in
          let (a2, al2) := absint l incur s2 (assume c false a) in (join a1 a2, al1 ++ al2)
      | At l' s1 => absint l' incur s1 a
      | RepeatAny b => loop l (absint l incur b) a
      | Repeat b => loop l (absint l incur b) a
      | ForSlots b =>
          if incur then (a, [(l, "nested ForSlots"%string)])
          else loop l (fun j => let (j', al) := absint l true b (enter j) in (exit_ j', al)) a
      | Onlooker b =>
          if incur then (a, [(l, "nested Onlooker"%string)])
          else loop l (fun j0 => loop l (fun j => let (j', al) := absint l true b (enter j) in (exit_ j', al)) j0) a
      | _ => atom l s a
      end
    end.

  (* ---------------------------------------------------------------- what a domain must prove *)
  Hypothesis leb_refl : forall a, leb a a = true.
  Hypothesis leb_trans : forall a b c, leb a b = true -> leb b c = true -> leb a c = true.
  Hypothesis join_l : forall a b, leb a (join a b) = true.
  Hypothesis join_r : forall a b, leb b (join a b) = true.
  Hypothesis G_mono : forall a b cur x h, leb a b = true -> G a cur x h -> G b cur x h.
  Hypothesis atom_sound : forall l s a a', is_atom s = true -> atom l s a = (a', []) ->
    forall cur o x h x' evs o', G a cur x h -> exec_atom lbs ubs f hk okc cur s o x = Some (x', evs, o') ->
    G a' cur x' (h ++ evs).
  Hypothesis assume_sound : forall c b a cur o x h o', evalc c cur o x = Some (b, o') ->
    G a cur x h -> G (assume c b a) cur x h.
  Hypothesis enter_sound : forall a i x h, G a None x h -> G (enter a) (Some i) x h.
  Hypothesis exit_sound : forall a i x h, G a (Some i) x h -> G (exit_ a) None x h.
  Hypothesis special_sound : forall l incur s a a', special l incur s a = Some (a', []) ->
    forall cur o x h x' evs o', (if incur then exists i, cur = Some i else cur = None) ->
    G a cur x h -> exec lbs ubs f hk n_iter okc cur s o x = Some (x', evs, o') ->
    G a' cur x' (h ++ evs).

  Lemma lfp_ge k F a : leb a (lfp k F a) = true.
  Proof.
    revert a. induction k as [|k IH]; intros a; simpl; [apply leb_refl|].
    eapply leb_trans; [apply join_l|apply IH].
  Qed.

  Lemma app_nil_both {T} (l1 l2 : list T) : l1 ++ l2 = [] -> l1 = [] /\ l2 = [].
  Proof. destruct l1; simpl; intros H; [split; [reflexivity|assumption]|discriminate]. Qed.

  (* a stable abstract state is an invariant of [iter] *)
  Lemma iter_inv (body : list answer -> st -> res) (j : A) cur :
    (forall o x h x' evs o', G j cur x h -> body o x = Some (x', evs, o') -> G j cur x' (h ++ evs)) ->
    forall n o x h x' evs o', G j cur x h -> iter n body o x = Some (x', evs, o') -> G j cur x' (h ++ evs).
  Proof.
    intros Hb n. induction n as [|n IH]; intros o x h x' evs o' HG H; simpl in H.
    - unfold ret in H. injection H as <- <- <-. rewrite app_nil_r. exact HG.
    - apply bind_some in H as (x1 & e1 & o1 & e2 & H1 & H2 & ->).
      rewrite app_assoc. eapply IH; [|exact H2]. eapply Hb; eassumption.
  Qed.

  Lemma iter_slots_inv (body : nat -> list answer -> st -> res) (j : A) :
    (forall i o x h x' evs o', G j None x h -> body i o x = Some (x', evs, o') -> G j None x' (h ++ evs)) ->
    forall n i o x h x' evs o', G j None x h -> iter_slots i n body o x = Some (x', evs, o') -> G j None x' (h ++ evs).
  Proof.
    intros Hb n. induction n as [|n IH]; intros i o x h x' evs o' HG H; simpl in H.
    - unfold ret in H. injection H as <- <- <-. rewrite app_nil_r. exact HG.
    - apply bind_some in H as (x1 & e1 & o1 & e2 & H1 & H2 & ->).
      rewrite app_assoc. eapply IH; [|exact H2]. eapply Hb; eassumption.
  Qed.

  (* the loop rule: from a checked stable invariant *)
  Lemma loop_sound l F a a' :
    loop l F a = (a', []) ->
    leb a a' = true /\ exists j', F a' = (j', []) /\ leb j' a' = true.
  Proof.
    unfold loop. pose proof (lfp_ge KITER F a) as Hge. revert Hge.
    generalize (lfp KITER F a) as j. intros j Hge.
    destruct (F j) as [j' al] eqn:EF.
    destruct (leb j' j) eqn:El; intros H; [|discriminate].
    injection H as <- ->. split; [exact Hge|]. exists j'. split; assumption.
  Qed.

  Theorem absint_sound : forall s l incur a a', absint l incur s a = (a', []) ->
    forall cur o x h x' evs o',
      (if incur then exists i, cur = Some i else cur = None) ->
      G a cur x h -> exec lbs ubs f hk n_iter okc cur s o x = Some (x', evs, o') -> G a' cur x' (h ++ evs).
  Proof.
    induction s; intros ll incur a0 a0' Habs cur oo xx hh xx' evs oo' Hcur HG Hex;
      simpl in Habs;
      (destruct (special ll incur _ a0) as [rsp|] eqn:Esp;
       [ subst rsp; eapply special_sound; eassumption | ]);
      try (eapply atom_sound; [ | exact Habs | exact HG | exact Hex]; reflexivity).
    - (* If *)
      destruct (absint ll incur s1 (assume c true a0)) as [a1 al1] eqn:E1.
      destruct (absint ll incur s2 (assume c false a0)) as [a2 al2] eqn:E2.
      injection Habs as <- Hal. apply app_nil_both in Hal as [-> ->].
      simpl in Hex. destruct (evalc c cur oo xx) as [[b o1]|] eqn:Ec; [|discriminate].
      destruct b.
      + eapply G_mono; [apply join_l|]. eapply IHs1; try eassumption. eapply assume_sound; eassumption.
      + eapply G_mono; [apply join_r|]. eapply IHs2; try eassumption. eapply assume_sound; eassumption.
    - (* Seq *)
      destruct (absint ll incur s1 a0) as [a1 al1] eqn:E1.
      destruct (absint ll incur s2 a1) as [a2 al2] eqn:E2.
      injection Habs as <- Hal. apply app_nil_both in Hal as [-> ->].
      simpl in Hex. apply bind_some in Hex as (x1 & e1 & o1 & e2 & H1 & H2 & ->).
      rewrite app_assoc. eapply IHs2; try eassumption. eapply IHs1; eassumption.
    - (* ForSlots *)
      destruct incur; [discriminate|]. subst cur.
      apply loop_sound in Habs as [Hle (j' & HF & Hst)].
      destruct (absint ll true s (enter a0')) as [j1 al1] eqn:E1. injection HF as <- ->.
      simpl in Hex.
      eapply iter_slots_inv with (j := a0'); [| eapply G_mono; [exact Hle | exact HG] | exact Hex].
      intros i o0 x0 h0 x0' evs0 o0' HG0 Hb.
      eapply G_mono; [exact Hst|]. eapply exit_sound with (i := i).
      eapply IHs; [exact E1| exists i; reflexivity | apply enter_sound; exact HG0 | exact Hb].
    - (* RepeatAny *)
      apply loop_sound in Habs as [Hle (j' & HF & Hst)].
      simpl in Hex. destruct oo as [|[c0|b0|n|t0] o1]; try discriminate.
      eapply iter_inv with (j := a0'); [| eapply G_mono; [exact Hle | exact HG] | exact Hex].
      intros o0 x0 h0 x0' evs0 o0' HG0 Hb.
      eapply G_mono; [exact Hst|]. eapply IHs; eassumption.
    - (* Repeat *)
      apply loop_sound in Habs as [Hle (j' & HF & Hst)].
      simpl in Hex.
      eapply iter_inv with (j := a0'); [| eapply G_mono; [exact Hle | exact HG] | exact Hex].
      intros o0 x0 h0 x0' evs0 o0' HG0 Hb.
      eapply G_mono; [exact Hst|]. eapply IHs; eassumption.
    - (* Onlooker *)
      destruct incur; [discriminate|]. subst cur.
      apply loop_sound in Habs as [Hle (j' & HF & Hst)].
      apply loop_sound in HF as [Hle2 (j2 & HF2 & Hst2)].
      destruct (absint ll true s (enter j')) as [j1 al1] eqn:E1. injection HF2 as <- ->.
      simpl in Hex. destruct oo as [|[c0|b0|n|t0] o1]; try discriminate.
      eapply iter_inv with (j := a0'); [| eapply G_mono; [exact Hle | exact HG] | exact Hex].
      intros o0 x0 h0 x0' evs0 o0' HG0 Hb.
      eapply G_mono; [exact Hst|].
      eapply iter_slots_inv with (j := j'); [| eapply G_mono; [exact Hle2 | exact HG0] | exact Hb].
      intros i o2 x2 h2 x2' evs2 o2' HG2 Hb2.
      eapply G_mono; [exact Hst2|]. eapply exit_sound with (i := i).
      eapply IHs; [exact E1| exists i; reflexivity | apply enter_sound; exact HG2 | exact Hb2].
    - (* At *)
      simpl in Hex. eapply IHs; eassumption.
  Qed.
End Generic.
