(* Non-vacuity of the conditional theorems about runs: every theorem of the form
   "run p o x0 = Some (x', evs, o') -> ..." would hold vacuously for a program on which the semantics always gets
   stuck (an ill-scoped reference, an index register never set, ...).  [witness p x] synthesises an oracle with a
   default policy (every arithmetic result = the current contents, every numeric test false, every index 0, every
   data-dependent loop once) by simulating the program; the obligation evaluated on each regenerated program is that
   [run] on that oracle succeeds and consumes it entirely -- a computation, no lemma about [witness] is needed. *)
From Coq Require Import String ZArith List Bool Arith.
From OV Require Import Base.FloatKey Model.Clip Model.IR Model.IRSem.
Import ListNotations.
Close Scope Z_scope.
Open Scope nat_scope.

Section Wit.
  Variables (lbs ubs : list Z) (f : contents -> Z) (n_iter : nat).
  Definition hk0 : st -> st := fun x => x.
  Notation exec_atom := (exec_atom lbs ubs f hk0 okc_std).

  Fixpoint cond_answers (c : cond) : list answer :=
    match c with
    | Opaque => [ABool false]
    | CNot c1 => cond_answers c1
    | CAnd c1 c2 | COr c1 c2 => cond_answers c1 ++ cond_answers c2
    | _ => []
    end.

  Definition atom_answers (cur : option nat) (s : stmt) (x : st) : list answer :=
    match s with
    | Havoc _ r => match getr r cur x with Some a => [ACont (apos a)] | None => [] end
    | ChooseIdx _ => [ANat 0]
    | TreeCopy _ _ | TreeSet _ _ | TreeCross _ _ => [ATrees (tv x)]
    | _ => []
    end.

  Fixpoint wit_iter (n : nat) (body : st -> option (list answer * st)) (x : st) : option (list answer * st) :=
    match n with
    | 0 => Some ([], x)
    | S k => match body x with
             | Some (o1, x1) => match wit_iter k body x1 with Some (o2, x2) => Some (o1 ++ o2, x2) | None => None end
             | None => None end
    end.

  Fixpoint wit_slots (i n : nat) (body : nat -> st -> option (list answer * st)) (x : st) : option (list answer * st) :=
    match n with
    | 0 => Some ([], x)
    | S k => match body i x with
             | Some (o1, x1) => match wit_slots (S i) k body x1 with Some (o2, x2) => Some (o1 ++ o2, x2) | None => None end
             | None => None end
    end.

  Fixpoint wit (cur : option nat) (s : stmt) (x : st) {struct s} : option (list answer * st) :=
    match s with
    | Seq s1 s2 => match wit cur s1 x with
                   | Some (o1, x1) => match wit cur s2 x1 with Some (o2, x2) => Some (o1 ++ o2, x2) | None => None end
                   | None => None end
    | If c s1 s2 =>
        let oc := cond_answers c in
        match evalc c cur oc x with
        | Some (b, _) => match (if b then wit cur s1 x else wit cur s2 x) with Some (o1, x1) => Some (oc ++ o1, x1) | None => None end
        | None => None end
    | At _ s1 => wit cur s1 x
    | ForSlots b => wit_slots 0 (length (pop x)) (fun i => wit (Some i) b) x
    | RepeatAny b => match wit cur b x with Some (o1, x1) => Some (ANat 1 :: o1, x1) | None => None end
    | Repeat b => wit_iter n_iter (wit cur b) x
    | Onlooker b => match wit_slots 0 (length (pop x)) (fun i => wit (Some i) b) x with
                    | Some (o1, x1) => Some (ANat 1 :: o1, x1) | None => None end
    | _ => let oa := atom_answers cur s x in
           match exec_atom cur s oa x with Some (x1, _, _) => Some (oa, x1) | None => None end
    end.

  (* the obligation: the program runs to completion on the synthesised oracle, consuming it entirely *)
  Definition runs_on_witness (p : stmt) (x0 : st) : bool :=
    match wit None p x0 with
    | Some (o, _) => match run lbs ubs f hk0 n_iter okc_std p o x0 with Some (_, _, []) => true | _ => false end
    | None => false
    end.
End Wit.

(* a concrete small fresh space: n agents with one variable and one dimension in the box [0, 10] *)
Definition wx_zero : contents := [[Some 0%Z]].
Fixpoint wx_agents (i n : nat) : list agent :=
  match n with 0 => [] | S k => {| apos := [[Some (Z.of_nat (S i))]]; aid := i; afit := KMAX |} :: wx_agents (S i) k end.
Definition wx_state (n : nat) : st :=
  {| pop := wx_agents 0 n; best := {| apos := wx_zero; aid := n; afit := KMAX |};
     tr := {| apos := wx_zero; aid := S n; afit := KMAX |}; sh := []; loc := repeat wx_zero n;
     tmp := KMAX; idx := []; next := S (S n); hyp := []; tv := repeat wx_zero n; btv := wx_zero |}.
Definition wx_f (c : contents) : Z := match c with [[Some k]] => k | _ => 0%Z end.

Definition nonvacuous (p : stmt) : bool :=
  runs_on_witness [0%Z] [10%Z] wx_f 2 p (wx_state 3) && runs_on_witness [0%Z] [10%Z] wx_f 1 p (wx_state 1).
