(* Soundness of the relational feasibility domain (Analysis/FeasibleRel.v) and the theorem over histories of tasks.
   SKELETON: the definitions and the statements below are fixed; every `(* PROVE *)` is to be replaced by a proof. *)
From Coq Require Import String ZArith List Bool Arith Lia.
From OV Require Import Base.FloatKey Model.Clip Model.IR Model.IRSem Analysis.AbsInt Analysis.SemLemmas Analysis.Feasible Analysis.FeasibleRel.
Import ListNotations.
Close Scope Z_scope.
Open Scope nat_scope.

Section RelSound.
  Variables (lbs ubs : list Z) (f : contents -> Z) (n_iter : nat).
  Variable INIT : list contents.
  Hypothesis box_ok : Forall2 (fun l h => kle l h = true) lbs ubs.

  (* [below x ag]: the agent's fitness is strictly below the best agent's *)
  Definition below (x : st) (ag : agent) : bool := klt (afit ag) (afit (best x)).

  (* the best agent is feasible, or still the untouched placeholder of a freshly built space *)
  Definition best_ok (x : st) : Prop :=
    feasible lbs ubs (apos (best x)) = true \/
    (afit (best x) = KMAX /\ In (apos (best x)) INIT /\ wf lbs (apos (best x))).

  Definition ev_ok2 (e : event) : Prop := match e with EvHook y | EvDump y => best_ok y | _ => True end.

  Record RelG (q : rel) (cur : option nat) (x : st) (h : list event) : Prop := {
    r_done : ge_done q = true -> forall j ag, nth_error (pop x) j = Some ag -> (forall i, cur = Some i -> j < i) -> below x ag = false;
    r_cur : ge_cur q = true -> forall i ag, cur = Some i -> nth_error (pop x) i = Some ag -> below x ag = false;
    r_todo : ge_todo q = true -> forall i j ag, cur = Some i -> i < j -> nth_error (pop x) j = Some ag -> below x ag = false;
    r_lt : lt_cb q = true -> forall i ag, cur = Some i -> nth_error (pop x) i = Some ag -> below x ag = true;
    r_loc : forall j ag c, nth_error (pop x) j = Some ag -> nth_error (loc x) j = Some c -> below x ag = true ->
            match locrel q with LAll => True | LButCur => cur <> Some j | LNone => False end ->
            feasible lbs ubs c = true;
    r_best : bguard q = true -> best_ok x;
    r_evs : Forall ev_ok2 h
  }.

  Definition RG (a : ra) (cur : option nat) (x : st) (h : list event) : Prop :=
    FG lbs ubs INIT (fst a) cur x h /\ RelG (snd a) cur x h.

  (* the state a task starts in *)
  Definition start_ok (x : st) : Prop := RG ra_init None x [].

  (* ---- soundness of the analysis for every IR program *)
  Theorem ra_sound : forall s l a a', ra_absint l false s a = (a', []) ->
    forall o x h x' evs o', RG a None x h ->
      exec lbs ubs f hk n_iter okc None s o x = Some (x', evs, o') -> RG a' None x' (h ++ evs).
  Proof. (* PROVE *) Abort.

  (* ---- one task *)
  Definition restart_ok (x : st) : Prop :=
    forall lc, Forall (fun c => In c INIT /\ wf lbs c) lc -> start_ok (with_loc x lc).

  Theorem c01r_of_check (p : stmt) :
    c01r_check p = true ->
    forall o x0 x' evs o', start_ok x0 -> run lbs ubs f hk n_iter okc p o x0 = Some (x', evs, o') ->
      Forall (fun c => feasible lbs ubs c = true) (eval_args evs) /\
      Forall ev_ok2 evs /\ best_ok x' /\ restart_ok x'.
  Proof. (* PROVE *) Abort.

  (* ---- every finite history of tasks on one space: run() re-creates its local arrays (placeholders [lc]) each time *)
  Inductive tasks : list stmt -> st -> list event -> st -> Prop :=
  | tasks_nil x : tasks [] x [] x
  | tasks_cons p ps x lc o x1 evs1 o1 evs2 x2 :
      Forall (fun c => In c INIT /\ wf lbs c) lc ->
      run lbs ubs f hk n_iter okc p o (with_loc x lc) = Some (x1, evs1, o1) ->
      tasks ps x1 evs2 x2 ->
      tasks (p :: ps) x (evs1 ++ evs2) x2.

  Theorem c01_tasks (ps : list stmt) :
    Forall (fun p => c01r_check p = true) ps ->
    forall x0 evs x', restart_ok x0 -> tasks ps x0 evs x' ->
      Forall (fun c => feasible lbs ubs c = true) (eval_args evs) /\
      Forall ev_ok2 evs /\ restart_ok x'.
  Proof. (* PROVE *) Abort.

  (* a freshly built space (Feasible.init_ok) whose fitnesses are all the sentinel and whose best position is a placeholder *)
  Theorem fresh_restart_ok (x : st) :
    init_ok lbs ubs INIT x ->
    (forall ag, In ag (pop x) -> afit ag = KMAX) -> afit (best x) = KMAX -> In (apos (best x)) INIT ->
    restart_ok x.
  Proof. (* PROVE *) Abort.
End RelSound.
