(* Soundness of the relational feasibility domain (Analysis/FeasibleRel.v) and the theorem over histories of tasks. *)
From Coq Require Import String ZArith List Bool Arith Lia ZifyBool.
From OV Require Import Base.FloatKey Model.Clip Model.IR Model.IRSem Analysis.AbsInt Analysis.SemLemmas Analysis.Feasible Analysis.FeasibleRel.
From OV Require Analysis.Counts Analysis.BestMinSound.
Import ListNotations.
Close Scope Z_scope.
Open Scope nat_scope.

(* ---------------------------------------------------------------- lattice facts *)
Lemma lr_ge_refl a : lr_ge a a = true. Proof. destruct a; reflexivity. Qed.
Lemma lr_ge_trans a b c : lr_ge a b = true -> lr_ge b c = true -> lr_ge a c = true.
Proof. destruct a, b, c; simpl; intros; try reflexivity; try discriminate. Qed.
Lemma lr_ge_min_l a b : lr_ge a (lr_min a b) = true. Proof. destruct a, b; reflexivity. Qed.
Lemma lr_ge_min_r a b : lr_ge b (lr_min a b) = true. Proof. destruct a, b; reflexivity. Qed.

Lemma implb_refl a : implb a a = true. Proof. destruct a; reflexivity. Qed.
Lemma implb_trans a b c : implb a b = true -> implb b c = true -> implb a c = true.
Proof. destruct a, b, c; simpl; intros; try reflexivity; try discriminate. Qed.
Lemma implb_and_l a b : implb (a && b) a = true. Proof. destruct a, b; reflexivity. Qed.
Lemma implb_and_r a b : implb (a && b) b = true. Proof. destruct a, b; reflexivity. Qed.

Lemma rel_leb_spec q s : rel_leb q s = true <->
  implb (ge_done s) (ge_done q) = true /\ implb (ge_cur s) (ge_cur q) = true /\ implb (ge_todo s) (ge_todo q) = true /\
  implb (lt_cb s) (lt_cb q) = true /\ lr_ge (locrel q) (locrel s) = true /\ implb (bguard s) (bguard q) = true.
Proof. unfold rel_leb. rewrite !andb_true_iff. tauto. Qed.

Lemma rel_leb_refl q : rel_leb q q = true.
Proof. apply rel_leb_spec. rewrite !implb_refl, lr_ge_refl. tauto. Qed.

Lemma rel_leb_trans a b c : rel_leb a b = true -> rel_leb b c = true -> rel_leb a c = true.
Proof.
  rewrite !rel_leb_spec. intros (H1 & H2 & H3 & H4 & H5 & H6) (K1 & K2 & K3 & K4 & K5 & K6).
  repeat split; try (eapply implb_trans; eassumption). eapply lr_ge_trans; eassumption.
Qed.

Lemma rel_join_l a b : rel_leb a (rel_join a b) = true.
Proof. apply rel_leb_spec. simpl. rewrite !implb_and_l, lr_ge_min_l. tauto. Qed.
Lemma rel_join_r a b : rel_leb b (rel_join a b) = true.
Proof. apply rel_leb_spec. simpl. rewrite !implb_and_r, lr_ge_min_r. tauto. Qed.

Lemma ra_leb_refl a : ra_leb a a = true.
Proof. unfold ra_leb. rewrite fa_leb_refl, rel_leb_refl. reflexivity. Qed.
Lemma ra_leb_trans a b c : ra_leb a b = true -> ra_leb b c = true -> ra_leb a c = true.
Proof.
  unfold ra_leb. rewrite !andb_true_iff. intros [H1 H2] [K1 K2].
  split; [eapply fa_leb_trans|eapply rel_leb_trans]; eassumption.
Qed.
Lemma ra_join_l a b : ra_leb a (ra_join a b) = true.
Proof. unfold ra_leb, ra_join. simpl. rewrite fa_join_l, rel_join_l. reflexivity. Qed.
Lemma ra_join_r a b : ra_leb b (ra_join a b) = true.
Proof. unfold ra_leb, ra_join. simpl. rewrite fa_join_r, rel_join_r. reflexivity. Qed.

Lemma with_bguard_id q : with_bguard q (bguard q) = q.
Proof. destruct q; reflexivity. Qed.

Lemma fit_written_comm r1 r2 q : fit_written r1 (fit_written r2 q) = fit_written r2 (fit_written r1 q).
Proof. destruct q as [a b c d e g]; destruct r1, r2, e; reflexivity. Qed.

Lemma wr_cur_best_comm u v a : wr Cur u (wr Best v a) = wr Best v (wr Cur u a).
Proof. reflexivity. Qed.

(* the analysis never invents the fact [lt_cb] in an atom *)
Lemma fit_written_lt r q : lt_cb (fit_written r q) = true -> lt_cb q = true.
Proof. destruct r; simpl; intros H; try discriminate; assumption. Qed.
Lemma fit_from_best_lt r q : lt_cb (fit_from_best r q) = true -> lt_cb q = true.
Proof. destruct r; simpl; intros H; try discriminate; assumption. Qed.

Lemma rel_atom_lt s a q : lt_cb (rel_atom s a q) = true -> lt_cb q = true.
Proof.
  destruct s; simpl; intros H; try assumption; try discriminate;
    repeat match type of H with
           | context[if ?b then _ else _] => destruct b
           end; simpl in H; try assumption; try discriminate;
    repeat (first [apply fit_written_lt in H | apply fit_from_best_lt in H]); assumption.
Qed.

Lemma norm_lt x : lt_cb (snd (norm x)) = lt_cb (snd x).
Proof. unfold norm. destruct (is_feas (f_best (fst x))); reflexivity. Qed.

(* ---------------------------------------------------------------- the pieces of [ra_atom] *)
Definition a2_of (s : stmt) (a : fa) (q : rel) (a1 : fa) : fa :=
  match s with
  | BestPosFromLoc => if lt_cb q && match locrel q with LAll => true | _ => false end then set_best_lvl a1 Feas else a1
  | SwapPos r1 r2 =>
      if (is_cur r1 && is_best r2) || (is_best r1 && is_cur r2)
      then wr Best (f_cur a) (wr Cur (f_best a) a) else a1
  | _ => a1
  end.

Definition al2_of (l : nat) (s : stmt) (q : rel) : list alarm :=
  match s with
  | Hook | Dump => if bguard q then [] else c01r l "the best position is reported while it may be neither feasible nor the untouched placeholder"
  | _ => []
  end.

Lemma ra_atom_eq l s a q :
  ra_atom l s (a, q) = (norm (a2_of s a q (fst (fa_atom l s a)), rel_atom s a q), snd (fa_atom l s a) ++ al2_of l s q).
Proof. unfold ra_atom. destruct (fa_atom l s a) as [a1 al]. reflexivity. Qed.

Lemma ra_atom_inv l s a q a' : ra_atom l s (a, q) = (a', []) ->
  exists a1, fa_atom l s a = (a1, []) /\ a' = norm (a2_of s a q a1, rel_atom s a q) /\
             ((s = Hook \/ s = Dump) -> bguard q = true).
Proof.
  rewrite ra_atom_eq. destruct (fa_atom l s a) as [a1 al]. simpl. intros H. injection H as <- Hal.
  apply app_eq_nil in Hal as [-> Hal2]. exists a1. split; [reflexivity|]. split; [reflexivity|].
  intros [->| ->]; simpl in Hal2; destruct (bguard q); try reflexivity; discriminate.
Qed.

(* ---------------------------------------------------------------- reads and writes *)
Lemma upd_upd {A} i (a1 a2 : A) l l1 : upd i a1 l = Some l1 -> upd i a2 l1 = upd i a2 l.
Proof.
  revert i l1. induction l as [|b t IH]; intros [|i] l1 H; simpl in H; try discriminate.
  - injection H as <-. reflexivity.
  - destruct (upd i a1 t) as [t'|] eqn:E; [|discriminate]. injection H as <-. simpl. rewrite (IH _ _ E). reflexivity.
Qed.

(* [fback x x']: every slot of x' existed in x with the same fitness *)
Definition fback (x x' : st) : Prop :=
  forall j ag', nth_error (pop x') j = Some ag' -> exists ag, nth_error (pop x) j = Some ag /\ afit ag' = afit ag.

Lemma fback_refl x x' : pop x' = pop x -> fback x x'.
Proof. intros E j ag' H. rewrite E in H. exists ag'. split; [assumption|reflexivity]. Qed.

Lemma fback_trans x y z : fback x y -> fback y z -> fback x z.
Proof.
  intros H1 H2 j c Hc. destruct (H2 j c Hc) as (b & Hb & E1). destruct (H1 j b Hb) as (a & Ha & E2).
  exists a. split; [assumption|congruence].
Qed.

Lemma setr_fback r cur ag ag' x x' :
  getr r cur x = Some ag -> setr r cur ag' x = Some x' -> afit ag' = afit ag ->
  fback x x' /\ afit (best x') = afit (best x) /\ loc x' = loc x /\ (r <> Best -> best x' = best x).
Proof.
  intros Hg Hs Hf. apply setr_written in Hs.
  destruct Hs as [-> -> | -> -> | i l -> -> Hu -> | i l Hsl Hi Hu ->].
  - simpl in Hg. injection Hg as <-. simpl. repeat split; [apply fback_refl; reflexivity|assumption|congruence].
  - simpl. repeat split. apply fback_refl; reflexivity.
  - simpl. repeat split. apply fback_refl; reflexivity.
  - rewrite getr_slot, Hi in Hg by assumption. simpl. repeat split.
    intros j b Hn. simpl in Hn. destruct (nth_error_upd_cases _ _ _ _ _ _ Hu Hn) as [[-> ->]|[Hne Hn']].
    + exists ag. split; assumption.
    + exists b. split; [assumption|reflexivity].
Qed.

(* a write leaves everything but the written reference alone *)
Lemma setr_frame r cur ag' x x' : setr r cur ag' x = Some x' ->
  loc x' = loc x /\ (r <> Best -> best x' = best x) /\ length (pop x') = length (pop x) /\
  (slotlike r = false -> pop x' = pop x).
Proof.
  intros Hs. apply setr_written in Hs.
  destruct Hs as [-> -> | -> -> | i l -> -> Hu -> | i l Hsl Hi Hu ->]; simpl; repeat split; try congruence.
  eapply upd_length; eassumption.
Qed.

Section RelSound.
  Variables (lbs ubs : list Z) (f : contents -> Z) (n_iter : nat).
  Variable INIT : list contents.
  Hypothesis box_ok : Forall2 (fun l h => kle l h = true) lbs ubs.

  (* [below x ag]: the agent's fitness is strictly below the best agent's *)
  Definition below (x : st) (ag : agent) : bool := klt (afit ag) (afit (best x)).

  (* the best agent is feasible, or still the untouched placeholder of a freshly built space *)
  Definition best_ok (x : st) : Prop :=
    feasible lbs ubs (apos (best x)) = true \/
    (afit (best x) = KMAX /\ In (apos (best x)) INIT /\ wf lbs (apos (best x))).

  Definition ev_ok2 (e : event) : Prop := match e with EvHook y | EvDump y => best_ok y | _ => True end.

  Record RelG (q : rel) (cur : option nat) (x : st) (h : list event) : Prop := {
    r_done : ge_done q = true -> forall j ag, nth_error (pop x) j = Some ag -> (forall i, cur = Some i -> j < i) -> below x ag = false;
    r_cur : ge_cur q = true -> forall i ag, cur = Some i -> nth_error (pop x) i = Some ag -> below x ag = false;
    r_todo : ge_todo q = true -> forall i j ag, cur = Some i -> i < j -> nth_error (pop x) j = Some ag -> below x ag = false;
    r_lt : lt_cb q = true -> forall i ag, cur = Some i -> nth_error (pop x) i = Some ag -> below x ag = true;
    r_loc : forall j ag c, nth_error (pop x) j = Some ag -> nth_error (loc x) j = Some c -> below x ag = true ->
            match locrel q with LAll => True | LButCur => cur <> Some j | LNone => False end ->
            feasible lbs ubs c = true;
    r_best : bguard q = true -> best_ok x;
    r_evs : Forall ev_ok2 h
  }.

  Definition RG (a : ra) (cur : option nat) (x : st) (h : list event) : Prop :=
    FG lbs ubs INIT (fst a) cur x h /\ RelG (snd a) cur x h.

  (* the state a task starts in *)
  Definition start_ok (x : st) : Prop := RG ra_init None x [].

  Notation FG := (FG lbs ubs INIT).
  Notation xexec := (exec lbs ubs f hk n_iter okc).
  Notation xexec_atom := (exec_atom lbs ubs f hk okc).

  Lemma below_eq x x' ag ag' : afit ag' = afit ag -> afit (best x') = afit (best x) -> below x' ag' = below x ag.
  Proof. unfold below. intros -> ->. reflexivity. Qed.

  Lemma best_ok_eq x x' : best x' = best x -> best_ok x -> best_ok x'.
  Proof. unfold best_ok. intros ->. auto. Qed.

  Lemma RelG_mono q s cur x h : rel_leb q s = true -> RelG q cur x h -> RelG s cur x h.
  Proof.
    rewrite rel_leb_spec. intros (H1 & H2 & H3 & H4 & H5 & H6) [G1 G2 G3 G4 G5 G6 G7].
    constructor; try assumption.
    - intros E. apply G1. destruct (ge_done s), (ge_done q); try reflexivity; discriminate.
    - intros E. apply G2. destruct (ge_cur s), (ge_cur q); try reflexivity; discriminate.
    - intros E. apply G3. destruct (ge_todo s), (ge_todo q); try reflexivity; discriminate.
    - intros E. apply G4. destruct (lt_cb s), (lt_cb q); try reflexivity; discriminate.
    - intros j ag c Hn Hl Hb Hm. eapply G5; try eassumption.
      destruct (locrel s), (locrel q); simpl in H5; try discriminate; try assumption; try exact I; contradiction.
    - intros E. apply G6. destruct (bguard s), (bguard q); try reflexivity; discriminate.
  Qed.

  Lemma RG_mono a b cur x h : ra_leb a b = true -> RG a cur x h -> RG b cur x h.
  Proof.
    unfold ra_leb. rewrite andb_true_iff. intros [H1 H2] [K1 K2]. split.
    - eapply (FG_mono lbs ubs f INIT); eassumption.
    - eapply RelG_mono; eassumption.
  Qed.

  Lemma RelG_events q cur x h evs : RelG q cur x h -> Forall ev_ok2 evs -> RelG q cur x (h ++ evs).
  Proof. intros [G1 G2 G3 G4 G5 G6 G7] H. constructor; try assumption. apply Forall_app. split; assumption. Qed.

  Lemma RelG_nil q cur x h : RelG q cur x h -> RelG q cur x (h ++ []).
  Proof. rewrite app_nil_r. auto. Qed.

  (* a step that keeps every fitness and the local positions *)
  Lemma RelG_frame q b cur x x' h :
    fback x x' -> afit (best x') = afit (best x) -> loc x' = loc x -> (b = true -> best_ok x') ->
    RelG q cur x h -> RelG (with_bguard q b) cur x' h.
  Proof.
    intros Hfb Hbf Hloc Hb [G1 G2 G3 G4 G5 G6 G7]. constructor; simpl; try assumption.
    - intros E j ag' Hn Hc. destruct (Hfb j ag' Hn) as (ag & Hn0 & Hf). rewrite (below_eq x x' ag ag') by assumption. eapply G1; eassumption.
    - intros E i ag' Hc Hn. destruct (Hfb i ag' Hn) as (ag & Hn0 & Hf). rewrite (below_eq x x' ag ag') by assumption. eapply G2; eassumption.
    - intros E i j ag' Hc Hlt Hn. destruct (Hfb j ag' Hn) as (ag & Hn0 & Hf). rewrite (below_eq x x' ag ag') by assumption. eapply G3; eassumption.
    - intros E i ag' Hc Hn. destruct (Hfb i ag' Hn) as (ag & Hn0 & Hf). rewrite (below_eq x x' ag ag') by assumption. eapply G4; eassumption.
    - intros j ag' c Hn Hl Hbl Hm. destruct (Hfb j ag' Hn) as (ag & Hn0 & Hf). rewrite (below_eq x x' ag ag') in Hbl by assumption.
      rewrite Hloc in Hl. eapply G5; eassumption.
  Qed.

  Lemma RelG_same q cur x x' h :
    fback x x' -> best x' = best x -> loc x' = loc x -> RelG q cur x h -> RelG q cur x' h.
  Proof.
    intros Hfb Hb Hl HG. rewrite <- (with_bguard_id q). eapply RelG_frame; try eassumption.
    - rewrite Hb. reflexivity.
    - intros E. eapply best_ok_eq; [exact Hb|]. eapply r_best; eassumption.
  Qed.

  Lemma RelG_ext q cur x x' h :
    pop x' = pop x -> best x' = best x -> loc x' = loc x -> RelG q cur x h -> RelG q cur x' h.
  Proof. intros Hp. apply RelG_same. apply fback_refl. assumption. Qed.

  Lemma norm_sound a cur x h : RG a cur x h -> RG (norm a) cur x h.
  Proof.
    unfold norm. destruct (is_feas (f_best (fst a))) eqn:E; [|auto].
    intros [HF HR]. split; [exact HF|]. simpl.
    destruct HR as [G1 G2 G3 G4 G5 G6 G7]. constructor; simpl; try assumption.
    intros _. left. destruct HF as [_ _ F3 _ _ _ _ _]. destruct (f_best (fst a)); try discriminate. exact F3.
  Qed.

  (* the conclusion of a relation with no fact *)
  Lemma RelG_top q cur x h :
    ge_done q = false -> ge_cur q = false -> ge_todo q = false -> lt_cb q = false -> locrel q = LNone ->
    (bguard q = true -> best_ok x) -> Forall ev_ok2 h -> RelG q cur x h.
  Proof.
    intros E1 E2 E3 E4 E5 Hb He. constructor; try assumption; try (intros E; congruence).
    intros j ag c _ _ _. rewrite E5. intros [].
  Qed.

  (* ---------------------------------------------------------------- writes of fitnesses *)
  Lemma klt_asym a b : klt a b = true -> klt b a = false.
  Proof. unfold klt. lia. Qed.
  Lemma klt_nb_trans a b c : klt a b = false -> klt c b = true -> klt a c = false.
  Proof. unfold klt. lia. Qed.

  (* r.fit := anything *)
  Lemma fit_written_sound r cur ag' x x' q h :
    setr r cur ag' x = Some x' -> RelG q cur x h -> RelG (fit_written r q) cur x' h.
  Proof.
    intros Hs HG. pose proof Hs as Hw. apply setr_written in Hw.
    destruct Hw as [-> -> | -> -> | i l -> -> Hu -> | i l Hsl Hi Hu ->].
    - apply RelG_top; try reflexivity; [simpl; discriminate | eapply r_evs; eassumption].
    - simpl. eapply RelG_ext; [| | |exact HG]; reflexivity.
    - simpl. eapply RelG_ext; [| | |exact HG]; reflexivity.
    - destruct r; try discriminate; simpl in Hi.
      + subst cur. destruct HG as [G1 G2 G3 G4 G5 G6 G7].
        constructor; simpl; try assumption; try (intros; discriminate).
        * intros E j ag Hn Hc. specialize (Hc i eq_refl).
          rewrite (upd_nth_other _ _ _ _ _ Hu) in Hn by lia. eapply G1; try eassumption. intros i0 Hi0. injection Hi0 as <-. exact Hc.
        * intros E i0 j ag Hc Hlt Hn. injection Hc as <-.
          rewrite (upd_nth_other _ _ _ _ _ Hu) in Hn by lia. eapply G3; try eassumption. reflexivity.
        * intros j ag c Hn Hl Hb Hm.
          assert (Hne : j <> i) by (destruct (locrel q); simpl in Hm; congruence).
          rewrite (upd_nth_other _ _ _ _ _ Hu) in Hn by exact Hne.
          eapply G5; try eassumption. destruct (locrel q); simpl in Hm; try exact I; assumption.
      + apply RelG_top; try reflexivity; [|eapply r_evs; eassumption]. simpl. intros E. eapply r_best in HG; eassumption.
      + apply RelG_top; try reflexivity; [|eapply r_evs; eassumption]. simpl. intros E. eapply r_best in HG; eassumption.
  Qed.

  (* a slot is overwritten by an agent that is not below the best agent *)
  Lemma RelG_slot_nb q cur x h k ag' l :
    upd k ag' (pop x) = Some l -> below x ag' = false -> RelG q cur x h ->
    RelG {| ge_done := ge_done q; ge_cur := ge_cur q; ge_todo := ge_todo q; lt_cb := false; locrel := locrel q; bguard := bguard q |}
         cur (with_pop x l) h.
  Proof.
    intros Hu Hnb [G1 G2 G3 G4 G5 G6 G7]. constructor; simpl; try assumption; try (intros; discriminate).
    - intros E j ag Hn Hc. destruct (nth_error_upd_cases _ _ _ _ _ _ Hu Hn) as [[-> ->]|[Hne Hn']]; [exact Hnb|]. eapply G1; eassumption.
    - intros E i ag Hc Hn. destruct (nth_error_upd_cases _ _ _ _ _ _ Hu Hn) as [[-> ->]|[Hne Hn']]; [exact Hnb|]. eapply G2; eassumption.
    - intros E i j ag Hc Hlt Hn. destruct (nth_error_upd_cases _ _ _ _ _ _ Hu Hn) as [[-> ->]|[Hne Hn']]; [exact Hnb|]. eapply G3; eassumption.
    - intros j ag c Hn Hl Hb Hm. destruct (nth_error_upd_cases _ _ _ _ _ _ Hu Hn) as [[-> ->]|[Hne Hn']].
      + change (below x ag' = true) in Hb. congruence.
      + eapply G5; eassumption.
  Qed.

  Lemma RelG_cur_nb q x h k ag' l :
    upd k ag' (pop x) = Some l -> below x ag' = false -> RelG q (Some k) x h ->
    RelG {| ge_done := ge_done q; ge_cur := true; ge_todo := ge_todo q; lt_cb := false; locrel := up_loc (locrel q); bguard := bguard q |}
         (Some k) (with_pop x l) h.
  Proof.
    intros Hu Hnb [G1 G2 G3 G4 G5 G6 G7]. constructor; simpl; try assumption; try (intros; discriminate).
    - intros E j ag Hn Hc. destruct (nth_error_upd_cases _ _ _ _ _ _ Hu Hn) as [[-> ->]|[Hne Hn']]; [exact Hnb|]. eapply G1; eassumption.
    - intros E i ag Hc Hn. injection Hc as <-. rewrite (upd_nth_same _ _ _ _ Hu) in Hn. injection Hn as <-. exact Hnb.
    - intros E i j ag Hc Hlt Hn. destruct (nth_error_upd_cases _ _ _ _ _ _ Hu Hn) as [[-> ->]|[Hne Hn']]; [exact Hnb|]. eapply G3; eassumption.
    - intros j ag c Hn Hl Hb Hm. destruct (nth_error_upd_cases _ _ _ _ _ _ Hu Hn) as [[-> ->]|[Hne Hn']].
      + change (below x ag' = true) in Hb. congruence.
      + eapply G5; try eassumption. destruct (locrel q); simpl in Hm; try exact I; try contradiction. congruence.
  Qed.

  (* r.fit := best.fit *)
  Lemma fit_from_best_sound d cur ag' x x' q h :
    setr d cur ag' x = Some x' -> d <> Best -> afit ag' = afit (best x) ->
    RelG q cur x h -> RelG (fit_from_best d q) cur x' h.
  Proof.
    intros Hs Hd Hf HG. pose proof Hs as Hw. apply setr_written in Hw.
    assert (Hnb : below x ag' = false) by (unfold below; rewrite Hf; apply klt_irrefl).
    destruct Hw as [-> -> | -> -> | i l -> -> Hu -> | i l Hsl Hi Hu ->].
    - congruence.
    - simpl. eapply RelG_ext; [| | |exact HG]; reflexivity.
    - simpl. eapply RelG_ext; [| | |exact HG]; reflexivity.
    - destruct d; try discriminate; simpl in Hi.
      + subst cur. simpl. eapply RelG_cur_nb; eassumption.
      + simpl. eapply RelG_slot_nb; eassumption.
      + simpl. eapply RelG_slot_nb; eassumption.
  Qed.

  (* best.fit := cur.fit under cur.fit < best.fit, the loop slot keeping its fitness or taking the old best fitness *)
  Lemma best_lowered_sound q i x x' h ag :
    nth_error (pop x) i = Some ag -> below x ag = true ->
    afit (best x') = afit ag -> loc x' = loc x ->
    (forall j b', nth_error (pop x') j = Some b' ->
       exists b, nth_error (pop x) j = Some b /\ (afit b' = afit b \/ (j = i /\ afit b' = afit (best x)))) ->
    RelG q (Some i) x h -> RelG (best_lowered q) (Some i) x' h.
  Proof.
    intros Hag Hlt Hbf Hloc Hpop [G1 G2 G3 G4 G5 G6 G7].
    assert (Hkey : forall j b' b, nth_error (pop x) j = Some b -> (afit b' = afit b \/ (j = i /\ afit b' = afit (best x))) ->
                     (below x b = false \/ j = i) -> below x' b' = false).
    { intros j b' b Hb [E|[-> E]] Hc; unfold below in *; rewrite Hbf, E.
      - destruct Hc as [Hc| ->].
        + eapply klt_nb_trans; eassumption.
        + rewrite Hag in Hb. injection Hb as <-. apply klt_irrefl.
      - apply klt_asym. exact Hlt. }
    constructor; simpl; try assumption; try (intros; discriminate).
    - intros E j b' Hn Hc. destruct (Hpop j b' Hn) as (b & Hb & Hcase). eapply Hkey; try eassumption. left. eapply G1; eassumption.
    - intros _ i0 b' Hc Hn. injection Hc as <-. destruct (Hpop i b' Hn) as (b & Hb & Hcase). eapply Hkey; try eassumption. right. reflexivity.
    - intros E i0 j b' Hc Hl Hn. destruct (Hpop j b' Hn) as (b & Hb & Hcase). eapply Hkey; try eassumption. left. eapply G3; eassumption.
    - intros j b' c Hn Hl Hb Hm. destruct (Hpop j b' Hn) as (b & Hb0 & Hcase). rewrite Hloc in Hl.
      destruct (Nat.eq_dec j i) as [->|Hne].
      + rewrite (Hkey i b' b Hb0 Hcase (or_intror eq_refl)) in Hb. discriminate.
      + destruct Hcase as [E|[-> _]]; [|congruence].
        assert (Hb1 : below x b = true).
        { unfold below in *. rewrite Hbf, E in Hb. eapply klt_trans; eassumption. }
        eapply G5; try eassumption. destruct (locrel q); simpl in Hm; try exact I; try contradiction. congruence.
  Qed.

  (* ---------------------------------------------------------------- the atoms: fitness facts *)
  Lemma RelG_poswrite r cur ag ag' x x1 x' q h :
    getr r cur x = Some ag -> setr r cur ag' x = Some x1 -> afit ag' = afit ag ->
    pop x' = pop x1 -> best x' = best x1 -> loc x' = loc x1 ->
    RelG q cur x h -> RelG (if is_best r then with_bguard q false else q) cur x' h.
  Proof.
    intros Hg Hs Hf Hp Hb Hl HG. destruct (setr_fback _ _ _ _ _ _ Hg Hs Hf) as (Hfb & Hbf & Hloc & Hbest).
    assert (Hfb' : fback x x') by (intros j b Hn; rewrite Hp in Hn; apply Hfb; exact Hn).
    destruct (is_best r) eqn:Eb.
    - eapply RelG_frame; try eassumption; congruence.
    - eapply RelG_same; try eassumption; [|congruence]. rewrite Hb. apply Hbest. intros ->. discriminate.
  Qed.

  Lemma sort_sound q cur x h : RelG q cur x h ->
    RelG (let g := ge_done q && ge_cur q && ge_todo q in
          {| ge_done := g; ge_cur := g; ge_todo := g; lt_cb := false; locrel := LNone; bguard := bguard q |})
         cur (with_pop x (sort_fit (pop x))) h.
  Proof.
    intros [G1 G2 G3 G4 G5 G6 G7].
    assert (Hall : ge_done q && ge_cur q && ge_todo q = true -> forall j ag, nth_error (sort_fit (pop x)) j = Some ag -> below x ag = false).
    { intros E j ag Hn. apply andb_true_iff in E as [E E3]. apply andb_true_iff in E as [E1 E2].
      apply nth_error_In, sort_fit_in, In_nth_error in Hn as [k Hk].
      destruct cur as [i|].
      - destruct (lt_eq_lt_dec k i) as [[Hlt| ->]|Hgt].
        + eapply G1; try eassumption. intros i0 Hi0. injection Hi0 as <-. exact Hlt.
        + eapply G2; try eassumption. reflexivity.
        + eapply G3; try eassumption. reflexivity.
      - eapply G1; try eassumption. intros i0 Hi0. discriminate. }
    constructor; simpl; try assumption; try (intros; discriminate).
    - intros E j ag Hn _. eapply Hall; eassumption.
    - intros E i ag _ Hn. eapply Hall; eassumption.
    - intros E i j ag _ _ Hn. eapply Hall; eassumption.
    - intros j ag c _ _ _ [].
  Qed.

  Lemma locfrompos_sound a q i x h ag lc :
    FG a (Some i) x h -> RelG q (Some i) x h -> nth_error (pop x) i = Some ag -> upd i (apos ag) (loc x) = Some lc ->
    RelG {| ge_done := ge_done q; ge_cur := ge_cur q; ge_todo := ge_todo q; lt_cb := lt_cb q;
            locrel := if is_feas (f_cur a) then up_loc (locrel q) else down_loc (locrel q); bguard := bguard q |}
         (Some i) (with_loc x lc) h.
  Proof.
    intros HF [G1 G2 G3 G4 G5 G6 G7] Hag Hu. constructor; simpl; try assumption.
    intros j b c Hn Hl Hb Hm. destruct (Nat.eq_dec j i) as [->|Hne].
    - rewrite (upd_nth_same _ _ _ _ Hu) in Hl. injection Hl as <-.
      destruct (is_feas (f_cur a)) eqn:Ef.
      + pose proof (g_cur _ _ _ _ _ _ _ HF i ag eq_refl Hag) as Hlv.
        destruct (f_cur a); try discriminate. exact Hlv.
      + destruct (locrel q); simpl in Hm; try contradiction; congruence.
    - rewrite (upd_nth_other _ _ _ _ _ Hu) in Hl by exact Hne.
      eapply G5; try eassumption.
      destruct (is_feas (f_cur a)); destruct (locrel q); simpl in Hm; try exact I; try contradiction; congruence.
  Qed.

  Ltac inv_ret H := unfold ret in H; injection H as <- <- <-.

  Lemma ev_eval_ok c v : Forall ev_ok2 [EvEval c v].
  Proof. constructor; [exact I|constructor]. Qed.

  Lemma rel_atom_sound s a q cur o x h x' evs o' :
    is_atom s = true -> FG a cur x h -> RelG q cur x h ->
    ((s = Hook \/ s = Dump) -> bguard q = true) ->
    xexec_atom cur s o x = Some (x', evs, o') -> RelG (rel_atom s a q) cur x' (h ++ evs).
  Proof.
    intros Hat HF HG Hhd Hex.
    destruct s; simpl in Hat; try discriminate; simpl in Hex; simpl rel_atom.
    - (* Skip *) inv_ret Hex. apply RelG_nil; assumption.
    - (* Havoc *)
      destruct o as [|[c|?|?|?] o1]; try discriminate.
      destruct (getr r cur x) as [ag|] eqn:Eg; [|discriminate].
      destruct (okc (apos ag) c) eqn:Eok; simpl in Hex; [|discriminate].
      destruct m; (destruct (setr r cur _ x) as [x1|] eqn:Es; [|discriminate]); inv_ret Hex; apply RelG_nil;
        (eapply RelG_poswrite; [exact Eg|exact Es| | | | |exact HG]; reflexivity).
    - (* Clip *)
      destruct (getr r cur x) as [ag|] eqn:Eg; [|discriminate].
      destruct (setr r cur _ x) as [x1|] eqn:Es; [|discriminate]. inv_ret Hex. apply RelG_nil.
      eapply RelG_poswrite; [exact Eg|exact Es| | | | |exact HG]; reflexivity.
    - (* ClipAll *)
      inv_ret Hex. apply RelG_nil. eapply RelG_same; [| | |exact HG]; try reflexivity.
      intros j b Hn. simpl in Hn. rewrite nth_error_map in Hn. destruct (nth_error (pop x) j) as [ag|] eqn:En; [|discriminate].
      injection Hn as <-. exists ag. split; reflexivity.
    - (* Eval *)
      destruct (getr r cur x) as [ag|] eqn:Eg; [|discriminate].
      destruct (setr r cur _ x) as [x1|] eqn:Es; [|discriminate]. injection Hex as <- <- <-.
      apply RelG_events; [|apply ev_eval_ok]. eapply fit_written_sound; eassumption.
    - (* EvalTmp *)
      destruct (getr r cur x) as [ag|] eqn:Eg; [|discriminate]. injection Hex as <- <- <-.
      apply RelG_events; [|apply ev_eval_ok]. eapply RelG_ext; [| | |exact HG]; reflexivity.
    - (* SetFitTmp *)
      destruct (getr r cur x) as [ag|] eqn:Eg; [|discriminate].
      destruct (setr r cur _ x) as [x1|] eqn:Es; [|discriminate]. inv_ret Hex. apply RelG_nil.
      eapply fit_written_sound; eassumption.
    - (* CopyPos *)
      destruct (getr d cur x) as [ag|] eqn:Eg; [|discriminate].
      destruct (getr s cur x) as [bg|] eqn:Eg2; [|discriminate].
      destruct (setr d cur _ x) as [x1|] eqn:Es; [|discriminate]. inv_ret Hex. apply RelG_nil.
      eapply RelG_poswrite; [exact Eg|exact Es| | | | |exact HG]; reflexivity.
    - (* CopyFit *)
      destruct (getr d cur x) as [ag|] eqn:Eg; [|discriminate].
      destruct (getr s cur x) as [bg|] eqn:Eg2; [|discriminate].
      destruct (setr d cur _ x) as [x1|] eqn:Es; [|discriminate]. inv_ret Hex. apply RelG_nil.
      destruct (is_best d) eqn:Ed.
      + destruct d; try discriminate.
        destruct (is_cur s && lt_cb q) eqn:E; [|eapply (fit_written_sound Best); eassumption].
        apply andb_true_iff in E as [Ec Elt]. destruct s; try discriminate.
        simpl in Eg2, Es. destruct cur as [i|]; [|discriminate]. injection Es as <-.
        eapply best_lowered_sound with (ag := bg); try eassumption; try reflexivity.
        * eapply r_lt; try eassumption. reflexivity.
        * intros j b' Hn. exists b'. split; [exact Hn|left; reflexivity].
      + destruct (is_best s) eqn:Es0.
        * destruct s; try discriminate. simpl in Eg2. injection Eg2 as <-.
          eapply fit_from_best_sound; try eassumption; [|reflexivity]. intros ->. discriminate.
        * eapply fit_written_sound; eassumption.
    - (* LocFromPos *)
      destruct cur as [i|]; [|discriminate].
      destruct (nth_error (pop x) i) as [ag|] eqn:Eg; [|discriminate].
      destruct (upd i (apos ag) (loc x)) as [lc|] eqn:Eu; [|discriminate]. inv_ret Hex. apply RelG_nil.
      eapply locfrompos_sound; eassumption.
    - (* BestPosFromLoc *)
      destruct cur as [i|]; [|discriminate].
      destruct (nth_error (loc x) i) as [c|] eqn:En; [|discriminate]. inv_ret Hex. apply RelG_nil.
      eapply RelG_frame; [| | | |exact HG]; try reflexivity; [apply fback_refl; reflexivity|discriminate].
    - (* SwapPos *)
      destruct (getr a0 cur x) as [p|] eqn:Eg; [|discriminate].
      destruct (getr b cur x) as [q0|] eqn:Eg2; [|discriminate].
      destruct (setr a0 cur _ x) as [x1|] eqn:Es; [|discriminate].
      destruct (getr b cur x1) as [q1|] eqn:Eg3; [|discriminate].
      destruct (setr b cur _ x1) as [x2|] eqn:Es2; [|discriminate]. inv_ret Hex. apply RelG_nil.
      destruct (setr_fback _ _ _ _ _ _ Eg Es eq_refl) as (Hfb1 & Hbf1 & Hl1 & Hb1).
      destruct (setr_fback _ _ _ _ _ _ Eg3 Es2 eq_refl) as (Hfb2 & Hbf2 & Hl2 & Hb2).
      pose proof (fback_trans _ _ _ Hfb1 Hfb2) as Hfb.
      destruct (is_best a0 || is_best b) eqn:Eb.
      + eapply RelG_frame; [exact Hfb|congruence|congruence|discriminate|exact HG].
      + apply orb_false_iff in Eb as [Eb1 Eb2].
        eapply RelG_same; [exact Hfb| |congruence|exact HG].
        rewrite Hb2, Hb1; [reflexivity| |]; intros ->; discriminate.
    - (* SwapFit *)
      destruct (getr a0 cur x) as [p|] eqn:Eg; [|discriminate].
      destruct (getr b cur x) as [q0|] eqn:Eg2; [|discriminate].
      destruct (setr a0 cur _ x) as [x1|] eqn:Es; [|discriminate].
      destruct (getr b cur x1) as [q1|] eqn:Eg3; [|discriminate].
      destruct (setr b cur _ x1) as [x2|] eqn:Es2; [|discriminate]. inv_ret Hex. apply RelG_nil.
      destruct ((is_cur a0 && is_best b || is_best a0 && is_cur b) && lt_cb q) eqn:E.
      + apply andb_true_iff in E as [E Elt]. apply orb_true_iff in E as [E|E]; apply andb_true_iff in E as [E1 E2];
          destruct a0; try discriminate; destruct b; try discriminate; simpl in Eg, Eg2, Es, Eg3, Es2;
          (destruct cur as [i|]; [|discriminate]).
        * (* cur.fit, best.fit swapped, cur first *)
          injection Eg2 as <-. destruct (upd i _ (pop x)) as [l1|] eqn:Eu; [|discriminate]. injection Es as <-.
          simpl in Eg3. injection Eg3 as <-. simpl in Es2. injection Es2 as <-.
          eapply best_lowered_sound with (ag := p); try eassumption; try reflexivity.
          -- eapply r_lt; try eassumption. reflexivity.
          -- intros j b' Hn. simpl in Hn. destruct (nth_error_upd_cases _ _ _ _ _ _ Eu Hn) as [[-> ->]|[Hne Hn']].
             ++ exists p. split; [exact Eg|right; split; reflexivity].
             ++ exists b'. split; [exact Hn'|left; reflexivity].
        * (* best first *)
          injection Eg as <-. injection Es as <-. simpl in Eg3. rewrite Eg2 in Eg3. injection Eg3 as <-.
          simpl in Es2. destruct (upd i _ (pop x)) as [l1|] eqn:Eu; [|discriminate]. injection Es2 as <-.
          eapply best_lowered_sound with (ag := q0); try eassumption; try reflexivity.
          -- eapply r_lt; try eassumption. reflexivity.
          -- intros j b' Hn. simpl in Hn. destruct (nth_error_upd_cases _ _ _ _ _ _ Eu Hn) as [[-> ->]|[Hne Hn']].
             ++ exists q0. split; [exact Eg2|right; split; reflexivity].
             ++ exists b'. split; [exact Hn'|left; reflexivity].
      + rewrite fit_written_comm. eapply fit_written_sound; [exact Es2|]. eapply fit_written_sound; [exact Es|exact HG].
    - (* NewTrial *)
      destruct (getr s cur x) as [ag|] eqn:Eg; [|discriminate]. inv_ret Hex. apply RelG_nil.
      eapply RelG_ext; [| | |exact HG]; reflexivity.
    - (* ShadowAll *)
      inv_ret Hex. apply RelG_nil. eapply RelG_ext; [| | |exact HG]; reflexivity.
    - (* Store *)
      assert (Hgen : forall x1 ag, slotlike d = true -> getr s cur x = Some ag ->
                setr d cur {| apos := apos ag; aid := next x; afit := afit ag |} x = Some x1 ->
                RelG (if is_best s then fit_from_best d q else fit_written d q) cur (with_next x1 (S (next x))) h).
      { intros x1 ag Hd Eg Es. eapply RelG_ext with (x := x1); try reflexivity.
        destruct (is_best s) eqn:Es0.
        - destruct s; try discriminate. simpl in Eg. injection Eg as <-.
          eapply fit_from_best_sound; try eassumption; [|reflexivity]. intros ->. discriminate.
        - eapply fit_written_sound; eassumption. }
      destruct d; try discriminate;
        (destruct (getr s cur x) as [ag|] eqn:Eg; [|discriminate];
         destruct (setr _ cur _ x) as [x1|] eqn:Es; [|discriminate]; inv_ret Hex; apply RelG_nil;
         eapply Hgen; [reflexivity|reflexivity|exact Es]).
    - (* ChooseIdx *)
      destruct o as [|[?|?|i|?] o1]; try discriminate.
      destruct (Nat.ltb i (length (pop x))); [|discriminate]. inv_ret Hex. apply RelG_nil.
      eapply RelG_ext; [| | |exact HG]; reflexivity.
    - (* SortByFit *)
      inv_ret Hex. apply RelG_nil. apply sort_sound. exact HG.
    - (* Hook *)
      injection Hex as <- <- <-. unfold hk. apply RelG_events; [exact HG|].
      constructor; [|constructor]. simpl. eapply r_best; [exact HG|]. apply Hhd. left; reflexivity.
    - (* Dump *)
      injection Hex as <- <- <-. apply RelG_events; [exact HG|].
      constructor; [|constructor]. simpl. eapply r_best; [exact HG|]. apply Hhd. right; reflexivity.
    - (* Draw *)
      injection Hex as <- <- <-. apply RelG_events; [exact HG|]. constructor; [exact I|constructor].
    - (* SetHyper *)
      inv_ret Hex. apply RelG_nil. eapply RelG_ext; [| | |exact HG]; reflexivity.
    - (* PosFromTree *)
      destruct cur as [i|]; [|discriminate].
      destruct (getr r (Some i) x) as [ag|] eqn:Eg; [|discriminate].
      destruct (nth_error (tv x) i) as [c|] eqn:En; [|discriminate].
      destruct (okc (apos ag) c) eqn:Eok; simpl in Hex; [|discriminate].
      destruct (setr r (Some i) _ x) as [x1|] eqn:Es; [|discriminate]. inv_ret Hex. apply RelG_nil.
      eapply RelG_poswrite; [exact Eg|exact Es| | | | |exact HG]; reflexivity.
    - (* BestTreeCopy *)
      destruct cur as [i|]; [|discriminate].
      destruct (nth_error (tv x) i) as [c|] eqn:En; [|discriminate]. inv_ret Hex. apply RelG_nil.
      eapply RelG_ext; [| | |exact HG]; reflexivity.
    - (* TreeCopy *)
      destruct o as [|[?|?|?|t] o1]; try discriminate.
      destruct (forallb2 okc (tv x) t); [|discriminate]. inv_ret Hex. apply RelG_nil.
      eapply RelG_ext; [| | |exact HG]; reflexivity.
    - (* TreeSet *)
      destruct o as [|[?|?|?|t] o1]; try discriminate.
      destruct (forallb2 okc (tv x) t); [|discriminate]. inv_ret Hex. apply RelG_nil.
      eapply RelG_ext; [| | |exact HG]; reflexivity.
    - (* TreeCross *)
      destruct o as [|[?|?|?|t] o1]; try discriminate.
      destruct (forallb2 okc (tv x) t); [|discriminate]. inv_ret Hex. apply RelG_nil.
      eapply RelG_ext; [| | |exact HG]; reflexivity.
  Qed.

  (* ---------------------------------------------------------------- the atoms: feasibility levels *)
  Lemma fa2_sound l s a q a1 cur o x h x' evs o' :
    is_atom s = true -> fa_atom l s a = (a1, []) -> FG a cur x h -> RelG q cur x h ->
    (lt_cb q = true -> forall i, cur = Some i -> i < length (pop x)) ->
    xexec_atom cur s o x = Some (x', evs, o') -> FG (a2_of s a q a1) cur x' (h ++ evs).
  Proof.
    intros Hat Hfa HF HG Hx Hex.
    assert (Hbase : FG a1 cur x' (h ++ evs)) by (eapply (fa_atom_sound lbs ubs f INIT box_ok); eassumption).
    destruct s; try exact Hbase; unfold a2_of.
    - (* BestPosFromLoc *)
      destruct (lt_cb q && match locrel q with LAll => true | _ => false end) eqn:E; [|exact Hbase].
      apply andb_true_iff in E as [Elt El]. simpl in Hex.
      destruct cur as [i|]; [|discriminate].
      destruct (nth_error (loc x) i) as [c|] eqn:En; [|discriminate]. inv_ret Hex.
      destruct Hbase as [B1 B2 B3 B4 B5 B6 B7 B8]. constructor; simpl; try assumption.
      specialize (Hx Elt i eq_refl).
      destruct (nth_error (pop x) i) as [ag|] eqn:Ea; [|apply nth_error_None in Ea; lia].
      eapply (r_loc _ _ _ _ HG i ag c Ea En).
      + eapply r_lt; try eassumption. reflexivity.
      + destruct (locrel q); try discriminate. exact I.
    - (* SwapPos *)
      destruct (is_cur a0 && is_best b || is_best a0 && is_cur b) eqn:E; [|exact Hbase].
      simpl in Hex.
      destruct (getr a0 cur x) as [p|] eqn:Eg; [|discriminate].
      destruct (getr b cur x) as [q0|] eqn:Eg2; [|discriminate].
      destruct (setr a0 cur _ x) as [x1|] eqn:Es; [|discriminate].
      destruct (getr b cur x1) as [q1|] eqn:Eg3; [|discriminate].
      destruct (setr b cur _ x1) as [x2|] eqn:Es2; [|discriminate]. inv_ret Hex. apply FG_nil.
      pose proof (FG_read lbs ubs f INIT _ _ _ _ _ _ HF Eg) as Hp.
      pose proof (FG_read lbs ubs f INIT _ _ _ _ _ _ HF Eg2) as Hq.
      apply orb_true_iff in E as [E|E]; apply andb_true_iff in E as [E1 E2];
        destruct a0; try discriminate; destruct b; try discriminate.
      + eapply (FG_write lbs ubs f INIT); [|exact Es2|exact Hp].
        eapply (FG_write lbs ubs f INIT); [exact HF|exact Es|exact Hq].
      + change (FG (wr Cur (f_best a) (wr Best (f_cur a) a)) cur x2 h).
        eapply (FG_write lbs ubs f INIT); [|exact Es2|exact Hp].
        eapply (FG_write lbs ubs f INIT); [exact HF|exact Es|exact Hq].
  Qed.

  (* the invariant of the analysis: [RG], and the loop slot exists whenever it is known to be below the best agent *)
  Definition RGx (a : ra) (cur : option nat) (x : st) (h : list event) : Prop :=
    RG a cur x h /\ (lt_cb (snd a) = true -> forall i, cur = Some i -> i < length (pop x)).

  Lemma hk_len (x : st) : length (pop (hk x)) = length (pop x).
  Proof. reflexivity. Qed.

  Lemma ra_atom_sound : forall l s a a', is_atom s = true -> ra_atom l s a = (a', []) ->
    forall cur o x h x' evs o', RGx a cur x h -> xexec_atom cur s o x = Some (x', evs, o') -> RGx a' cur x' (h ++ evs).
  Proof.
    intros l s [a q] a' Hat Hra cur o x h x' evs o' [[HF HR] Hx] Hex. simpl in HF, HR, Hx.
    apply ra_atom_inv in Hra as (a1 & Hfa & -> & Hhd). split.
    - apply norm_sound. split; simpl.
      + eapply fa2_sound; eassumption.
      + eapply rel_atom_sound; eassumption.
    - rewrite norm_lt. simpl. intros E i Hc. apply rel_atom_lt in E.
      rewrite (Counts.exec_atom_len lbs ubs f hk okc hk_len _ _ _ _ _ _ _ Hex). apply Hx; assumption.
  Qed.

  Lemma RGx_mono a b cur x h : ra_leb a b = true -> RGx a cur x h -> RGx b cur x h.
  Proof.
    intros Hle [HR Hx]. split; [eapply RG_mono; eassumption|].
    intros E. apply Hx. unfold ra_leb in Hle. apply andb_true_iff in Hle as [_ Hle]. apply rel_leb_spec in Hle.
    destruct Hle as (_ & _ & _ & H4 & _). destruct (lt_cb (snd b)), (lt_cb (snd a)); try reflexivity; discriminate.
  Qed.

  Lemma RGx_of_RG a x h : RG a None x h -> RGx a None x h.
  Proof. intros H. split; [exact H|]. intros _ i Hi. discriminate. Qed.

  (* ---------------------------------------------------------------- tests, binding of the loop slot *)
  Lemma ra_assume_sound c b a cur o x h o' :
    evalc c cur o x = Some (b, o') -> RGx a cur x h -> RGx (ra_assume c b a) cur x h.
  Proof.
    intros Hev HG. destruct a as [a q]. unfold ra_assume.
    destruct c; try exact HG. destruct a0; try exact HG. destruct b0; try exact HG.
    simpl in Hev. destruct cur as [i|]; [|discriminate].
    destruct (nth_error (pop x) i) as [ag|] eqn:Ea; [|discriminate]. injection Hev as <- <-.
    destruct HG as [[HF HR] Hx]. simpl in HF, HR, Hx.
    destruct (klt (afit ag) (afit (best x))) eqn:Eb.
    - split; [split; [exact HF|]|]; simpl.
      + destruct HR as [G1 G2 G3 G4 G5 G6 G7]. constructor; simpl; try assumption.
        intros _ i0 ag0 Hc Hn. injection Hc as <-. rewrite Ea in Hn. injection Hn as <-. exact Eb.
      + intros _ i0 Hc. injection Hc as <-. apply nth_error_Some. congruence.
    - split; [split; [exact HF|]|]; simpl; [|exact Hx].
      destruct HR as [G1 G2 G3 G4 G5 G6 G7]. constructor; simpl; try assumption.
      + intros _ i0 ag0 Hc Hn. injection Hc as <-. rewrite Ea in Hn. injection Hn as <-. exact Eb.
      + intros j ag0 c Hn Hl Hb Hm. destruct (Nat.eq_dec j i) as [->|Hne].
        * rewrite Ea in Hn. injection Hn as <-. unfold below in Hb. congruence.
        * eapply G5; try eassumption. destruct (locrel q); simpl in Hm; try exact I; try contradiction. congruence.
  Qed.

  Lemma ra_enter_sound a i x h : RGx a None x h -> RGx (ra_enter a) (Some i) x h.
  Proof.
    destruct a as [a q]. intros [[HF HR] _]. simpl in HF, HR.
    split; [split|]; simpl; [apply fa_enter_sound; exact HF| |discriminate].
    destruct HR as [G1 G2 G3 G4 G5 G6 G7]. constructor; simpl; try assumption; try (intros; discriminate).
    - intros E j ag Hn _. eapply G1; try eassumption. intros i0 Hi0. discriminate.
    - intros E i0 ag _ Hn. eapply G1; try eassumption. intros i1 Hi1. discriminate.
    - intros E i0 j ag _ _ Hn. eapply G1; try eassumption. intros i1 Hi1. discriminate.
    - intros j ag c Hn Hl Hb Hm. eapply G5; try eassumption. destruct (locrel q); simpl in Hm; try contradiction; exact I.
  Qed.

  Lemma exit_loc_sound q i x h : RelG q (Some i) x h -> exit_loc q = LAll ->
    forall j ag c, nth_error (pop x) j = Some ag -> nth_error (loc x) j = Some c -> below x ag = true -> feasible lbs ubs c = true.
  Proof.
    intros HG He j ag c Hn Hl Hb. eapply (r_loc _ _ _ _ HG); try eassumption.
    unfold exit_loc in He. destruct (locrel q) eqn:El; try discriminate; [|exact I].
    destruct (ge_cur q) eqn:Ec; [|discriminate]. intros Hc. injection Hc as <-.
    rewrite (r_cur _ _ _ _ HG Ec i ag eq_refl Hn) in Hb. discriminate.
  Qed.

  Lemma ra_exit_sound a i x h : RGx a (Some i) x h -> RGx (ra_exit a) None x h.
  Proof.
    destruct a as [a q]. intros [[HF HR] _]. simpl in HF, HR.
    split; [split|]; simpl; [apply (fa_exit_sound lbs ubs f INIT) with (i := i); exact HF| |intros _ i0 Hc; discriminate].
    constructor; simpl; try (intros; discriminate).
    - intros E j ag Hn _. apply andb_true_iff in E as [E E3]. apply andb_true_iff in E as [E1 E2].
      destruct (lt_eq_lt_dec j i) as [[Hlt| ->]|Hgt].
      + eapply (r_done _ _ _ _ HR); try eassumption. intros i0 Hi0. injection Hi0 as <-. exact Hlt.
      + eapply (r_cur _ _ _ _ HR); try eassumption. reflexivity.
      + eapply (r_todo _ _ _ _ HR); try eassumption. reflexivity.
    - intros j ag c Hn Hl Hb Hm. destruct (exit_loc q) eqn:Ee; try contradiction.
      + exfalso. unfold exit_loc in Ee. destruct (locrel q); try discriminate. destruct (ge_cur q); discriminate.
      + eapply exit_loc_sound; eassumption.
    - intros E. eapply r_best; eassumption.
    - eapply r_evs; eassumption.
  Qed.

  (* ---------------------------------------------------------------- r.position = <arithmetic>; r.check_limits() *)
  Lemma havoc_clip_spec t r : havoc_clip t = Some r -> exists m, t = Seq (Havoc m r) (Clip r) /\ r <> Best.
  Proof.
    destruct t; try discriminate. simpl. destruct t1; try discriminate. destruct t2; try discriminate.
    destruct (ref_eqb r0 r1 && negb (is_best r0)) eqn:E; [|discriminate]. intros H. injection H as <-.
    apply andb_true_iff in E as [E1 E2]. apply ref_eqb_eq in E1. subst r1. exists m. split; [reflexivity|].
    intros ->. discriminate.
  Qed.

  (* the two writes amount to one write of a clipped position *)
  Lemma havoc_clip_sem m r cur o x x' evs o' :
    xexec cur (Seq (Havoc m r) (Clip r)) o x = Some (x', evs, o') ->
    exists ag c idn x3,
      getr r cur x = Some ag /\ okc (apos ag) c = true /\
      setr r cur (clipa lbs ubs {| apos := c; aid := idn; afit := afit ag |}) x = Some x3 /\
      (x' = x3 \/ exists n, x' = with_next x3 n) /\ evs = [].
  Proof.
    intros Hex.
    change (bind (xexec_atom cur (Havoc m r) o x) (fun x1 o1 => xexec_atom cur (Clip r) o1 x1) = Some (x', evs, o')) in Hex.
    apply bind_some in Hex as (y & e1 & o1 & e2 & H1 & H2 & ->).
    simpl in H1. destruct o as [|[c|?|?|?] o0]; try discriminate.
    destruct (getr r cur x) as [ag|] eqn:Eg; [|discriminate].
    destruct (okc (apos ag) c) eqn:Eok; simpl in H1; [|discriminate].
    destruct m.
    - destruct (setr r cur _ x) as [x1|] eqn:Es; [|discriminate]. inv_ret H1.
      simpl in H2. rewrite BestMinSound.getr_with_next, (BestMinSound.getr_setr_same _ _ _ _ _ Es) in H2.
      destruct (setr r cur _ (with_next x1 _)) as [x2|] eqn:Es2; [|discriminate]. inv_ret H2.
      destruct (BestMinSound.setr_setr _ _ _ _ _ _ _ _ Es Es2) as (x3 & Hs3 & ->).
      exists ag, c, (next x), x3. repeat split; try assumption. right. eexists; reflexivity.
    - destruct (setr r cur _ x) as [x1|] eqn:Es; [|discriminate]. inv_ret H1.
      simpl in H2. rewrite (BestMinSound.getr_setr_same _ _ _ _ _ Es) in H2.
      destruct (setr r cur _ x1) as [x2|] eqn:Es2; [|discriminate]. inv_ret H2.
      pose proof (BestMinSound.setr_setr0 _ _ _ _ _ _ _ Es Es2) as Hs3.
      exists ag, c, (aid ag), x2. repeat split; try assumption. left. reflexivity.
  Qed.

  Lemma ra_special0_sound : forall l incur s a a', ra_special0 l incur s a = Some (a', []) ->
    forall cur o x h x' evs o', (if incur then exists i, cur = Some i else cur = None) ->
    RGx a cur x h -> xexec cur s o x = Some (x', evs, o') -> RGx a' cur x' (h ++ evs).
  Proof.
    intros l incur s a a' Hsp cur o x h x' evs o' _ [[HF HR] Hx] Hex.
    unfold ra_special0 in Hsp. destruct (havoc_clip (strip s)) as [r|] eqn:Ehc; [|discriminate].
    injection Hsp as <-. apply havoc_clip_spec in Ehc as (m & Est & Hr).
    rewrite <- (exec_strip lbs ubs f hk n_iter okc), Est in Hex.
    apply havoc_clip_sem in Hex as (ag & c & idn & x3 & Eg & Eok & Es & Hx' & ->).
    assert (Hfeas : feasible lbs ubs (apos (clipa lbs ubs {| apos := c; aid := idn; afit := afit ag |})) = true).
    { simpl. apply (clipc_feasible lbs ubs box_ok). eapply okc_wf; [exact Eok|].
      eapply (lv_ok_wf lbs ubs f INIT). eapply (FG_read lbs ubs f INIT); eassumption. }
    pose proof (FG_write lbs ubs f INIT _ _ _ _ _ _ _ Feas HF Es Hfeas) as HF3.
    destruct (setr_fback _ _ _ _ _ _ Eg Es eq_refl) as (Hfb & _ & Hloc & Hbest).
    pose proof (RelG_same _ _ _ _ _ Hfb (Hbest Hr) Hloc HR) as HR3.
    destruct (setr_frame _ _ _ _ _ Es) as (_ & _ & Hlen & _).
    rewrite app_nil_r. split.
    - apply norm_sound. destruct Hx' as [->|[n ->]]; split; simpl; try assumption.
      + apply FG_next. exact HF3.
      + eapply RelG_ext; [| | |exact HR3]; reflexivity.
    - rewrite norm_lt. simpl. intros E i Hc.
      replace (length (pop x')) with (length (pop x)); [apply Hx; assumption|].
      destruct Hx' as [->|[n ->]]; simpl; symmetry; exact Hlen.
  Qed.

  Theorem ra_sound0 : forall s l incur a a', ra_absint0 l incur s a = (a', []) ->
    forall cur o x h x' evs o', (if incur then exists i, cur = Some i else cur = None) ->
      RGx a cur x h -> xexec cur s o x = Some (x', evs, o') -> RGx a' cur x' (h ++ evs).
  Proof.
    intros s l incur a a' Habs cur o x h x' evs o' Hcur HG Hex.
    eapply (absint_sound lbs ubs f hk n_iter okc ra ra_leb ra_join ra_atom ra_assume ra_enter ra_exit ra_special0 RGx);
      try eassumption.
    - apply ra_leb_refl.
    - apply ra_leb_trans.
    - apply ra_join_l.
    - apply ra_join_r.
    - intros; eapply RGx_mono; eassumption.
    - intros; eapply ra_atom_sound; eassumption.
    - intros; eapply ra_assume_sound; eassumption.
    - intros; apply ra_enter_sound; assumption.
    - intros; eapply ra_exit_sound; eassumption.
    - intros; eapply ra_special0_sound; eassumption.
  Qed.

  (* ---------------------------------------------------------------- ForSlots: every slot is visited exactly once, in order *)
  (* the invariant between two slots: slots below [i] have been visited, the others not yet *)
  Record GI (J : ra) (i : nat) (x : st) (h : list event) : Prop := {
    gi_fg : FG (fst J) None x h;
    gi_done : ge_done (snd J) = true -> forall j ag, nth_error (pop x) j = Some ag -> j < i -> below x ag = false;
    gi_todo : ge_todo (snd J) = true -> forall j ag, nth_error (pop x) j = Some ag -> i <= j -> below x ag = false;
    gi_loc : locrel (snd J) = LAll -> forall j ag c, nth_error (pop x) j = Some ag -> nth_error (loc x) j = Some c ->
             below x ag = true -> feasible lbs ubs c = true;
    gi_best : bguard (snd J) = true -> best_ok x;
    gi_evs : Forall ev_ok2 h
  }.

  Lemma GI_mono a b i x h : ra_leb a b = true -> GI a i x h -> GI b i x h.
  Proof.
    unfold ra_leb. rewrite andb_true_iff, rel_leb_spec. intros [Hf (H1 & H2 & H3 & H4 & H5 & H6)] [I1 I2 I3 I4 I5 I6].
    constructor; try assumption.
    - eapply (FG_mono lbs ubs f INIT); eassumption.
    - intros E. apply I2. destruct (ge_done (snd b)), (ge_done (snd a)); try reflexivity; discriminate.
    - intros E. apply I3. destruct (ge_todo (snd b)), (ge_todo (snd a)); try reflexivity; discriminate.
    - intros E. apply I4. rewrite E in H5. destruct (locrel (snd a)); try discriminate. reflexivity.
    - intros E. apply I5. destruct (bguard (snd b)), (bguard (snd a)); try reflexivity; discriminate.
  Qed.

  Lemma flat_loc_all l : flat_loc l = LAll -> l = LAll.
  Proof. destruct l; simpl; intros H; try discriminate; reflexivity. Qed.

  Lemma fs_start_sound a x h : RG a None x h -> GI (fs_start a) 0 x h.
  Proof.
    destruct a as [a q]. intros [HF HR]. simpl in HF, HR. constructor; simpl.
    - exact HF.
    - intros _ j ag _ Hlt. lia.
    - intros E j ag Hn _. eapply (r_done _ _ _ _ HR); try eassumption. intros i0 Hi0. discriminate.
    - intros E j ag c Hn Hl Hb. apply flat_loc_all in E. eapply (r_loc _ _ _ _ HR); try eassumption. rewrite E. exact I.
    - intros E. eapply r_best; eassumption.
    - eapply r_evs; eassumption.
  Qed.

  Lemma fs_enter_sound J i x h : GI J i x h -> RGx (fs_enter J) (Some i) x h.
  Proof.
    destruct J as [a q]. intros [I1 I2 I3 I4 I5 I6]. simpl in *.
    split; [split|]; simpl; [apply fa_enter_sound; exact I1| |discriminate].
    constructor; simpl; try assumption; try (intros; discriminate).
    - intros E j ag Hn Hc. eapply I2; try eassumption. apply Hc. reflexivity.
    - intros E i0 ag Hc Hn. injection Hc as <-. eapply I3; try eassumption. lia.
    - intros E i0 j ag Hc Hlt Hn. injection Hc as <-. eapply I3; try eassumption. lia.
    - intros j ag c Hn Hl Hb Hm. eapply I4; try eassumption. destruct (locrel q); simpl in Hm; try contradiction; reflexivity.
  Qed.

  Lemma fs_exit_sound j1 i x h : RGx j1 (Some i) x h -> GI (fs_exit j1) (S i) x h.
  Proof.
    destruct j1 as [a q]. intros [[HF HR] _]. simpl in HF, HR. constructor; simpl.
    - apply (fa_exit_sound lbs ubs f INIT) with (i := i). exact HF.
    - intros E j ag Hn Hlt. apply andb_true_iff in E as [E1 E2]. destruct (Nat.eq_dec j i) as [->|Hne].
      + eapply (r_cur _ _ _ _ HR); try eassumption. reflexivity.
      + eapply (r_done _ _ _ _ HR); try eassumption. intros i0 Hi0. injection Hi0 as <-. lia.
    - intros E j ag Hn Hle. eapply (r_todo _ _ _ _ HR E i j ag eq_refl); [lia|exact Hn].
    - intros E j ag c Hn Hl Hb. eapply exit_loc_sound; eassumption.
    - intros E. eapply r_best; eassumption.
    - eapply r_evs; eassumption.
  Qed.

  Lemma fs_finish_sound J x h : GI J (length (pop x)) x h -> RG (fs_finish J) None x h.
  Proof.
    destruct J as [a q]. intros [I1 I2 I3 I4 I5 I6]. simpl in *. split; simpl; [exact I1|].
    constructor; simpl; try assumption; try (intros; discriminate).
    - intros E j ag Hn _. eapply I2; try eassumption. apply nth_error_Some. congruence.
    - intros j ag c Hn Hl Hb Hm. eapply I4; try eassumption. destruct (locrel q); simpl in Hm; try contradiction; reflexivity.
  Qed.

  Lemma exec_peel s : forall l cur o x, xexec cur (snd (peel l s)) o x = xexec cur s o x.
  Proof. induction s; intros; try reflexivity. simpl. apply IHs. Qed.

  Lemma exec_len_id s cur o x x' evs o' : xexec cur s o x = Some (x', evs, o') -> length (pop x') = length (pop x).
  Proof. apply (Counts.exec_len lbs ubs f hk n_iter okc hk_len). Qed.

  Lemma fs_loop J j1 l b :
    ra_absint0 l true b (fs_enter J) = (j1, []) -> ra_leb (fs_exit j1) J = true ->
    forall n i o x h x' evs o', GI J i x h ->
      iter_slots i n (fun k => xexec (Some k) b) o x = Some (x', evs, o') ->
      GI J (i + n) x' (h ++ evs) /\ length (pop x') = length (pop x).
  Proof.
    intros Habs Hst n. induction n as [|n IH]; intros i o x h x' evs o' HG H; simpl in H.
    - unfold ret in H. injection H as <- <- <-. rewrite app_nil_r, Nat.add_0_r. auto.
    - apply bind_some in H as (x1 & e1 & o1 & e2 & H1 & H2 & ->).
      pose proof (exec_len_id _ _ _ _ _ _ _ H1) as Hl1.
      assert (HG1 : GI J (S i) x1 (h ++ e1)).
      { eapply GI_mono; [exact Hst|]. apply fs_exit_sound.
        eapply ra_sound0; [exact Habs|exists i; reflexivity|apply fs_enter_sound; exact HG|exact H1]. }
      rewrite app_assoc. replace (i + S n) with (S i + n) by lia.
      destruct (IH _ _ _ _ _ _ _ HG1 H2) as [HG2 Hl2]. split; [exact HG2|congruence].
  Qed.

  Lemma fs_sound l b a J :
    loop ra ra_leb ra_join l (fun j => let (j', al) := ra_absint0 l true b (fs_enter j) in (fs_exit j', al)) (fs_start a) = (J, []) ->
    forall o x h x' evs o', RG a None x h -> xexec None (ForSlots b) o x = Some (x', evs, o') ->
    RG (fs_finish J) None x' (h ++ evs).
  Proof.
    intros Hloop o x h x' evs o' HG Hex.
    apply (loop_sound ra ra_leb ra_join ra_leb_refl ra_leb_trans ra_join_l) in Hloop as [Hle (j' & HF & Hst)].
    destruct (ra_absint0 l true b (fs_enter J)) as [j1 al1] eqn:E1. injection HF as <- ->.
    simpl in Hex.
    destruct (fs_loop J j1 l b E1 Hst (length (pop x)) 0 o x h x' evs o') as [HG' Hlen']; [|exact Hex|].
    - eapply GI_mono; [exact Hle|]. apply fs_start_sound. exact HG.
    - simpl in HG'. rewrite <- Hlen' in HG'. apply fs_finish_sound. exact HG'.
  Qed.

  Lemma fs_finish_lt J : lt_cb (snd (fs_finish J)) = false.
  Proof. destruct J; reflexivity. Qed.

  Lemma ra_special_sound : forall l incur s a a', ra_special l incur s a = Some (a', []) ->
    forall cur o x h x' evs o', (if incur then exists i, cur = Some i else cur = None) ->
    RGx a cur x h -> xexec cur s o x = Some (x', evs, o') -> RGx a' cur x' (h ++ evs).
  Proof.
    intros l incur s a a' Hsp cur o x h x' evs o' Hcur HG Hex.
    unfold ra_special in Hsp. pose proof (exec_peel s l cur o x) as Hp.
    destruct (peel l s) as [l' s'] eqn:Epeel. simpl in Hp.
    assert (Hdef : ra_special0 l incur s a = Some (a', []) -> RGx a' cur x' (h ++ evs)).
    { intros H0. eapply ra_special0_sound; eassumption. }
    destruct s'; try (apply Hdef; exact Hsp).
    destruct incur; [discriminate|]. subst cur. injection Hsp as Hsp.
    destruct (loop ra ra_leb ra_join l' _ (fs_start a)) as [J al] eqn:El. injection Hsp as <- ->.
    rewrite <- Hp in Hex. split.
    - eapply fs_sound; [exact El|exact (proj1 HG)|exact Hex].
    - rewrite fs_finish_lt. discriminate.
  Qed.

  (* ---- soundness of the analysis for every IR program *)
  Theorem ra_sound : forall s l a a', ra_absint l false s a = (a', []) ->
    forall o x h x' evs o', RG a None x h ->
      exec lbs ubs f hk n_iter okc None s o x = Some (x', evs, o') -> RG a' None x' (h ++ evs).
  Proof.
    intros s l a a' Habs o x h x' evs o' HG Hex.
    apply (proj1 (A := RG a' None x' (h ++ evs)) (B := lt_cb (snd a') = true -> forall i, None = Some i -> i < length (pop x'))).
    change (RGx a' None x' (h ++ evs)).
    eapply (absint_sound lbs ubs f hk n_iter okc ra ra_leb ra_join ra_atom ra_assume ra_enter ra_exit ra_special RGx)
      with (incur := false) (cur := None); try eassumption; try reflexivity.
    - apply ra_leb_refl.
    - apply ra_leb_trans.
    - apply ra_join_l.
    - apply ra_join_r.
    - intros; eapply RGx_mono; eassumption.
    - intros; eapply ra_atom_sound; eassumption.
    - intros; eapply ra_assume_sound; eassumption.
    - intros; apply ra_enter_sound; assumption.
    - intros; eapply ra_exit_sound; eassumption.
    - intros; eapply ra_special_sound; eassumption.
    - apply RGx_of_RG. exact HG.
  Qed.

  (* ---- one task *)
  Definition restart_ok (x : st) : Prop :=
    forall lc, Forall (fun c => In c INIT /\ wf lbs c) lc -> start_ok (with_loc x lc).

  (* what a state must satisfy for every later task to start well *)
  Lemma restart_intro x :
    (forall j ag, nth_error (pop x) j = Some ag -> feasible lbs ubs (apos ag) = true /\ below x ag = false) ->
    best_ok x -> wf lbs (apos (tr x)) -> (forall j ag, nth_error (sh x) j = Some ag -> wf lbs (apos ag)) ->
    restart_ok x.
  Proof.
    intros Hpop Hbest Htr Hsh lc Hlc. split; simpl.
    - constructor; simpl.
      + intros j ag Hn _. apply (Hpop j ag Hn).
      + intros j ag Hc. discriminate.
      + destruct Hbest as [Hb|(_ & Hb1 & Hb2)]; [left; exact Hb|right; split; assumption].
      + exact Htr.
      + intros j ag Hn _. eapply Hsh; eassumption.
      + intros j ag Hc. discriminate.
      + intros c Hc. right. rewrite Forall_forall in Hlc. apply Hlc. exact Hc.
      + constructor.
    - constructor; simpl; try (intros; discriminate).
      + intros _ j ag Hn _. apply (Hpop j ag Hn).
      + intros j ag c Hn _ Hb _. change (below x ag = true) in Hb. rewrite (proj2 (Hpop j ag Hn)) in Hb. discriminate.
      + intros _. exact Hbest.
      + constructor.
  Qed.

  Theorem c01r_of_check (p : stmt) :
    c01r_check p = true ->
    forall o x0 x' evs o', start_ok x0 -> run lbs ubs f hk n_iter okc p o x0 = Some (x', evs, o') ->
      Forall (fun c => feasible lbs ubs c = true) (eval_args evs) /\
      Forall ev_ok2 evs /\ best_ok x' /\ restart_ok x'.
  Proof.
    unfold c01r_check, c01r_result. intros Hal o x0 x' evs o' Hi Hr.
    destruct (ra_absint 0 false p ra_init) as [[a' q'] al] eqn:E. destruct al; [|discriminate].
    apply andb_true_iff in Hal as [Hal Hpop]. apply andb_true_iff in Hal as [Hbg Hdone].
    pose proof (ra_sound p 0 ra_init (a', q') E o x0 [] x' evs o' Hi Hr) as [HF HR]. simpl in HF, HR.
    assert (Hbest : best_ok x') by (eapply r_best; eassumption).
    split; [|split; [|split]].
    - pose proof (g_evs _ _ _ _ _ _ _ HF) as G8. simpl in G8. clear -G8.
      induction G8 as [|e evs He _ IH]; simpl; [constructor|].
      destruct e; simpl; try assumption. constructor; assumption.
    - exact (r_evs _ _ _ _ HR).
    - exact Hbest.
    - apply restart_intro.
      + intros j ag Hn. split.
        * pose proof (g_pop _ _ _ _ _ _ _ HF j ag Hn) as Hlv. destruct (f_pop a'); try discriminate. apply Hlv. discriminate.
        * eapply (r_done _ _ _ _ HR); try eassumption. intros i Hi0. discriminate.
      + exact Hbest.
      + eapply (lv_ok_wf lbs ubs f INIT). exact (g_tr _ _ _ _ _ _ _ HF).
      + intros j ag Hn. eapply (lv_ok_wf lbs ubs f INIT). eapply (g_shall _ _ _ _ _ _ _ HF); [exact Hn|discriminate].
  Qed.

  (* ---- every finite history of tasks on one space: run() re-creates its local arrays (placeholders [lc]) each time *)
  Inductive tasks : list stmt -> st -> list event -> st -> Prop :=
  | tasks_nil x : tasks [] x [] x
  | tasks_cons p ps x lc o x1 evs1 o1 evs2 x2 :
      Forall (fun c => In c INIT /\ wf lbs c) lc ->
      run lbs ubs f hk n_iter okc p o (with_loc x lc) = Some (x1, evs1, o1) ->
      tasks ps x1 evs2 x2 ->
      tasks (p :: ps) x (evs1 ++ evs2) x2.

  Lemma eval_args_app e1 e2 : eval_args (e1 ++ e2) = eval_args e1 ++ eval_args e2.
  Proof. unfold eval_args. apply flat_map_app. Qed.

  Theorem c01_tasks (ps : list stmt) :
    Forall (fun p => c01r_check p = true) ps ->
    forall x0 evs x', restart_ok x0 -> tasks ps x0 evs x' ->
      Forall (fun c => feasible lbs ubs c = true) (eval_args evs) /\
      Forall ev_ok2 evs /\ restart_ok x'.
  Proof.
    intros Hps x0 evs x' Hr Ht. induction Ht as [x|p ps x lc o x1 evs1 o1 evs2 x2 Hlc Hrun Ht IH].
    - simpl. split; [constructor|split; [constructor|exact Hr]].
    - inversion Hps as [|p0 ps0 Hp Hps']; subst.
      destruct (c01r_of_check p Hp o (with_loc x lc) x1 evs1 o1 (Hr lc Hlc) Hrun) as (H1 & H2 & _ & H4).
      destruct (IH Hps' H4) as (K1 & K2 & K3).
      rewrite eval_args_app. split; [|split; [|exact K3]]; apply Forall_app; split; assumption.
  Qed.

  (* a freshly built space (Feasible.init_ok) whose fitnesses are all the sentinel and whose best position is a placeholder *)
  Theorem fresh_restart_ok (x : st) :
    init_ok lbs ubs INIT x ->
    (forall ag, In ag (pop x) -> afit ag = KMAX) -> afit (best x) = KMAX -> In (apos (best x)) INIT ->
    restart_ok x.
  Proof.
    unfold init_ok. intros HF Hfit Hbf Hbp. apply restart_intro.
    - intros j ag Hn. split.
      + apply (g_pop _ _ _ _ _ _ _ HF j ag Hn). discriminate.
      + unfold below. rewrite Hbf, (Hfit ag (nth_error_In _ _ Hn)). apply klt_irrefl.
    - right. split; [exact Hbf|]. split; [exact Hbp|]. eapply (lv_ok_wf lbs ubs f INIT). exact (g_best _ _ _ _ _ _ _ HF).
    - eapply (lv_ok_wf lbs ubs f INIT). exact (g_tr _ _ _ _ _ _ _ HF).
    - intros j ag Hn. eapply (lv_ok_wf lbs ubs f INIT). eapply (g_shall _ _ _ _ _ _ _ HF); [exact Hn|discriminate].
  Qed.
End RelSound.

Print Assumptions c01_tasks.
Print Assumptions c01r_of_check.
Print Assumptions ra_sound.
Print Assumptions fresh_restart_ok.
