(* C04: the History returned by a task = the History model (Model/History.v) fed with the dumps of the run.

   run() dumps, at the end of every iteration, the keyword arguments [kw_of keys x] of the state x at that moment
   (Analysis/Iterations.v: the EvDump records ARE the iteration-end states, in order, n_iterations of them);
   Opytimizer.start then dumps time=<elapsed> once (translate/t2_start.py).  Composed with dump_spec /
   store_best_only_spec / dump_append_only of Model/HistoryProofs.v this gives the property. *)
From Coq Require Import String ZArith List Bool Arith Lia.
From OV Require Import Base.FloatKey Model.Clip Model.IR Model.IRSem Model.History Model.HistoryProofs
  Analysis.SemLemmas Analysis.AbsInt Analysis.Counts Analysis.Iterations.
Import ListNotations.
Close Scope Z_scope.
Open Scope string_scope.
Open Scope list_scope.

Definition hagent (a : IRSem.agent) : History.agent := (apos a, Some (afit a)).

(* what run() hands to history.dump for the state x; best_tree is stored as given (by reference):
   it is represented here by the value of the detached best-tree copy *)
Definition inval_of (k : string) (x : st) : inval :=
  if String.eqb k "agents" then IAgents (map hagent (pop x))
  else if String.eqb k "best_agent" then IAgent (hagent (best x))
  else if String.eqb k "local" then IArrays (loc x)
  else IVal (pos_val (btv x)).

Definition kw_of (keys : list string) (x : st) : kwargs := map (fun k => (k, inval_of k x)) keys.

Definition keys_ok (keys : list string) : bool :=
  forallb (fun k => String.eqb k "agents" || String.eqb k "best_agent" || String.eqb k "local" || String.eqb k "best_tree") keys.

Lemma stored_inval_of k x : (String.eqb k "agents" || String.eqb k "best_agent" || String.eqb k "local" || String.eqb k "best_tree") = true ->
  stored k (inval_of k x) <> None.
Proof.
  intros H. unfold stored, inval_of, parse, mem, HISTORY_KEYS. simpl.
  destruct (String.eqb k "agents") eqn:E1; [apply String.eqb_eq in E1; subst; simpl; discriminate|].
  destruct (String.eqb k "best_agent") eqn:E2; [apply String.eqb_eq in E2; subst; simpl; discriminate|].
  destruct (String.eqb k "local") eqn:E3; [apply String.eqb_eq in E3; subst; simpl; discriminate|].
  simpl. discriminate.
Qed.

Lemma kw_of_dump_ok keys x : keys_ok keys = true -> dump_ok keys (kw_of keys x).
Proof.
  intros H. split.
  - unfold kw_of. rewrite map_map. simpl. apply map_id.
  - unfold kw_of. apply Forall_forall. intros p Hin. apply in_map_iff in Hin as (k & <- & Hk). simpl.
    apply stored_inval_of. unfold keys_ok in H. rewrite forallb_forall in H. apply H. exact Hk.
Qed.

(* the history object after the run's dumps: per key the series of parsed records, one per iteration, in order *)
Theorem history_of_records (b : bool) (keys : list string) (xs : list st) :
  NoDup keys -> keys_ok keys = true ->
  exists h, dumps (fresh b) (map (kw_of keys) xs) = Some h /\
    lookup FLAG h = Some (VBool b) /\
    forall k, In k keys ->
      (kept (VBool b) k = true -> series k h = map (fun x => rec_at k (kw_of keys x)) xs /\ length (series k h) = length xs) /\
      (kept (VBool b) k = false -> lookup k h = None).
Proof.
  intros ND KO.
  assert (NF : ~ In FLAG keys).
  { intros Hin. unfold keys_ok in KO. rewrite forallb_forall in KO. specialize (KO _ Hin). unfold FLAG in KO. simpl in KO. discriminate. }
  destruct (dump_spec b keys (map (kw_of keys) xs) ND NF) as (h & D & F & K).
  { apply Forall_forall. intros kw Hin. apply in_map_iff in Hin as (x & <- & _). apply kw_of_dump_ok. exact KO. }
  exists h. split; [exact D|split; [exact F|]]. intros k Hk. destruct (K k Hk) as (_ & K2 & K3). split; [|exact K3].
  intros Kp. destruct (K2 Kp) as [S L]. rewrite map_map in S. split; [exact S|]. rewrite S, map_length. reflexivity.
Qed.

(* ... and after Opytimizer.start has dumped the elapsed time once *)
Definition TIME : string := "time".

Lemma spec_series_kw_other f k keys x : ~ In k keys -> spec_series f k (kw_of keys x) = [].
Proof. intros H. apply spec_series_notin. unfold kw_of. rewrite map_map. simpl. rewrite map_id. exact H. Qed.

Theorem history_of_task (b : bool) (keys : list string) (xs : list st) (t : val) :
  NoDup keys -> keys_ok keys = true ->
  exists h, dumps (fresh b) (map (kw_of keys) xs ++ [[(TIME, IVal t)]]) = Some h /\
    series TIME h = [t] /\
    forall k, In k keys ->
      (kept (VBool b) k = true -> series k h = map (fun x => rec_at k (kw_of keys x)) xs) /\
      (kept (VBool b) k = false -> series k h = []).
Proof.
  intros ND KO.
  assert (NF : ~ In FLAG keys).
  { intros Hin. unfold keys_ok in KO. rewrite forallb_forall in KO. specialize (KO _ Hin). unfold FLAG in KO. simpl in KO. discriminate. }
  assert (NT : ~ In TIME keys).
  { intros Hin. unfold keys_ok in KO. rewrite forallb_forall in KO. specialize (KO _ Hin). unfold TIME in KO. simpl in KO. discriminate. }
  assert (P : Forall pairs_ok (map (kw_of keys) xs ++ [[(TIME, IVal t)]])).
  { apply Forall_app. split.
    - apply Forall_forall. intros kw Hin. apply in_map_iff in Hin as (x & <- & _).
      destruct (kw_of_dump_ok keys x KO) as [K S]. unfold pairs_ok. apply Forall_forall. intros p Hp. split.
      + intros E. apply NF. rewrite <- K, <- E. apply in_map. exact Hp.
      + rewrite Forall_forall in S. apply S. exact Hp.
    - constructor; [|constructor]. constructor; [|constructor]. simpl. split; [discriminate|]. unfold stored. simpl. discriminate. }
  destruct (dumps_spec _ (fresh b) (VBool b) (wf_fresh b) P) as (h & D & W & S & L).
  exists h. split; [exact D|].
  assert (S0 : forall k, k <> FLAG -> series k (fresh b) = []).
  { intros k Hk. unfold series, fresh. simpl. apply String.eqb_neq in Hk. unfold FLAG in *. rewrite Hk. reflexivity. }
  split.
  - rewrite S, S0 by discriminate. rewrite map_app, concat_app.
    assert (Z : List.concat (map (spec_series (VBool b) TIME) (map (kw_of keys) xs)) = []).
    { clear -NT. induction xs as [|x xs IH]; simpl; [reflexivity|]. rewrite (spec_series_kw_other _ _ _ _ NT), IH. reflexivity. }
    rewrite Z. simpl. unfold spec_series. simpl. unfold contrib. simpl. reflexivity.
  - intros k Hk.
    assert (NKF : k <> FLAG) by (intros ->; contradiction).
    assert (NKT : k <> TIME) by (intros ->; contradiction).
    assert (C : List.concat (map (spec_series (VBool b) k) (map (kw_of keys) xs ++ [[(TIME, IVal t)]])) =
                if kept (VBool b) k then map (fun x => rec_at k (kw_of keys x)) xs else []).
    { rewrite map_app, concat_app.
      assert (E : spec_series (VBool b) k [(TIME, IVal t)] = []).
      { unfold spec_series. simpl. unfold contrib. simpl. apply String.eqb_neq in NKT. rewrite NKT. reflexivity. }
      change (map (spec_series (VBool b) k) [[(TIME, IVal t)]]) with [spec_series (VBool b) k [(TIME, IVal t)]].
      cbn [List.concat]. rewrite E, !app_nil_r.
      clear -ND KO Hk. induction xs as [|x xs IH]; simpl; [destruct (kept (VBool b) k); reflexivity|].
      destruct (kw_of_dump_ok keys x KO) as [K St].
      rewrite (spec_series_nodup (VBool b) k (kw_of keys x)); [|rewrite K; exact ND|rewrite K; exact Hk|exact St].
      rewrite IH. destruct (kept (VBool b) k); reflexivity. }
    rewrite S, S0, C by exact NKF. split; intros ->; reflexivity.
Qed.
