(* Histories of tasks on one space, in full generality: a finite sequence of tasks, each with its OWN program (optimizer),
   objective, hook, iteration count, oracle (draw stream) and freshly created run-local arrays, run one after the other on
   the same space inside one box.  Theorems whose single-task form holds from EVERY start state lift to such histories by
   [thist_lift]; theorems that need a start condition lift by [thist_inv] once the condition is re-established by every task. *)
From Coq Require Import ZArith List Bool Arith Lia.
From OV Require Import Base.FloatKey Model.Clip Model.IR Model.IRSem.
Import ListNotations.
Close Scope Z_scope.
Open Scope list_scope.

Record task := { tp : stmt; tf : contents -> Z; thk : st -> st; tn : nat; tlc : list contents; tor : list answer }.

(* one observed task: the state it started in (after run() re-created its local arrays), its events, the state it left *)
Definition trec := (st * list event * st)%type.

Inductive thist (lbs ubs : list Z) (okc : contents -> contents -> bool) : list task -> st -> list trec -> st -> Prop :=
| thist_nil x : thist lbs ubs okc [] x [] x
| thist_cons t ts x x1 evs1 o1 rest x2 :
    run lbs ubs (tf t) (thk t) (tn t) okc (tp t) (tor t) (with_loc x (tlc t)) = Some (x1, evs1, o1) ->
    thist lbs ubs okc ts x1 rest x2 ->
    thist lbs ubs okc (t :: ts) x ((with_loc x (tlc t), evs1, x1) :: rest) x2.

(* the whole trace of a history *)
Definition hist_events (rs : list trec) : list event := flat_map (fun r => snd (fst r)) rs.

Section Lift.
  Variables (lbs ubs : list Z) (okc : contents -> contents -> bool).

  (* a fact that every single run has, from whatever state it starts, holds of every task of every history *)
  Lemma thist_lift (Q : task -> Prop) (P : task -> trec -> Prop) :
    (forall t xs x1 evs o1, Q t ->
        run lbs ubs (tf t) (thk t) (tn t) okc (tp t) (tor t) xs = Some (x1, evs, o1) -> P t (xs, evs, x1)) ->
    forall ts x0 rs x', Forall Q ts -> thist lbs ubs okc ts x0 rs x' -> Forall2 P ts rs.
  Proof.
    intros HP ts x0 rs x' HQ Ht. induction Ht as [x|t ts x x1 evs1 o1 rest x2 Hrun Ht IH].
    - constructor.
    - constructor.
      + eapply HP; [exact (Forall_inv HQ)|exact Hrun].
      + apply IH. exact (Forall_inv_tail HQ).
  Qed.

  (* a start condition I that every task re-establishes (whatever local arrays the next run() creates) holds at the start
     of every task, and the single-task fact that needs it holds of every task *)
  Lemma thist_inv (I : st -> Prop) (Q : task -> Prop) (P : task -> trec -> Prop) :
    (forall x lc, I x -> I (with_loc x lc)) ->
    (forall t xs x1 evs o1, Q t -> I xs ->
        run lbs ubs (tf t) (thk t) (tn t) okc (tp t) (tor t) xs = Some (x1, evs, o1) -> P t (xs, evs, x1) /\ I x1) ->
    forall ts x0 rs x', Forall Q ts -> I x0 -> thist lbs ubs okc ts x0 rs x' -> Forall2 P ts rs /\ I x'.
  Proof.
    intros Hloc HP ts x0 rs x' HQ H0 Ht. induction Ht as [x|t ts x x1 evs1 o1 rest x2 Hrun Ht IH].
    - split; [constructor|exact H0].
    - destruct (HP t _ _ _ _ (Forall_inv HQ) (Hloc x (tlc t) H0) Hrun) as [A B].
      destruct (IH (Forall_inv_tail HQ) B) as [C D]. split; [constructor; assumption|exact D].
  Qed.

  Lemma thist_length ts x0 rs x' : thist lbs ubs okc ts x0 rs x' -> length rs = length ts.
  Proof. induction 1; simpl; congruence. Qed.

  (* a history splits at any point: the second part is a history from the state the first part left *)
  Lemma thist_app ts1 ts2 x0 rs x' : thist lbs ubs okc (ts1 ++ ts2) x0 rs x' <->
    exists x1 rs1 rs2, thist lbs ubs okc ts1 x0 rs1 x1 /\ thist lbs ubs okc ts2 x1 rs2 x' /\ rs = rs1 ++ rs2.
  Proof.
    split.
    - revert x0 rs. induction ts1 as [|t ts1 IH]; intros x0 rs H.
      + exists x0, [], rs. split; [constructor|split; [exact H|reflexivity]].
      + simpl in H. inversion H as [|t' ts' x x1 evs1 o1 rest x2 Hrun Ht]; subst.
        destruct (IH _ _ Ht) as (y & rs1 & rs2 & A & B & C). subst rest.
        exists y, ((with_loc x0 (tlc t), evs1, x1) :: rs1), rs2. split; [econstructor; eassumption|split; [exact B|reflexivity]].
    - intros (x1 & rs1 & rs2 & A & B & C). subst rs. induction A as [x|t ts x y evs1 o1 rest x2 Hrun Ht IH].
      + exact B.
      + simpl. econstructor; [exact Hrun|]. apply IH. exact B.
  Qed.

  Lemma thist_last ts x0 rs x' : thist lbs ubs okc ts x0 rs x' -> x' = last (map snd rs) x0.
  Proof.
    induction 1 as [x|t0 ts x x1 evs1 o1 rest x2 Hrun Ht IH]; [reflexivity|].
    rewrite IH. cbn [map]. destruct rest as [|r rest]; [reflexivity|]. cbn [map].
    change (last (snd (with_loc x (tlc t0), evs1, x1) :: snd r :: map snd rest) x) with (last (snd r :: map snd rest) x).
    clear. generalize (snd r). induction (map snd rest) as [|a l IHl]; intros s; [reflexivity|].
    change (last (s :: a :: l) x1) with (last (a :: l) x1). change (last (s :: a :: l) x) with (last (a :: l) x). apply IHl.
  Qed.
  (* a history is a function of the start state and of the tasks (programs, objectives, hooks, counts, streams) *)
  Lemma thist_functional ts x0 rs x' rs2 x2 :
    thist lbs ubs okc ts x0 rs x' -> thist lbs ubs okc ts x0 rs2 x2 -> rs = rs2 /\ x' = x2.
  Proof.
    intros H. revert rs2 x2. induction H as [x|t ts x x1 evs1 o1 rest x3 Hrun Ht IH]; intros rs2 x2 H2.
    - inversion H2; subst. split; reflexivity.
    - inversion H2 as [|t' ts' y y1 evs2 o2 rest2 y2 Hrun2 Ht2]; subst.
      rewrite Hrun in Hrun2. injection Hrun2 as <- <- <-.
      destruct (IH _ _ Ht2) as [-> ->]. split; reflexivity.
  Qed.
End Lift.
