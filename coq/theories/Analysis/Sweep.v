(* The three evaluation sweeps (Optimizer._evaluate, PSO._evaluate, GP._evaluate) as IR bodies, and what one
   pass over the population does: it evaluates, in population order, exactly the positions the state at
   the start of the sweep holds (the clipped tree values for GP), writing only the visited slot, the best
   agent, the fitness temporary, the visited slot's local position and the best-tree value. *)
From Coq Require Import String ZArith List Bool Arith Lia.
From OV Require Import Base.FloatKey Model.Clip Model.IR Model.IRSem Analysis.SemLemmas.
Import ListNotations.
Close Scope Z_scope.
Open Scope nat_scope.

Definition upd_best : stmt := Seq (CopyPos Best Cur) (CopyFit Best Cur).

Definition sweep_base : stmt :=
  Seq (Eval Cur) (If (FitLt Cur Best) upd_best Skip).

Definition sweep_pso : stmt :=
  Seq (EvalTmp Cur)
 (Seq (If (TmpLt Cur) (Seq (SetFitTmp Cur) LocFromPos) Skip)
      (If (FitLt Cur Best) (Seq BestPosFromLoc (CopyFit Best Cur)) Skip)).

Definition sweep_gp : stmt :=
  Seq (PosFromTree Cur)
 (Seq (Clip Cur)
 (Seq (Eval Cur)
      (If (FitLt Cur Best) (Seq BestTreeCopy upd_best) Skip))).

Inductive sweep_kind := KBase | KPso | KTree.

Definition sweep_body (k : sweep_kind) : stmt :=
  match k with KBase => sweep_base | KPso => sweep_pso | KTree => sweep_gp end.

Section Sweep.
  Variables (lbs ubs : list Z) (f : contents -> Z) (hk : st -> st) (n_iter : nat) (okc : contents -> contents -> bool).
  Notation exec := (exec lbs ubs f hk n_iter okc).

  (* the argument the sweep hands to the objective for slot i of state y *)
  Definition sweep_arg (k : sweep_kind) (y : st) (i : nat) : option contents :=
    match k with
    | KTree => match nth_error (tv y) i with Some t => Some (clipc lbs ubs t) | None => None end
    | _ => match nth_error (pop y) i with Some a => Some (apos a) | None => None end
    end.

  (* what a slot step may change *)
  Record slotframe (i : nat) (x x' : st) : Prop := {
    sf_len : length (pop x') = length (pop x);
    sf_other : forall j, j <> i -> nth_error (pop x') j = nth_error (pop x) j;
    sf_tv : tv x' = tv x;
    sf_sh : sh x' = sh x;
    sf_tr : tr x' = tr x;
    sf_hyp : hyp x' = hyp x
  }.

  Lemma slotframe_refl i x : slotframe i x x.
  Proof. constructor; auto. Qed.

  Lemma slotframe_trans i x y z : slotframe i x y -> slotframe i y z -> slotframe i x z.
  Proof.
    intros [A1 A2 A3 A4 A5 A6] [B1 B2 B3 B4 B5 B6]. constructor; try congruence.
    intros j Hj. rewrite B2, A2 by assumption. reflexivity.
  Qed.

  Lemma slotframe_upd i x a l : upd i a (pop x) = Some l -> slotframe i x (with_pop x l).
  Proof.
    intros H. constructor; simpl; try reflexivity.
    - eapply upd_length; eassumption.
    - intros j Hj. eapply upd_nth_other; eassumption.
  Qed.

  Ltac inv H := injection H as <- <- <-.

  Ltac crunch :=
    repeat (simpl; unfold bind, ret;
      match goal with
      | H : nth_error ?l ?i = Some _ |- context[nth_error ?l ?i] => rewrite H
      | H : upd ?i ?a ?l = Some ?l' |- context[nth_error ?l' ?i] => rewrite (upd_nth_same _ _ _ _ H)
      | |- context[match upd ?i ?a ?l with _ => _ end] =>
          let E := fresh "Eu" in destruct (upd i a l) eqn:E; [|simpl; intros HH; discriminate HH]
      | |- context[match nth_error ?l ?i with _ => _ end] =>
          let E := fresh "En" in destruct (nth_error l i) eqn:E; [|simpl; intros HH; discriminate HH]
      | |- context[if klt ?a ?b then _ else _] => destruct (klt a b)
      | |- context[if negb (okc ?a ?b) then _ else _] => destruct (okc a b); [|simpl; intros HH; discriminate HH]
      end).

  Ltac frame :=
    constructor; simpl; try reflexivity;
    try (repeat (erewrite upd_length by eassumption); reflexivity);
    try (intros j Hj; repeat (erewrite upd_nth_other by eassumption); reflexivity).

  (* one step of each sweep on slot i *)
  Lemma sweep_step k i o x x' e o' :
    exec (Some i) (sweep_body k) o x = Some (x', e, o') ->
    exists c, sweep_arg k x i = Some c /\ e = [EvEval c (f c)] /\ o' = o /\ slotframe i x x'.
  Proof.
    destruct k; unfold sweep_arg; simpl; crunch; intros H; inv H; eexists;
      (split; [reflexivity|split; [reflexivity|split; [reflexivity|]]]);
      frame.
  Qed.

  (* the events of a whole sweep: one evaluation per slot, in order, at the arguments of the START state *)
  Fixpoint sweep_args_from (k : sweep_kind) (y : st) (i n : nat) : option (list contents) :=
    match n with
    | 0 => Some []
    | S m => match sweep_arg k y i, sweep_args_from k y (S i) m with
             | Some c, Some t => Some (c :: t) | _, _ => None end
    end.

  Definition evals_of (cs : list contents) : list event := map (fun c => EvEval c (f c)) cs.

  Lemma sweep_arg_frame k i j x x' : slotframe i x x' -> j <> i -> sweep_arg k x' j = sweep_arg k x j.
  Proof.
    intros [A1 A2 A3 A4 A5 A6] Hj. destruct k; simpl; rewrite ?A2, ?A3 by assumption; reflexivity.
  Qed.

  Lemma sweep_args_frame k i x x' : slotframe i x x' -> forall n s0, i < s0 ->
    sweep_args_from k x' s0 n = sweep_args_from k x s0 n.
  Proof.
    intros Hf n. induction n as [|n IH]; intros s0 Hlt; simpl; [reflexivity|].
    rewrite (sweep_arg_frame k i s0 x x' Hf) by lia. rewrite IH by lia. reflexivity.
  Qed.

  Lemma sweep_loop k : forall n i o x x' e o',
    iter_slots i n (fun j => exec (Some j) (sweep_body k)) o x = Some (x', e, o') ->
    exists cs, sweep_args_from k x i n = Some cs /\ e = evals_of cs /\ o' = o /\
               length (pop x') = length (pop x) /\ tv x' = tv x /\ sh x' = sh x /\ tr x' = tr x /\ hyp x' = hyp x /\
               (forall j, j < i -> nth_error (pop x') j = nth_error (pop x) j).
  Proof.
    induction n as [|n IH]; intros i o x x' e o' H; simpl in H.
    - unfold ret in H. injection H as <- <- <-. exists []. repeat split; reflexivity.
    - apply bind_some in H as (x1 & e1 & o1 & e2 & H1 & H2 & ->).
      apply sweep_step in H1 as (c & Hc & -> & -> & Hf).
      apply IH in H2 as (cs & Hcs & -> & -> & Hl & Ht & Hs & Htr & Hh & Hlow).
      exists (c :: cs). simpl. rewrite Hc.
      rewrite (sweep_args_frame k i x x1 Hf) in Hcs by lia. rewrite Hcs.
      destruct Hf as [A1 A2 A3 A4 A5 A6].
      repeat split; try reflexivity; try congruence.
      intros j Hj. rewrite Hlow by lia. apply A2. lia.
  Qed.

  Definition sweep_args (k : sweep_kind) (y : st) : option (list contents) :=
    sweep_args_from k y 0 (length (pop y)).

  (* the whole sweep loop *)
  Theorem sweep_events k o x x' e o' cur :
    exec cur (ForSlots (sweep_body k)) o x = Some (x', e, o') ->
    exists cs, sweep_args k x = Some cs /\ e = evals_of cs /\ o' = o /\ length cs = length (pop x) /\
               length (pop x') = length (pop x) /\ tv x' = tv x /\ sh x' = sh x /\ tr x' = tr x /\ hyp x' = hyp x.
  Proof.
    simpl. intros H. apply sweep_loop in H as (cs & Hcs & -> & -> & Hl & Ht & Hs & Htr & Hh & _).
    exists cs. unfold sweep_args. repeat split; try assumption; try reflexivity.
    clear -Hcs. revert cs Hcs. generalize 0 as i. induction (length (pop x)) as [|n IH]; intros i cs H; simpl in H.
    - injection H as <-. reflexivity.
    - destruct (sweep_arg k x i); [|discriminate]. destruct (sweep_args_from k x (S i) n) eqn:E; [|discriminate].
      injection H as <-. simpl. f_equal. eapply IH; eassumption.
  Qed.

  (* for the base and PSO sweeps the arguments are simply the positions of the population, in order *)
  Lemma sweep_args_positions k y cs : k <> KTree -> sweep_args k y = Some cs -> cs = map apos (pop y).
  Proof.
    intros Hk. unfold sweep_args.
    assert (G : forall n i cs, sweep_args_from k y i n = Some cs -> i + n = length (pop y) -> cs = map apos (skipn i (pop y))).
    { induction n as [|n IH]; intros i cs0 H Hlen; simpl in H.
      - injection H as <-. rewrite skipn_all2 by lia. reflexivity.
      - destruct (sweep_arg k y i) as [c|] eqn:Ec; [|discriminate].
        destruct (sweep_args_from k y (S i) n) as [t|] eqn:Et; [|discriminate]. injection H as <-.
        assert (Hc : exists a, nth_error (pop y) i = Some a /\ c = apos a).
        { destruct k; try congruence; simpl in Ec; destruct (nth_error (pop y) i) as [a|]; try discriminate;
            injection Ec as <-; exists a; split; reflexivity. }
        destruct Hc as (a & Ha & ->).
        rewrite (IH (S i) t Et) by lia.
        clear -Ha. revert i Ha. induction (pop y) as [|b l IHl]; intros [|i] Ha; simpl in *; try discriminate.
        + injection Ha as ->. reflexivity.
        + apply IHl. assumption. }
    intros H. rewrite (G _ 0 cs H) by lia. reflexivity.
  Qed.
End Sweep.
