(* Link between the constructor model of C06 (Model/SpaceInit.v) and the initial state the IR theorems start from:
   the state of a freshly built search/tree space satisfies [init_ok] of the feasibility domain (C01) -- every agent inside
   the box (under the uniform contract: each drawn row lies in its variable's range), the best agent and the auxiliary
   registers still the all-zero placeholders, every fitness the FLOAT_MAX sentinel. *)
From Coq Require Import String ZArith List Bool Arith Lia.
From OV Require Import Base.FloatKey Model.Clip Model.SpaceInit Model.IR Model.IRSem Analysis.AbsInt Analysis.Feasible.
Import ListNotations.
Close Scope Z_scope.
Open Scope nat_scope.

Definition zeros (nv nd : nat) : contents := repeat (repeat (Some K0) nd) nv.

Fixpoint agents_from (i : nat) (l : list magent) : list agent :=
  match l with
  | [] => []
  | a :: t => {| apos := a_pos a; aid := i; afit := KMAX |} :: agents_from (S i) t
  end.

(* the IR state of a freshly built space: ids 0..n-1 for the agents, n for the best agent, n+1 for the trial placeholder *)
Definition st_of_space (nv nd : nat) (sp : mspace) : st :=
  let n := length (s_agents sp) in
  {| pop := agents_from 0 (s_agents sp);
     best := {| apos := a_pos (s_best sp); aid := n; afit := KMAX |};
     tr := {| apos := zeros nv nd; aid := S n; afit := KMAX |};
     sh := [];
     loc := repeat (zeros nv nd) n;
     tmp := KMAX; idx := []; next := S (S n); hyp := [];
     tv := []; btv := zeros nv nd |}.

(* consecutive groups of nv rows *)
Fixpoint chunks (nv na : nat) (draws : list (list okey)) : list contents :=
  match na with
  | 0 => []
  | S k => firstn nv draws :: chunks nv k (skipn nv draws)
  end.

Lemma init_agents_std d nv nd lbs ubs : std_init d = true -> length lbs = nv -> length ubs = nv ->
  forall na draws, nv * na <= length draws ->
  fst (init_agents d lbs ubs (repeat (zero_agent nv nd) na) draws)
  = map (fun rows => {| a_pos := rows; a_lb := lbs; a_ub := ubs |}) (chunks nv na draws).
Proof.
  intros Hs Hl Hu. induction na as [|na IH]; intros draws Hd; simpl; [reflexivity|].
  assert (Hz : in_zip_bounds d = true).
  { unfold std_init in Hs. repeat (apply andb_true_iff in Hs as [Hs ?]). assumption. }
  rewrite Hz.
  rewrite (init_agent_std d nv nd lbs ubs draws Hs Hl Hu) by lia.
  destruct (init_agents d lbs ubs (repeat (zero_agent nv nd) na) (skipn nv draws)) as [rest dr] eqn:E.
  simpl. f_equal.
  specialize (IH (skipn nv draws)). rewrite E in IH. simpl in IH. apply IH. rewrite skipn_length. lia.
Qed.

Lemma zeros_wf lbs nv nd : length lbs = nv -> wf lbs (zeros nv nd).
Proof.
  intros H. unfold wf, zeros. split; [|rewrite repeat_length; congruence].
  unfold no_nan. apply forallb_forall. intros r Hr. apply repeat_spec in Hr. subst r.
  apply forallb_forall. intros x Hx. apply repeat_spec in Hx. subst x. reflexivity.
Qed.

Lemma agents_from_nth i l j b : nth_error (agents_from i l) j = Some b -> exists a, nth_error l j = Some a /\ apos b = a_pos a.
Proof.
  revert i j. induction l as [|a l IH]; intros i [|j]; simpl; try discriminate.
  - intros H. injection H as <-. exists a. split; reflexivity.
  - apply IH.
Qed.

(* C06 => the hypothesis of C01: a freshly built search/tree space is an admissible initial state *)
Theorem fresh_space_is_init_ok (d : in_descr) (nv nd na : nat) (lbs ubs : list Z) (draws : list (list okey)) :
  std_init d = true -> length lbs = nv -> length ubs = nv -> nv * na <= length draws ->
  (* the uniform contract: the rows drawn for each agent lie in the box *)
  Forall (fun rows => feasible lbs ubs rows = true) (chunks nv na draws) ->
  let sp := {| s_agents := fst (init_agents d (map Some lbs) (map Some ubs) (repeat (zero_agent nv nd) na) draws);
               s_best := zero_agent nv nd; s_lb := map Some lbs; s_ub := map Some ubs |} in
  init_ok lbs ubs [zeros nv nd] (st_of_space nv nd sp).
Proof.
  intros Hs Hl Hu Hd Hf sp.
  assert (Hags : s_agents sp = map (fun rows => {| a_pos := rows; a_lb := map Some lbs; a_ub := map Some ubs |}) (chunks nv na draws)).
  { unfold sp. simpl. apply init_agents_std; try assumption; rewrite map_length; assumption. }
  pose proof (zeros_wf lbs nv nd Hl) as Hz.
  unfold init_ok. constructor; simpl.
  - intros j ag Hn _. apply agents_from_nth in Hn as (a & Ha & ->). unfold sp in Hags. simpl in Hags. rewrite Hags in Ha.
    rewrite nth_error_map in Ha. destruct (nth_error (chunks nv na draws) j) as [rows|] eqn:E; [|discriminate].
    injection Ha as <-. simpl. rewrite Forall_forall in Hf. apply Hf. eapply nth_error_In. exact E.
  - intros j ag H. discriminate.
  - right. split; [left; reflexivity|exact Hz].
  - exact Hz.
  - intros [|j] ag H; discriminate.
  - intros j ag H. discriminate.
  - intros c Hc. apply repeat_spec in Hc. subst c. right. split; [left; reflexivity|exact Hz].
  - constructor.
Qed.
